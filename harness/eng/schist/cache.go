package schist

import (
	"bytes"
	"fmt"
	"reflect"
	"sort"

	"0chain.net/chaincore/transaction"
	"github.com/0chain/common/core/statecache"
	"github.com/0chain/common/core/util"

	"0chain.net/chaincore/chain"

	"verifh/world"
)

// C07: (1) the hook's shadow read at every cache hit (obs.Shadow) — value served from the transaction/block/global cache must
// equal the value stored in the trie at that key, a hit for an absent key is a violation, and a value must not change between
// two reads of one txn without an insert (alias mutation); (2) after every txn, every key it touched is read back through a fresh
// state context WITH the block cache and through one WITHOUT any cache on the same MPT: bytes must agree (catches residue of
// failed txns and stale committed entries).
func monC07(h *Hist, o *TxnObs) {
	r := h.Runs["C07"]
	if r == nil {
		return
	}
	for _, m := range h.Obs.TakeMismatches() {
		h.V("C07", "cache-"+m.Kind+":"+m.Type, m.String(), o)
	}
	// second oracle
	h.rereadTouched(o, "C07", func(sig, detail string) { h.V("C07", sig, detail, o) })
	// the probes themselves produced hook events: drop them
	h.Obs.ResetTxn()
	h.Obs.TakeMismatches()
}

// rereadTouched re-reads every key the transaction touched through a fresh state context WITH the block cache (as the
// next transaction would) and straight from the trie, and reports disagreements. For a failed call this is the
// "no trace left" check: whatever it wrote must be invisible to later reads.
func (h *Hist) rereadTouched(o *TxnObs, prop string, report func(sig, detail string)) {
	r := h.Runs[prop]
	if r == nil {
		return
	}
	seen := map[string]bool{}
	for _, op := range o.Ops {
		if seen[op.Key] {
			continue
		}
		seen[op.Key] = true
		ki := h.Obs.ByKeyLookup(op.Key)
		if ki == nil || ki.Type == nil || ki.Type.Kind() != reflect.Ptr {
			continue
		}
		mk := func() util.MPTSerializable { return reflect.New(ki.Type.Elem()).Interface().(util.MPTSerializable) }
		probe := &transaction.Transaction{}
		probe.Hash = o.Txn.Hash
		cached := chain.CreateTxnMPT(h.BC.State, statecache.NewTransactionCache(h.BC.Cache))
		sc1 := h.W.Chain.NewStateContext(h.BC.B, cached, probe, nil)
		v1 := mk()
		e1 := sc1.GetTrieNode(op.Key, v1)
		raw, e2 := h.BC.State.GetNodeValueRaw(util.Path(ki.Path))
		r.Count("reread_checks", 1)
		if prop == "C07" {
			r.Eval(1)
		}
		switch {
		case e1 != nil && e2 != nil:
		case e1 == nil && e2 != nil:
			report("cache-serves-absent-key:"+ki.Type.String(), fmt.Sprintf("key %q readable through the cache but absent in the trie after %s (%s)", op.Key, o.Call.Name, o.Outcome))
		case e1 != nil && e2 == nil:
			report("cache-hides-present-key:"+ki.Type.String(), fmt.Sprintf("key %q present in the trie but unreadable through the cache (%v) after %s (%s)", op.Key, e1, o.Call.Name, o.Outcome))
		default:
			b1, err := v1.MarshalMsg(nil)
			v2 := mk()
			_, err2 := v2.UnmarshalMsg(raw)
			if err == nil && err2 == nil {
				b2, _ := v2.MarshalMsg(nil)
				if !bytes.Equal(b1, b2) {
					report("cache-differs-after-txn:"+ki.Type.String(), fmt.Sprintf("key %q: cached read %x != trie %x after %s (%s)", op.Key, trunc(string(b1), 200), trunc(string(b2), 200), o.Call.Name, o.Outcome))
				}
			}
		}
		if prop == "C07" {
			r.Distinct(ki.Type.String() + "|" + o.Outcome)
		}
	}
	h.Obs.ResetTxn()
	h.Obs.TakeMismatches()
}

// forkScenarioC07 is a directed fork schedule: a cacheable value K is created in block X, left alone in A, changed in B (child of A),
// read by a sibling C (child of A), then read again by D (child of B). Every read is judged by the shadow-read oracle.
func forkScenarioC07(h *Hist, mons []Monitor) {
	find := func(name string) *OpDef {
		for _, op := range catalogue() {
			if op.Name == name {
				o := op
				return &o
			}
		}
		return nil
	}
	add, stake := find("zcn.add-authorizer"), find("zcn.mint")
	if add == nil || stake == nil {
		return
	}
	r := h.R.Fork("c07-fork")
	save := h.Vars["hostile"]
	h.Vars["hostile"] = 0.0
	defer func() { h.Vars["hostile"] = save }()
	submitUntil := func(op *OpDef, ms []Monitor, keepAfter bool) bool {
		for i := 0; i < 30; i++ {
			c := op.Build(h, r)
			if c == nil {
				continue
			}
			if !keepAfter {
				c.After = nil
			}
			if o := h.Submit(c, ms); o.Outcome == "success" {
				return true
			}
		}
		return false
	}
	// X: authorizers, and a first mint creating the minted-nonce partitions (cacheable value K)
	for i := 0; i < 3; i++ {
		if !submitUntil(add, mons, true) {
			return
		}
	}
	if !submitUntil(stake, mons, true) {
		return
	}
	h.EndBlock()
	// A: unrelated
	h.Submit(&Call{Name: "data", Spec: dataSpec(h)}, mons)
	h.EndBlock()
	// B: change K
	if !submitUntil(stake, mons, true) {
		return
	}
	h.EndBlock()
	// C: sibling of B reads (and changes) K from A's point of view
	var stateless []Monitor
	for _, m := range mons {
		switch m.Prop {
		case "C01", "C05", "C07":
			stateless = append(stateless, m)
		}
	}
	saveHead, saveCur, saveRef, saveRound := h.Head, h.Cur, h.RefNonce, h.Round
	parent := h.Head.PrevBlock
	cur, err := snapTake(parent)
	if err != nil {
		return
	}
	h.Head, h.Cur, h.Round = parent, cur, parent.Round
	h.RefNonce = refNonces(h, cur)
	submitUntil(stake, stateless, false)
	h.EndBlock()
	h.Head, h.Cur, h.RefNonce, h.Round = saveHead, saveCur, saveRef, saveRound
	// D: child of B reads K again
	submitUntil(stake, mons, true)
	h.EndBlock()
	if r := h.Runs["C07"]; r != nil {
		r.Count("directed_fork_scenarios", 1)
	}
}

// partsScenarioC07 drives the real partitions library hard on one small list: fills it over several packed partitions, then
// alternates transactions that update or remove items of packed partitions and fail afterwards (or do not save) with plain
// reads; every cache hit of the following transactions is compared with the trie by the observer's shadow reads, and the outputs
// of read-only calls are compared with a reference map of the committed content.
func partsScenarioC07(h *Hist, mons []Monitor) {
	r := h.R.Fork("c07-parts")
	list := r.Intn(len(world.ProbePartSizes))
	size := world.ProbePartSizes[list]
	ref := map[string]string{} // committed content
	from := h.W.Clients[0]
	submit := func(in world.ProbePartsInput, mut string) *TxnObs {
		in.List = list
		c := &Call{Name: "probe.parts", Mut: mut, Spec: world.TxnSpec{From: from, To: world.ProbeAddress, Fee: Coin(1 + r.Intn(50)), Type: transaction.TxnTypeSmartContract, Func: "parts", Input: in}}
		return h.Submit(c, mons)
	}
	ids := func() []string {
		var out []string
		for k := range ref {
			out = append(out, k)
		}
		sort.Strings(out)
		return out
	}
	n := 3*size + 1 + r.Intn(size)
	for i := 0; i < n; i++ {
		id, d := fmt.Sprintf("s%02d", i), fmt.Sprintf("v0-%d", i)
		if o := submit(world.ProbePartsInput{Steps: []world.ProbePartStep{{Op: "add", ID: id, Data: d}}}, "scenario-fill"); o.Outcome == "success" {
			ref[id] = d
		}
	}
	for round := 0; round < 14; round++ {
		cur := ids()
		if len(cur) == 0 {
			break
		}
		var steps []world.ProbePartStep
		for k := 0; k < 1+r.Intn(3); k++ {
			id := cur[r.Intn(len(cur))]
			if r.Chance(0.6) {
				steps = append(steps, world.ProbePartStep{Op: "update", ID: id, Data: fmt.Sprintf("dirty-%d-%d", round, k)})
			} else {
				steps = append(steps, world.ProbePartStep{Op: "remove", ID: id})
			}
		}
		// (a successful call that does not Save is a misuse of the library - removals write their location index at once - and
		// is not part of the scenario)
		mode := []int{0, 1, 1, 3}[r.Intn(4)]
		in := world.ProbePartsInput{Steps: steps, ThenFail: mode == 0 || mode == 1, SkipSave: mode == 1}
		mut := []string{"scenario-fail-after-save", "scenario-fail-no-save", "", "scenario-commit"}[mode]
		o := submit(in, mut)
		if mode == 3 && o.Outcome == "success" {
			// committed: replay on the reference (a removal moves items between partitions, the content set is what matters)
			for _, st := range steps {
				if _, ok := ref[st.ID]; !ok {
					continue
				}
				if st.Op == "update" {
					ref[st.ID] = st.Data
				} else {
					delete(ref, st.ID)
				}
			}
		}
		// read everything back through the cache in a fresh transaction and compare with the committed content
		var gets []world.ProbePartStep
		for _, id := range ids() {
			gets = append(gets, world.ProbePartStep{Op: "get", ID: id})
		}
		gets = append(gets, world.ProbePartStep{Op: "size"})
		ro := submit(world.ProbePartsInput{Steps: gets, SkipSave: true}, "scenario-read-back")
		if ro.Outcome != "success" {
			continue
		}
		want := "probe parts "
		for _, id := range ids() {
			want += id + "=" + ref[id] + ";"
		}
		want += fmt.Sprintf("n=%d;", len(ref))
		h.C("C07", "partition_read_backs")
		if rr := h.Runs["C07"]; rr != nil {
			rr.Eval(1)
			rr.Distinct("parts-read-back|" + mut)
		}
		if got := ro.Txn.TransactionOutput; got != want {
			h.V("C07", "partition-content-after-"+mut, fmt.Sprintf("list of partition size %d: a read-only transaction after a %s transaction saw %q, committed content is %q", size, mut, trunc(got, 300), trunc(want, 300)), ro)
		}
	}
}
