package schist

import (
	"bytes"
	"context"
	"encoding/json"
	"flag"
	"fmt"
	"os"
	"runtime/debug"
	"time"

	"0chain.net/chaincore/block"
	"github.com/0chain/common/core/util"
	"github.com/vmihailenco/msgpack/v5"

	"verifh/mon"
	"verifh/obs"
	"verifh/snap"
	"verifh/world"
)

// C28 — synced state changes reproduce the computed state.
//
// For every block of generated histories: NewBlockStateChange(b) -> wire round trip (JSON and msgpack) -> ComputeProperties ->
// ApplyBlockStateChange on a fresh copy of the block header whose previous block holds the previous state. Oracle: accepted =>
// the resulting trie has the declared root AND its full leaf map equals the executed block's leaf map; every single-fault tamper
// that changes root / block hash / node count must be rejected, and a rejected change set leaves the target block without state.

func targetBlock(w *world.World, b *block.Block) *block.Block {
	nb := block.NewBlock(w.Chain.GetKey(), b.Round)
	nb.Hash = b.Hash
	nb.MinerID = b.MinerID
	nb.CreationDate = b.CreationDate
	nb.ClientStateHash = append([]byte{}, b.ClientStateHash...)
	nb.StateChangesCount = b.StateChangesCount
	nb.SetPreviousBlock(b.PrevBlock)
	return nb
}

func wireRoundTrip(bsc *block.StateChange, useMsgpack bool) (*block.StateChange, error) {
	out := block.StateChangeProvider().(*block.StateChange)
	if useMsgpack {
		b, err := msgpack.Marshal(bsc)
		if err != nil {
			return nil, err
		}
		if err := msgpack.Unmarshal(b, out); err != nil {
			return nil, err
		}
		return out, nil
	}
	b, err := json.Marshal(bsc)
	if err != nil {
		return nil, err
	}
	if err := json.Unmarshal(b, out); err != nil {
		return nil, err
	}
	return out, nil
}

type syncCase struct {
	name       string
	mustReject bool
	apply      func(sc *block.StateChange, tb *block.Block) bool // false = case not applicable
}

func syncCases(r *mon.Rand, foreign []util.Node) []syncCase {
	var cs []syncCase
	cs = append(cs, syncCase{"untampered", false, func(sc *block.StateChange, tb *block.Block) bool { return true }})
	cs = append(cs, syncCase{"reordered-nodes", false, func(sc *block.StateChange, tb *block.Block) bool {
		if len(sc.Nodes) < 2 {
			return false
		}
		r.Shuffle(len(sc.Nodes), func(i, j int) { sc.Nodes[i], sc.Nodes[j] = sc.Nodes[j], sc.Nodes[i] })
		return true
	}})
	cs = append(cs, syncCase{"wrong-root-field", true, func(sc *block.StateChange, tb *block.Block) bool {
		h := append([]byte{}, sc.Hash...)
		h[r.Intn(len(h))] ^= 1 << uint(r.Intn(8))
		sc.Hash = h
		return true
	}})
	cs = append(cs, syncCase{"wrong-block-field", true, func(sc *block.StateChange, tb *block.Block) bool {
		sc.Block = sc.Block[:len(sc.Block)-1] + map[bool]string{true: "0", false: "1"}[sc.Block[len(sc.Block)-1] != '0']
		return true
	}})
	cs = append(cs, syncCase{"empty-node-list", true, func(sc *block.StateChange, tb *block.Block) bool { sc.Nodes = nil; return true }})
	cs = append(cs, syncCase{"block-declares-other-root", true, func(sc *block.StateChange, tb *block.Block) bool {
		tb.ClientStateHash[0] ^= 0x80
		return true
	}})
	cs = append(cs, syncCase{"block-declares-count-plus-one", true, func(sc *block.StateChange, tb *block.Block) bool { tb.StateChangesCount++; return true }})
	cs = append(cs, syncCase{"block-declares-count-minus-one", true, func(sc *block.StateChange, tb *block.Block) bool { tb.StateChangesCount--; return true }})
	for k := 0; k < 4; k++ {
		cs = append(cs, syncCase{"drop-node", true, func(sc *block.StateChange, tb *block.Block) bool {
			if len(sc.Nodes) == 0 {
				return false
			}
			i := r.Intn(len(sc.Nodes))
			sc.Nodes = append(append([]util.Node{}, sc.Nodes[:i]...), sc.Nodes[i+1:]...)
			return true
		}})
		cs = append(cs, syncCase{"duplicate-node", true, func(sc *block.StateChange, tb *block.Block) bool {
			if len(sc.Nodes) == 0 {
				return false
			}
			sc.Nodes = append(sc.Nodes, sc.Nodes[r.Intn(len(sc.Nodes))])
			return true
		}})
		cs = append(cs, syncCase{"drop-node-pad-with-repeat", true, func(sc *block.StateChange, tb *block.Block) bool {
			// one changed node dropped, another one listed twice: the LIST is as long as the declared count, the number of
			// nodes it delivers is one short
			if len(sc.Nodes) < 2 {
				return false
			}
			i := r.Intn(len(sc.Nodes))
			nodes := append(append([]util.Node{}, sc.Nodes[:i]...), sc.Nodes[i+1:]...)
			sc.Nodes = append(nodes, nodes[r.Intn(len(nodes))])
			return true
		}})
		cs = append(cs, syncCase{"altered-node", true, func(sc *block.StateChange, tb *block.Block) bool {
			if len(sc.Nodes) == 0 {
				return false
			}
			i := r.Intn(len(sc.Nodes))
			enc := append([]byte{}, sc.Nodes[i].Encode()...)
			if len(enc) < 2 {
				return false
			}
			enc[1+r.Intn(len(enc)-1)] ^= 1 << uint(r.Intn(8))
			n, err := safeCreateNode(enc)
			if err != nil {
				return false // undecodable on the wire: rejected (or the decoder panics, see obs counter) before it reaches the state code
			}
			if bytes.Equal(n.GetHashBytes(), sc.Nodes[i].GetHashBytes()) {
				return false
			}
			sc.Nodes = append([]util.Node{}, sc.Nodes...)
			sc.Nodes[i] = n
			return true
		}})
		cs = append(cs, syncCase{"extra-foreign-node", true, func(sc *block.StateChange, tb *block.Block) bool {
			if len(foreign) == 0 {
				return false
			}
			f := foreign[r.Intn(len(foreign))]
			for _, n := range sc.Nodes {
				if bytes.Equal(n.GetHashBytes(), f.GetHashBytes()) {
					return false
				}
			}
			sc.Nodes = append(append([]util.Node{}, sc.Nodes...), f)
			return true
		}})
		cs = append(cs, syncCase{"replace-node-by-foreign", false, func(sc *block.StateChange, tb *block.Block) bool {
			if len(foreign) == 0 || len(sc.Nodes) == 0 {
				return false
			}
			f := foreign[r.Intn(len(foreign))]
			for _, n := range sc.Nodes {
				if bytes.Equal(n.GetHashBytes(), f.GetHashBytes()) {
					return false
				}
			}
			sc.Nodes = append([]util.Node{}, sc.Nodes...)
			sc.Nodes[r.Intn(len(sc.Nodes))] = f
			return true
		}})
	}
	return cs
}

// SyncMain is the entry point of the sync engine.
func SyncMain(args []string) int {
	fs := flag.NewFlagSet("sync", flag.ExitOnError)
	prop := fs.String("prop", "C28", "property id")
	tier := fs.String("tier", "quick", "quick|thorough")
	child := fs.Int("child", -1, "child index (internal)")
	hists := fs.Int("hists", 0, "")
	hlen := fs.Int("len", 0, "")
	children := fs.Int("children", 0, "")
	_ = fs.Parse(args)
	if *child >= 0 {
		return syncChild(*prop, *tier, *child, *hists, *hlen)
	}
	defer mon.CleanScratch()
	run := mon.NewRun(*prop, *tier, "fault_enumeration", "for every block of generated histories the published change set goes through the JSON/msgpack wire format and ApplyBlockStateChange; single-fault tampers (drop / duplicate / alter / foreign node, wrong root, wrong block, declared count +-1, empty, other declared root; x4 random positions each) are applied one at a time; distinct = (tamper class, verdict, change-set size bucket)")
	nc, nh, nl := 6, 3, 50
	if *tier == "thorough" {
		nc, nh, nl = 24, 8, 200
	}
	if *children > 0 {
		nc = *children
	}
	if *hists > 0 {
		nh = *hists
	}
	if *hlen > 0 {
		nl = *hlen
	}
	var specs []mon.ChildSpec
	for i := 0; i < nc; i++ {
		to := 6 * time.Minute
		if *tier == "thorough" {
			to = 30 * time.Minute
		}
		specs = append(specs, mon.ChildSpec{Name: fmt.Sprintf("c%d", i), Timeout: to, Args: []string{"sync", "-prop", *prop, "-tier", *tier, "-child", fmt.Sprint(i), "-hists", fmt.Sprint(nh), "-len", fmt.Sprint(nl)}})
	}
	for _, cr := range mon.RunChildren(run, specs, 14) {
		if cr.Crashed && !cr.TimedOut {
			p := mon.KeepLog(cr, fmt.Sprintf("%s-crash-%s-seed%d.log", *prop, cr.Spec.Name, run.SeedV))
			if bytes.Contains([]byte(cr.LogTail), []byte("ApplyBlockStateChange")) || bytes.Contains([]byte(cr.LogTail), []byte("MergeDB")) || bytes.Contains([]byte(cr.LogTail), []byte("ComputeRoot")) {
				run.Violate("crash-in-state-change-path", firstPanicLine(cr.LogTail), map[string]string{"log": p})
			} else {
				run.Inconclusive(fmt.Sprintf("child %s crashed (log %s): %s", cr.Spec.Name, p, firstPanicLine(cr.LogTail)))
			}
		}
	}
	run.RequireMin("applied_untampered", 20)
	run.Assume("dead-node lists travel with the change set and are not validated by ApplyBlockStateChange; the statement does not name them, tampering them is recorded as an observation only")
	return run.Finish()
}

func syncChild(prop, tier string, idx, nh, nl int) int {
	seed := mon.Seed()
	run := mon.NewRun(prop, tier, "fault_enumeration", "")
	defer func() {
		if e := recover(); e != nil {
			fmt.Printf("HARNESS-PANIC %v\n%s\n", e, debug.Stack())
			run.Checkpoint()
			os.Exit(3)
		}
	}()
	o := obs.Install()
	w := world.New(world.Options{Seed: seed*1000 + uint64(idx)})
	defer w.Close()
	ops := catalogue()
	wts := weights(ops, "C01")
	var foreign []util.Node
	for j := 0; j < nh; j++ {
		r := mon.NewRand(seed).Fork(fmt.Sprintf("sync-child%d-hist%d", idx, j))
		h := NewHist(fmt.Sprintf("s%d-c%d-h%d", seed, idx, j), w, o, r, map[string]*mon.Run{}, prop)
		h.Vars["hostile"] = 0.15
		setupHistory(h, nil)
		h.EndBlock()
		judged := ""
		judge := func() {
			b := h.Head
			if b.Hash == judged || b.ClientState == nil || b.StateChangesCount == 0 {
				return
			}
			judged = b.Hash
			orig, err := block.NewBlockStateChange(b)
			if err != nil {
				run.Count("blocks_without_changes", 1)
				return
			}
			want, _ := snap.Take(b.ClientState)
			for ci, c := range syncCases(r, foreign) {
				wire, err := wireRoundTrip(orig, ci%2 == 1)
				if err != nil {
					run.Violate("wire-round-trip-failed", err.Error(), nil)
					return
				}
				tb := targetBlock(w, b)
				if !c.apply(wire, tb) {
					continue
				}
				fmt.Printf("CASE %s block=%s round=%d nodes=%d\n", c.name, b.Hash[:8], b.Round, len(orig.Nodes))
				err = wire.ComputeProperties()
				stage := "decode"
				if err == nil {
					stage = "apply"
					err = tb.ApplyBlockStateChange(wire, w.Chain)
				}
				run.Eval(1)
				verdict := "rejected@" + stage
				if err == nil {
					verdict = "accepted"
				}
				run.Distinct(fmt.Sprintf("%s|%s|n%d", c.name, verdict, bucket(len(orig.Nodes))))
				run.Count("case_"+c.name+"_"+verdict, 1)
				if err == nil && c.mustReject {
					run.Violate("tampered-change-set-accepted:"+c.name, fmt.Sprintf("case %s (changes root/block/count) was accepted", c.name), map[string]interface{}{"history": h.ID, "round": b.Round, "nodes": len(orig.Nodes)})
					continue
				}
				if err == nil {
					// accepted: must be exactly the executed state
					if tb.ClientState == nil || !bytes.Equal(tb.ClientState.GetRoot(), b.ClientStateHash) {
						run.Violate("accepted-change-set-wrong-root:"+c.name, fmt.Sprintf("case %s accepted but resulting root differs from the executed block's", c.name), map[string]interface{}{"history": h.ID, "round": b.Round})
						continue
					}
					got, serr := snap.Take(tb.ClientState)
					honest := !c.mustReject && (c.name == "untampered" || c.name == "reordered-nodes")
					if serr != nil {
						// A tampered set that keeps root, block hash and count (one new node swapped for an already known reachable
						// node) is accepted with a node missing locally: the statement only promises rejection on root/hash/count
						// mismatch, the declared root is right, so this is recorded as an observation, not a violation.
						if honest {
							run.Violate("accepted-change-set-incomplete-state:"+c.name, fmt.Sprintf("case %s accepted but the resulting state cannot be read completely: %v", c.name, serr), map[string]interface{}{"history": h.ID, "round": b.Round})
						} else {
							run.Count("obs_tampered_set_accepted_with_missing_node_"+c.name, 1)
						}
						continue
					}
					if d := snap.Diff(want, got); !d.Empty() {
						run.Violate("accepted-change-set-differs-from-execution:"+c.name, fmt.Sprintf("case %s: synced state differs from executed state in %d leaves", c.name, len(d.All())), map[string]interface{}{"history": h.ID, "round": b.Round})
					}
					if c.name == "untampered" {
						run.Count("applied_untampered", 1)
						// same deletes as execution (observation)
						if len(tb.ClientState.GetDeletes()) != len(b.ClientState.GetDeletes()) {
							run.Count("untampered_sync_dead_node_count_differs_from_execution", 1)
						}
					}
				} else {
					if tb.ClientState != nil || tb.IsStateComputed() {
						run.Violate("rejected-change-set-left-state:"+c.name, fmt.Sprintf("case %s rejected (%v) but the target block carries state", c.name, err), map[string]interface{}{"history": h.ID, "round": b.Round})
					}
					if !c.mustReject && c.name != "replace-node-by-foreign" {
						run.Violate("valid-change-set-rejected:"+c.name, fmt.Sprintf("case %s rejected: %v", c.name, err), map[string]interface{}{"history": h.ID, "round": b.Round})
					}
				}
			}
			// dead-node tamper (observation only)
			if wire, err := wireRoundTrip(orig, false); err == nil && len(wire.Nodes) > 0 {
				wire.DeadNodes = append(wire.DeadNodes, wire.Nodes[0]) // declare a LIVE node dead
				tb := targetBlock(w, b)
				if wire.ComputeProperties() == nil && tb.ApplyBlockStateChange(wire, w.Chain) == nil {
					run.Count("obs_live_node_declared_dead_accepted", 1)
				} else {
					run.Count("obs_live_node_declared_dead_rejected", 1)
				}
			}
			if len(foreign) < 64 {
				foreign = append(foreign, orig.Nodes...)
			}
			_ = context.Background()
		}
		for k := 0; k < nl; k++ {
			c := ops[r.Pick(wts)].Build(h, r)
			if c == nil {
				continue
			}
			ob := h.Submit(c, nil)
			if ob.Outcome != "rejected" {
				h.S.Accepted = append(h.S.Accepted, ob.Txn)
			}
			if h.TxInBlk >= 1+r.Intn(5) {
				h.EndBlock()
				judge()
				h.advanceTime(r)
			}
		}
		h.EndBlock()
		judge()
		run.Count("histories", 1)
		run.Count("obs_node_decoder_panics_on_malformed_encoding", int64(decodePanics))
		decodePanics = 0
		if j == 0 && idx == 0 {
			run.Sample(map[string]interface{}{"history": h.ID, "blocks": h.Round, "example_case": "drop-node on a change set, must be rejected and leave the target block without state"})
		}
		run.Checkpoint()
	}
	return 0
}

func bucket(n int) int {
	switch {
	case n <= 8:
		return 8
	case n <= 16:
		return 16
	case n <= 32:
		return 32
	}
	return 64
}

var decodePanics int

// safeCreateNode decodes a node encoding; util.CreateNode (github.com/0chain/common, outside the repository) panics on some
// malformed encodings — counted as an observation.
func safeCreateNode(enc []byte) (n util.Node, err error) {
	defer func() {
		if e := recover(); e != nil {
			decodePanics++
			err = fmt.Errorf("decoder panic: %v", e)
		}
	}()
	return util.CreateNode(bytes.NewBuffer(enc))
}
