package schist

import (
	"encoding/json"
	"fmt"
	"sort"
	"strings"
	"time"

	"verifh/mon"
	"verifh/world"
)

// Composite scenario: an allocation with committed data gets several challenges on one live blobber, one of them is
// failed (failing tickets / superseded by a younger passed one / expired) while another one is passed or still answerable,
// and THEN the blobber is replaced or the allocation cancelled / finalized: the close path sees a challenge pass rate
// strictly between 0 and 1 with a non-empty challenge pool share. Every step is an ordinary transaction through h.Submit.
// A second family ("open" variants) closes the allocation while one to three challenges of a blobber are unanswered: still inside
// the completion window (they then count in the blobber's favour), past it (they count against it), or both.

// stPassInfo is what the close path will see for one blobber of an allocation (recomputed from the state view).
type stPassInfo struct {
	Blobber  string
	Rate     float64
	Total    int64
	Integral uint64
	Live     bool
	Later    bool // now is later than the blobber's last finalized challenge
}

// stPassRates predicts the pass rates settleOpenChallengesAndGetPassRates / removeBlobberPassRates will compute:
// open challenges that are not expired count as passed, expired ones as failed.
func (h *Hist) stPassRates(allocID string) []stPassInfo {
	v := h.stGetAlloc(allocID)
	if v == nil {
		return nil
	}
	h.stSyncChallenges(h.Cur)
	conf := h.stConf()
	rd := h.stExecRound()
	now := int64(h.W.Now)
	var out []stPassInfo
	for _, ba := range v.BlobberAllocs {
		if ba.Stats == nil {
			continue
		}
		expired := int64(0)
		for _, c := range h.S.St.Chals {
			if !c.Done && c.Alloc == allocID && c.Blobber == ba.BlobberID && c.Round+conf.MaxCCR < rd {
				expired++
			}
		}
		pi := stPassInfo{Blobber: ba.BlobberID, Total: ba.Stats.TotalChallenges, Integral: ba.CPIntegral, Later: now > ba.LatestFinalized, Rate: 1}
		if pi.Total > 0 {
			pi.Rate = float64(ba.Stats.SuccessChallenges+ba.Stats.OpenChallenges-expired) / float64(pi.Total)
		}
		if n := h.stNode(ba.BlobberID); n != nil && !n.IsKilled && !n.IsShutDown {
			pi.Live = true
		}
		out = append(out, pi)
	}
	return out
}

// stPartialProbe returns the log line for a close of allocID (only != "": only that blobber is removed) if some live
// blobber with a non-empty challenge pool share has a pass rate strictly between 0 and 1; "" otherwise.
func (h *Hist) stPartialProbe(allocID, only, kind string, scenario bool) string {
	n := 0
	var first *stPassInfo
	for _, pi := range h.stPassRates(allocID) {
		pi := pi
		if only != "" && pi.Blobber != only {
			continue
		}
		if pi.Live && pi.Integral > 0 && pi.Rate > 0 && pi.Rate < 1 && pi.Later {
			n++
			if first == nil {
				first = &pi
			}
		}
	}
	if first == nil {
		return ""
	}
	return fmt.Sprintf("SCENARIO partial-pass close=%s passrate=%.3f blobbers=%d alloc=%s blobber=%s total=%d integral=%d scenario=%v hist=%s",
		kind, first.Rate, n, allocID[:8], h.name(first.Blobber), first.Total, first.Integral, scenario, h.ID)
}

// stProbeAfter wraps an After callback: the probe line (computed on the pre-state) is printed when the close was applied.
func stProbeAfter(line string, next func(h *Hist, o *TxnObs)) func(h *Hist, o *TxnObs) {
	return func(h *Hist, o *TxnObs) {
		if line != "" && o.Outcome != "rejected" {
			fmt.Println(line + " outcome=" + o.Outcome)
			if run := h.Runs[h.Focus]; run != nil {
				run.Count("storage:partial_pass_close|"+o.Outcome, 1)
				for _, k := range []string{"replace", "cancel", "finalize"} {
					if strings.Contains(line, "close="+k+" ") {
						run.Count("storage:partial_pass_close:"+k+"|"+o.Outcome, 1)
					}
				}
			}
		}
		if next != nil {
			next(h, o)
		}
	}
}

// a plain valid upload marker for one blobber of an allocation
func stCommitOn(h *Hist, r *mon.Rand, a *stAlloc, v *stAllocView, ba *stBAView, size int64) *Call {
	st := h.S.St
	owner := h.W.Wallets[v.Owner]
	bp := st.blobberByID(ba.BlobberID)
	if owner == nil || bp == nil {
		return nil
	}
	ts := int64(h.W.Now)
	if ts > v.Expiration {
		ts = v.Expiration
	}
	used := int64(0)
	if ba.Stats != nil {
		used = ba.Stats.UsedSize
	}
	if size > ba.Size-used {
		size = ba.Size - used
	}
	if size <= 0 {
		return nil
	}
	last := ba.LastWriteMarker
	m := &stWMFields{Root: stHash(fmt.Sprintf("root:%s:%d", a.ID, st.next())), Prev: ba.AllocationRoot, FileMeta: stHash(fmt.Sprintf("fmr-%d", st.next())),
		Alloc: a.ID, Blobber: ba.BlobberID, Client: v.Owner, Ts: ts, Size: size}
	m.V2 = last != nil && last.Version == "v2"
	if m.V2 {
		m.ChainSize = last.ChainSize + size
		m.ChainHash = stChainHash(last.ChainHash, nil, m.Root)
	}
	in := map[string]interface{}{"allocation_root": m.Root, "prev_allocation_root": m.Prev, "write_marker": m.json(owner)}
	c := stCall(h, r, "commit_connection", bp.W, in, 0)
	c.Meta["alloc"], c.Meta["blobber"], c.Meta["kind"], c.Meta["scenario"] = a.ID, ba.BlobberID, "upload", "partial-pass"
	c.Meta["marker"] = map[string]interface{}{"size": m.Size, "timestamp": m.Ts, "signer": owner.ID, "client": m.Client, "alloc": m.Alloc, "blobber": m.Blobber,
		"root": m.Root, "prev": m.Prev, "v2": m.V2, "chain_size": m.ChainSize, "used_before": used, "blobber_alloc_size": ba.Size, "replay": false}
	raw := stFreeze(c)
	c.After = func(h *Hist, o *TxnObs) {
		if o.Outcome != "success" {
			return
		}
		w := a.WM[m.Blobber]
		if w == nil {
			w = &stWM{}
			a.WM[m.Blobber] = w
		}
		w.Root, w.Prev, w.Ts, w.Size, w.V2, w.ChainHash, w.ChainSize, w.LastRaw = m.Root, m.Prev, m.Ts, m.Size, m.V2, m.ChainHash, m.ChainSize, raw
		w.Used += size
		w.Count++
	}
	return c
}

// a valid response to one challenge: pass = every ticket positive, otherwise every ticket negative
func stRespond(h *Hist, r *mon.Rand, ch *stChal, pass bool) *Call {
	st := h.S.St
	bp := st.blobberByID(ch.Blobber)
	if bp == nil {
		return nil
	}
	ts := int64(h.W.Now)
	var tickets []interface{}
	for _, id := range ch.Validators {
		if p := st.validatorByID(id); p != nil {
			tickets = append(tickets, stTicket(ch.ID, ch.Blobber, p.W, pass, ts, p.W))
		}
	}
	if len(tickets) == 0 {
		return nil
	}
	c := stCall(h, r, "challenge_response", bp.W, map[string]interface{}{"challenge_id": ch.ID, "validation_tickets": tickets}, 0)
	kind := "fail-all"
	if pass {
		kind = "pass-all"
	}
	c.Meta["alloc"], c.Meta["blobber"], c.Meta["challenge"], c.Meta["kind"], c.Meta["scenario"] = ch.Alloc, ch.Blobber, ch.ID, kind, "partial-pass"
	c.Meta["validators"] = ch.Validators
	c.After = func(h *Hist, o *TxnObs) {
		if o.Outcome == "success" {
			ch.Done = true
		}
	}
	return c
}

type stChalGroup struct {
	Alloc, Blobber string
	Open           []*stChal
	Stats          stStats
}

// open challenges grouped by (allocation, blobber); only running allocations, live blobbers with a challenge pool share
func (h *Hist) stChalGroups() []*stChalGroup {
	st := h.S.St
	h.stSyncChallenges(h.Cur)
	now := int64(h.W.Now)
	views := map[string]*stAllocView{}
	byKey := map[string]*stChalGroup{}
	var keys []string
	for _, c := range st.Chals {
		if c.Done {
			continue
		}
		v, seen := views[c.Alloc]
		if !seen {
			v = h.stGetAlloc(c.Alloc)
			views[c.Alloc] = v
		}
		if v == nil || v.Expiration <= now+30 || h.W.Wallets[v.Owner] == nil {
			continue
		}
		ba := v.ba(c.Blobber)
		bp := st.blobberByID(c.Blobber)
		if ba == nil || ba.Stats == nil || ba.CPIntegral == 0 || bp == nil || bp.Dead != "" {
			continue
		}
		k := c.Alloc + "|" + c.Blobber
		g := byKey[k]
		if g == nil {
			g = &stChalGroup{Alloc: c.Alloc, Blobber: c.Blobber, Stats: *ba.Stats}
			byKey[k] = g
			keys = append(keys, k)
		}
		g.Open = append(g.Open, c)
	}
	sort.Strings(keys)
	var out []*stChalGroup
	for _, k := range keys {
		g := byKey[k]
		sort.SliceStable(g.Open, func(i, j int) bool {
			if g.Open[i].Round != g.Open[j].Round {
				return g.Open[i].Round < g.Open[j].Round
			}
			return g.Open[i].Created < g.Open[j].Created
		})
		out = append(out, g)
	}
	return out
}

// a group is ready when one more failure (or pass) yields a mixed record
func stGroupReady(g *stChalGroup) bool {
	return len(g.Open) >= 2 || (len(g.Open) == 1 && (g.Stats.SuccessChallenges > 0 || g.Stats.FailedChallenges > 0))
}

func (h *Hist) stNextBlock(r *mon.Rand, maxSec int) {
	h.EndBlock()
	h.W.Advance(time.Duration(1+r.Intn(maxSec)) * time.Second)
}

// empty blocks: only the round number moves
func (h *Hist) stSkipRounds(n int) {
	h.EndBlock()
	if n > 60 {
		n = 60
	}
	for i := 0; i < n; i++ {
		h.openBlock()
		h.sealBlock()
		h.W.Advance(time.Second)
	}
}

func stScenarioPartialPass(h *Hist, r *mon.Rand) *Call {
	st := h.S.St
	if st.Scenarios >= 6 || st.NoHostile {
		return stChallengeResponse(h, r)
	}
	st.NoHostile = true
	defer func() { st.NoHostile = false }()
	conf := h.stConf()

	// (1) an allocation whose live blobbers carry data
	pickTarget := func() (*stAlloc, *stAllocView) {
		_, running, views := h.stExpiredSplit()
		var best *stAlloc
		bestScore := -1
		for _, a := range running {
			v := views[a.ID]
			if h.W.Wallets[v.Owner] == nil || v.Expiration < int64(h.W.Now)+3600 {
				continue
			}
			live := 0
			for _, ba := range v.BlobberAllocs {
				if bp := st.blobberByID(ba.BlobberID); bp != nil && bp.Dead == "" {
					live++
				}
			}
			if live < 2 {
				continue
			}
			score := live
			if v.Stats != nil && v.Stats.UsedSize > 0 {
				score += 3
			}
			if v.Stats != nil {
				score += int(v.Stats.OpenChallenges)
			}
			if score > bestScore || (score == bestScore && r.Chance(0.5)) {
				best, bestScore = a, score
			}
		}
		if best == nil {
			return nil, nil
		}
		return best, views[best.ID]
	}
	a, v := pickTarget()
	if a == nil {
		if c := stNewAlloc(h, r); c != nil {
			h.stInner(c)
		}
		if a, v = pickTarget(); a == nil {
			return nil
		}
	}
	st.Scenarios++
	committed := 0
	for _, ba := range v.BlobberAllocs {
		bp := st.blobberByID(ba.BlobberID)
		if bp == nil || bp.Dead != "" || committed >= 3 {
			continue
		}
		if ba.Stats != nil && ba.Stats.UsedSize > 0 && ba.CPIntegral > 0 && r.Chance(0.6) {
			committed++
			continue
		}
		size := []int64{64 * stKB, 256 * stKB, stMB, ba.Size / 4}[r.Intn(4)]
		if c := stCommitOn(h, r, a, v, ba, size); c != nil {
			if o := h.stInner(c); o.Outcome == "success" {
				committed++
			}
		}
	}
	h.stNextBlock(r, 30)

	// (2) challenges until one (allocation, blobber) has a mixed record within reach; the "open" family only needs one
	// unanswered challenge and prefers a blobber that has not failed any
	wantOpen := r.Chance(0.45)
	var g *stChalGroup
	pickGroup := func() *stChalGroup {
		var best *stChalGroup
		if wantOpen {
			score := func(x *stChalGroup) int {
				sc := len(x.Open)
				if x.Alloc == a.ID {
					sc += 10
				}
				if x.Stats.FailedChallenges == 0 {
					sc += 5
				}
				return sc
			}
			for _, x := range h.stChalGroups() {
				if len(x.Open) >= 1 && (best == nil || score(x) > score(best)) {
					best = x
				}
			}
			return best
		}
		for _, x := range h.stChalGroups() {
			if !stGroupReady(x) {
				continue
			}
			if best == nil || (x.Alloc == a.ID && best.Alloc != a.ID) || (len(x.Open) > len(best.Open) && (best.Alloc != a.ID || x.Alloc == a.ID)) {
				best = x
			}
		}
		return best
	}
	for i := 0; i < 14; i++ {
		if g = pickGroup(); g != nil {
			break
		}
		h.stInner(stGenChallenge(h, r))
		h.stNextBlock(r, 20)
	}
	if g == nil {
		return nil
	}
	target := a
	if g.Alloc != a.ID {
		for _, b := range st.Allocs {
			if b.ID == g.Alloc {
				target = b
			}
		}
	}

	// (3) mixed record: one challenge fails, another one passes or stays answerable
	canPass := h.stExecRound() >= conf.trigger() // passing needs the blobber in the ongoing reward partition (round >= trigger period)
	oldest, newest := g.Open[0], g.Open[len(g.Open)-1]
	variant := ""
	respond := func(ch *stChal, pass bool) {
		if c := stRespond(h, r, ch, pass); c != nil {
			h.stInner(c)
		}
	}
	moreChallenges := func(n int) {
		for i := 0; i < n; i++ {
			h.stInner(stGenChallenge(h, r))
			h.stNextBlock(r, 10)
		}
	}
	if wantOpen && h.Focus == "C14" && conf.MaxCCR > 40 && r.Chance(0.35) {
		// the owner shortens the completion window through the contract's own settings path, so that unanswered challenges
		// run out of it within this history
		f := map[string]string{"max_challenge_completion_rounds": []string{"8", "20", "3"}[r.Intn(3)]}
		if o := h.stInner(stCall(h, r, "update_settings", h.W.Owner, map[string]interface{}{"fields": f}, 0)); o.Outcome == "success" {
			for k, v := range f {
				st.Pending[k] = v
			}
			h.stInner(stCall(h, r, "commit_settings_changes", h.W.Miners[int(h.stExecRound())%len(h.W.Miners)], map[string]interface{}{}, 0))
		}
		h.stNextBlock(r, 10)
		conf = h.stConf()
	}
	switch {
	case wantOpen && len(g.Open) >= 2 && canPass && r.Chance(0.3):
		variant = "open:pass-oldest-leave-rest-open"
		respond(oldest, true)
	case wantOpen && conf.MaxCCR <= 40 && r.Chance(0.5):
		// everything open now runs out of its completion window, younger challenges (wherever they land) stay inside theirs
		variant = "open:expired-and-younger-open"
		h.stSkipRounds(int(conf.MaxCCR + 2 - (h.stExecRound() - newest.Round)))
		moreChallenges(r.Intn(3))
	case wantOpen:
		// one to three unanswered challenges, all inside the completion window
		variant = "open:leave-all-open"
		if want := 1 + r.Intn(3); want > len(g.Open) {
			moreChallenges(want - len(g.Open))
		}
	case len(g.Open) >= 2 && canPass && r.Chance(0.4):
		variant = "fail-oldest-pass-next"
		if c := stRespond(h, r, oldest, false); c != nil {
			h.stInner(c)
		}
		h.stNextBlock(r, 10)
		if c := stRespond(h, r, g.Open[1], true); c != nil {
			h.stInner(c)
		}
	case len(g.Open) >= 2 && canPass && newest.Round > oldest.Round && r.Chance(0.45):
		variant = "pass-newest-supersedes-older"
		if c := stRespond(h, r, newest, true); c != nil {
			h.stInner(c)
		}
	case len(g.Open) >= 2 && conf.MaxCCR <= 40 && r.Chance(0.6):
		variant = "let-oldest-expire"
		h.stSkipRounds(int(conf.MaxCCR + 2 - (h.stExecRound() - oldest.Round)))
		if canPass {
			if c := stRespond(h, r, newest, true); c != nil {
				h.stInner(c)
			}
		}
	case len(g.Open) >= 2:
		variant = "fail-oldest-leave-open"
		if c := stRespond(h, r, oldest, false); c != nil {
			h.stInner(c)
		}
	case g.Stats.SuccessChallenges > 0:
		variant = "fail-after-earlier-pass"
		if c := stRespond(h, r, oldest, false); c != nil {
			h.stInner(c)
		}
	case canPass && r.Chance(0.6):
		variant = "pass-after-earlier-fail"
		if c := stRespond(h, r, oldest, true); c != nil {
			h.stInner(c)
		}
	default:
		variant = "leave-open-after-earlier-fail"
	}
	h.stNextBlock(r, 300)

	// (4) replace the blobber / cancel / finalize after expiry
	tv := h.stGetAlloc(target.ID)
	owner := (*world.Wallet)(nil)
	if tv != nil {
		owner = h.W.Wallets[tv.Owner]
	}
	if tv == nil || owner == nil {
		return nil
	}
	kinds := []string{"replace", "cancel", "finalize"}
	kind := kinds[r.Intn(3)]
	if wantOpen {
		kind = kinds[1+r.Intn(2)] // the open family is about closing
	}
	if kind == "finalize" && st.ScenJumps >= 2 {
		kind = kinds[r.Intn(2)]
		if wantOpen {
			kind = "cancel"
		}
	}
	var c *Call
	var np *stProv
	if kind == "replace" {
		bs := stBSize(tv.Size, tv.DataShards)
		for _, p := range h.stUsableFirst(r, st.live(st.Blobbers), bs) {
			if tv.ba(p.W.ID) == nil && h.stUsable(p, bs) {
				np = p
				break
			}
		}
		if np == nil {
			kind = "cancel"
		}
	}
	switch kind {
	case "replace":
		var members []*stProv
		for _, b := range tv.BlobberAllocs {
			if p := st.blobberByID(b.BlobberID); p != nil {
				members = append(members, p)
			}
		}
		bs := stBSize(tv.Size, tv.DataShards)
		in := map[string]interface{}{"id": target.ID, "add_blobber_id": np.W.ID, "remove_blobber_id": g.Blobber,
			"add_blobber_auth_ticket": h.stAuthTickets([]*stProv{np}, tv.Owner)[0]}
		c = stCall(h, r, "update_allocation_request", owner, in, h.stCost(members, bs)+h.stCost([]*stProv{np}, bs)+1e9)
		c.Meta["alloc"], c.Meta["kind"], c.Meta["blobber"], c.Meta["removed_blobber"] = target.ID, "replace-blobber", np.W.ID, g.Blobber
		c.After = stProbeAfter(h.stPartialProbe(target.ID, g.Blobber, "replace", true), nil)
	case "cancel":
		c = stCall(h, r, "cancel_allocation", owner, map[string]string{"allocation_id": target.ID}, 0)
		c.Meta["alloc"], c.Meta["closes"] = target.ID, "cancel"
		c.After = stProbeAfter(h.stPartialProbe(target.ID, "", "cancel", true), stCloseAfter(target, "cancel"))
	case "finalize":
		st.ScenJumps++
		st.SinceJump = 0
		h.EndBlock()
		d := tv.Expiration - int64(h.W.Now) + int64(1+r.Intn(3600))
		h.W.Advance(time.Duration(d) * time.Second)
		fmt.Printf("OP %s {\"op\":\"storage.time-jump\",\"seconds\":%d,\"alloc\":%q,\"scenario\":true}\n", h.ID, d, target.ID)
		from := owner
		if bp := st.blobberByID(g.Blobber); bp != nil && r.Chance(0.3) {
			from = bp.W
		}
		c = stCall(h, r, "finalize_allocation", from, map[string]string{"allocation_id": target.ID}, 0)
		c.Meta["alloc"], c.Meta["closes"] = target.ID, "finalize"
		c.After = stProbeAfter(h.stPartialProbe(target.ID, "", "finalize", true), stCloseAfter(target, "finalize"))
	}
	c.Meta["scenario"], c.Meta["variant"] = "partial-pass", variant
	c.Meta["partial_pass"] = h.stPartialProbe(target.ID, map[string]string{"replace": g.Blobber}[kind], kind, true) != ""
	o := h.stInner(c)
	fmt.Printf("SCENARIO-STEP %s variant=%s close=%s outcome=%s group_open=%d\n", h.ID, variant, kind, o.Outcome, len(g.Open))
	if run := h.Runs[h.Focus]; run != nil {
		run.Count("storage:scenario_close:"+variant+"|"+kind+"|"+o.Outcome, 1)
	}
	h.EndBlock()
	return nil
}

func stScenarioOps() []OpDef {
	sc := OpDef{Name: "storage.scenario.partial-pass-then-close", Tags: []string{"storage", "challenge", "close", "alloc", "C12", "C13", "C14", "C23"}, Build: stScenarioPartialPass}
	return []OpDef{sc, sc}
}

// ---- second directed scenario: the blobbers of an allocation with data change their write price, then the allocation is updated ----
//
// An allocation over 2-4 blobbers gets data on some or all of them (funded challenge pool); after no time / seconds / hours / days
// all, some or none of its blobbers lower or raise their write price (0.1x ... 3x, update_blobber_settings sent by the delegate
// wallet); then the allocation is extended (owner or third party), grown, "shrunk", or one of its blobbers is replaced (with or
// without an extension in the same request); finally it is cancelled, finalized after expiry, or left to the random operations.
// An extension re-values every data-holding blobber at its new price over the new duration: tokens move write pool -> challenge
// pool, challenge pool -> write pool, both ways in one request, or not at all. Every step is an ordinary transaction through
// h.Submit; the monitors (C09 ledger, C12 pool equality) judge each of them.

func init() {
	for _, p := range []string{"C09", "C12", "C04"} {
		RegisterScenario(Scenario{Prop: p, Name: "price-change-then-update-allocation", Every: 1, Fn: pxScenario})
	}
}

func pxScenario(h *Hist, mons []Monitor) {
	st := h.S.St
	if st.mons == nil {
		st.mons = mons
	}
	r := h.R.Fork("px-price-change-then-update-allocation")
	st.NoHostile = true
	defer func() { st.NoHostile = false }()
	rounds := 2 + r.Intn(2)
	for i := 0; i < rounds; i++ {
		pxRound(h, r, i == rounds-1)
		h.stNextBlock(r, 30)
	}
}

func pxCount(h *Hist, k string) {
	if run := h.Runs[h.Focus]; run != nil {
		run.Count("px:"+k, 1)
	}
}

// the delegate wallet the contract currently records for a blobber
func pxDelegate(h *Hist, p *stProv) *world.Wallet {
	if sp := h.stSP("blobber", p.W.ID); sp != nil {
		if w := h.W.Wallets[sp.Settings.DelegateWallet]; w != nil {
			return w
		}
	}
	return p.Del
}

// update_blobber_settings carrying a new write price only (same shape as the "write-price" kind of stUpdateBlobber)
func pxSetWritePrice(h *Hist, r *mon.Rand, p *stProv, wp uint64) *TxnObs {
	in := map[string]interface{}{"id": p.W.ID, "terms": map[string]interface{}{"write_price": wp}}
	c := stCall(h, r, "update_blobber_settings", pxDelegate(h, p), in, 0)
	stProvMeta(c, p)
	c.Meta["kind"], c.Meta["scenario"] = "write-price", "price-change-then-update"
	return h.stInner(c)
}

func pxNewAlloc(h *Hist, r *mon.Rand) *stAlloc {
	st := h.S.St
	conf := h.stConf()
	size := []int64{64 * stMB, 256 * stMB, stGB, 3 * stGB}[r.Intn(4)]
	var usable []*stProv
	for _, p := range stShuffled(r, st.live(st.Blobbers)) {
		if h.stUsable(p, size) { // the largest per-blobber size any shard layout below can ask for
			usable = append(usable, p)
		}
	}
	n := 2 + r.Intn(3)
	if n > len(usable) {
		n = len(usable)
	}
	if n < 2 {
		pxCount(h, "no-usable-blobbers")
		return nil
	}
	d, par := n-1, 1
	if n >= 3 && r.Chance(0.4) {
		d, par = n-2, 2
	}
	chosen := usable[:n]
	owner := h.stClient(r)
	in := map[string]interface{}{
		"data_shards": d, "parity_shards": par, "size": size,
		"read_price_range":       map[string]uint64{"min": 0, "max": conf.MaxReadPrice},
		"write_price_range":      map[string]uint64{"min": 0, "max": conf.MaxWritePrice},
		"third_party_extendable": r.Chance(0.5),
		"blobbers":               stIDs(chosen), "blobber_auth_tickets": h.stAuthTickets(chosen, owner.ID),
	}
	val := h.stCost(chosen, stBSize(size, d))*uint64(2+r.Intn(3)) + 1e9
	c := stCall(h, r, "new_allocation_request", owner, in, val)
	c.Meta["blobbers"], c.Meta["owner"], c.Meta["size"], c.Meta["scenario"] = stIDs(chosen), owner.ID, size, "price-change-then-update"
	var a *stAlloc
	c.After = func(h *Hist, o *TxnObs) {
		if o.Outcome != "success" {
			return
		}
		var out struct {
			ID string `json:"id"`
		}
		id := o.Txn.Hash
		if json.Unmarshal([]byte(o.Txn.TransactionOutput), &out) == nil && out.ID != "" {
			id = out.ID
		}
		o.Call.Meta["alloc"] = id
		a = h.stRegisterAlloc(id, owner, false)
	}
	h.stInner(c)
	return a
}

// pxDirection tells which way the blobbers' outstanding challenge values moved between two views of an allocation
func pxDirection(pre, post *stAllocView) string {
	up, down := false, false
	for _, b := range post.BlobberAllocs {
		if p := pre.ba(b.BlobberID); p != nil {
			up = up || b.CPIntegral > p.CPIntegral
			down = down || b.CPIntegral < p.CPIntegral
		}
	}
	switch {
	case up && down:
		return "both-ways"
	case up:
		return "to-challenge-pool"
	case down:
		return "back-to-write-pool"
	}
	return "unchanged"
}

func pxRound(h *Hist, r *mon.Rand, last bool) {
	st := h.S.St
	a := pxNewAlloc(h, r)
	if a == nil {
		return
	}
	switch r.Intn(3) {
	case 0: // data arrives in the block of the allocation
	default:
		h.stNextBlock(r, 30)
	}
	v := h.stGetAlloc(a.ID)
	if v == nil || h.W.Wallets[v.Owner] == nil {
		return
	}

	// (1) data on all or some of the blobbers
	n := len(v.BlobberAllocs)
	holders := n
	if r.Chance(0.5) {
		holders = 1 + r.Intn(n)
	}
	for i, ba := range v.BlobberAllocs {
		if i >= holders {
			break
		}
		size := []int64{256 * stKB, stMB, 16 * stMB, ba.Size / 4, ba.Size / 2}[r.Intn(5)]
		if c := stCommitOn(h, r, a, v, ba, size); c != nil {
			c.Meta["scenario"] = "price-change-then-update"
			h.stInner(c)
		}
	}
	steps := 1
	if r.Chance(0.35) {
		steps = 2
	}
	for step := 0; step < steps; step++ {
		// (2) time passes: nothing, seconds, minutes, hours, days (the time unit is 30 days unless the settings were changed)
		wait := []string{"none", "seconds", "seconds", "minutes", "hours", "days"}[r.Intn(6)]
		switch wait {
		case "seconds":
			h.stNextBlock(r, 10)
		case "minutes":
			h.EndBlock()
			h.W.Advance(time.Duration(1+r.Intn(120)) * time.Minute)
		case "hours":
			h.EndBlock()
			h.W.Advance(time.Duration(1+r.Intn(48)) * time.Hour)
		case "days":
			h.EndBlock()
			h.W.Advance(time.Duration(1+r.Intn(12)) * 24 * time.Hour)
		}
		if v = h.stGetAlloc(a.ID); v == nil || v.Expiration <= int64(h.W.Now)+60 {
			return
		}

		// (3) write prices move
		conf := h.stConf()
		family := []string{"all-lower", "all-lower", "holders-lower", "some-lower", "none", "all-raise", "some-raise", "mixed", "holders-lower-others-raise", "holders-raise-others-lower"}[r.Intn(10)]
		lower, raise := []float64{0.1, 0.2, 0.25, 0.5, 0.75, 0.9}, []float64{1.1, 1.5, 2, 3}
		changed := 0
		for _, ba := range v.BlobberAllocs {
			p := st.blobberByID(ba.BlobberID)
			if p == nil || p.Dead != "" {
				continue
			}
			holder := ba.Stats != nil && ba.Stats.UsedSize > 0
			f := 1.0
			lo, hi := lower[r.Intn(len(lower))], raise[r.Intn(len(raise))]
			switch family {
			case "all-lower":
				f = lo
			case "holders-lower":
				if holder {
					f = lo
				}
			case "some-lower":
				if r.Chance(0.5) {
					f = lo
				}
			case "all-raise":
				f = hi
			case "some-raise":
				if r.Chance(0.5) {
					f = hi
				}
			case "mixed":
				f = []float64{lo, hi, 1}[r.Intn(3)]
			case "holders-lower-others-raise":
				if f = hi; holder {
					f = lo
				}
			case "holders-raise-others-lower":
				if f = lo; holder {
					f = hi
				}
			}
			old := h.stTermsOf(p).WritePrice
			wp := uint64(float64(old) * f)
			if wp < conf.MinWritePrice {
				wp = conf.MinWritePrice
			}
			if wp > conf.MaxWritePrice {
				wp = conf.MaxWritePrice
			}
			if wp == old {
				continue
			}
			if o := pxSetWritePrice(h, r, p, wp); o.Outcome == "success" {
				changed++
				dir := "lowered"
				if wp > old {
					dir = "raised"
				}
				pxCount(h, fmt.Sprintf("price-%s|holder=%v", dir, holder))
			}
		}
		if r.Chance(0.7) {
			h.stNextBlock(r, 10)
		}

		// (4) the allocation is updated
		if v = h.stGetAlloc(a.ID); v == nil {
			return
		}
		owner := h.W.Wallets[v.Owner]
		if owner == nil {
			return
		}
		inAlloc := map[string]bool{}
		var members []*stProv
		for _, b := range v.BlobberAllocs {
			inAlloc[b.BlobberID] = true
			if p := st.blobberByID(b.BlobberID); p != nil {
				members = append(members, p)
			}
		}
		bs := stBSize(v.Size, v.DataShards)
		kind := []string{"extend", "extend", "extend", "third-party-extend", "third-party-extend", "grow", "extend-and-grow", "shrink", "replace", "replace-holder", "replace-and-extend"}[r.Intn(11)]
		in := map[string]interface{}{"id": a.ID}
		from := owner
		val := h.stCost(members, bs)*2 + 1e9
		var np *stProv
		if kind == "replace" || kind == "replace-holder" || kind == "replace-and-extend" {
			for _, p := range h.stUsableFirst(r, st.live(st.Blobbers), bs) {
				if !inAlloc[p.W.ID] && h.stUsable(p, bs) {
					np = p
					break
				}
			}
			if np == nil {
				kind = "extend"
			}
		}
		switch kind {
		case "extend":
			in["extend"] = true
		case "third-party-extend":
			if !v.ThirdPartyExtendable && r.Chance(0.8) {
				c := stCall(h, r, "update_allocation_request", owner, map[string]interface{}{"id": a.ID, "set_third_party_extendable": true}, 0)
				c.Meta["alloc"], c.Meta["kind"], c.Meta["scenario"] = a.ID, "third-party-flag", "price-change-then-update"
				h.stInner(c)
			}
			for _, cl := range h.W.Clients {
				if cl.ID != v.Owner {
					from = cl
					if r.Chance(0.4) {
						break
					}
				}
			}
			in["extend"] = true
			if r.Chance(0.6) {
				// the request names the allocation's owner (or another funded wallet) as owner_id; the tokens it locks are the sender's
				named := v.Owner
				if r.Chance(0.3) {
					named = h.W.Clients[r.Intn(len(h.W.Clients))].ID
				}
				if w := h.W.Wallets[named]; w != nil {
					in["owner_id"], in["owner_public_key"] = w.ID, w.PubKey
				}
			}
		case "grow", "extend-and-grow":
			inc := []int64{1, stMB, v.Size / 2, v.Size}[r.Intn(4)]
			in["size"] = inc
			if kind == "extend-and-grow" {
				in["extend"] = true
			}
			val = h.stCost(members, stBSize(v.Size+inc, v.DataShards))*2 + 1e9
		case "shrink":
			in["size"] = -[]int64{1, stMB, v.Size / 2}[r.Intn(3)] // the contract does not reduce allocations
			if r.Chance(0.5) {
				in["extend"] = true
			}
		case "replace", "replace-holder", "replace-and-extend":
			rm := v.BlobberAllocs[r.Intn(len(v.BlobberAllocs))]
			for _, b := range v.BlobberAllocs {
				if kind == "replace-holder" && b.Stats != nil && b.Stats.UsedSize > 0 {
					rm = b
				}
			}
			in["add_blobber_id"], in["remove_blobber_id"] = np.W.ID, rm.BlobberID
			in["add_blobber_auth_ticket"] = h.stAuthTickets([]*stProv{np}, v.Owner)[0]
			if kind == "replace-and-extend" {
				in["extend"] = true
			}
			val += h.stCost([]*stProv{np}, bs) * 2
		}
		if r.Chance(0.3) {
			val = 0 // what is locked already has to do
		}
		c := stCall(h, r, "update_allocation_request", from, in, val)
		c.Meta["alloc"], c.Meta["kind"], c.Meta["scenario"], c.Meta["variant"] = a.ID, kind, "price-change-then-update", family
		if np != nil {
			c.Meta["blobber"], c.Meta["removed_blobber"] = np.W.ID, in["remove_blobber_id"]
		}
		o := h.stInner(c)
		dir := "n/a"
		if post := h.stGetAlloc(a.ID); post != nil && o.Outcome == "success" {
			dir = pxDirection(v, post)
		}
		key := fmt.Sprintf("update:%s|%s|%s|challenge-values=%s", family, kind, o.Outcome, dir)
		pxCount(h, key)
		pxCount(h, "challenge-values:"+dir)
		if run := h.Runs[h.Focus]; run != nil {
			run.Distinct("px|" + key + "|wait=" + wait)
		}
		fmt.Printf("SCENARIO-STEP %s price-change-then-update family=%s changed=%d wait=%s update=%s outcome=%s challenge-values=%s\n", h.ID, family, changed, wait, kind, o.Outcome, dir)
		h.stNextBlock(r, 30)
	}

	// (5) close
	v = h.stGetAlloc(a.ID)
	if v == nil {
		return
	}
	owner := h.W.Wallets[v.Owner]
	if owner == nil {
		return
	}
	closing := []string{"cancel", "cancel", "cancel", "finalize", "leave-open"}[r.Intn(5)]
	if closing == "finalize" && (!last || st.ScenJumps >= 2) {
		closing = "cancel"
	}
	var c *Call
	switch closing {
	case "cancel":
		c = stCall(h, r, "cancel_allocation", owner, map[string]string{"allocation_id": a.ID}, 0)
	case "finalize":
		st.ScenJumps++
		st.SinceJump = 0
		h.EndBlock()
		d := v.Expiration - int64(h.W.Now) + int64(1+r.Intn(3600))
		h.W.Advance(time.Duration(d) * time.Second)
		fmt.Printf("OP %s {\"op\":\"storage.time-jump\",\"seconds\":%d,\"alloc\":%q,\"scenario\":true}\n", h.ID, d, a.ID)
		c = stCall(h, r, "finalize_allocation", owner, map[string]string{"allocation_id": a.ID}, 0)
	default:
		pxCount(h, "close:leave-open")
		return
	}
	c.Meta["alloc"], c.Meta["closes"], c.Meta["scenario"] = a.ID, closing, "price-change-then-update"
	c.After = stCloseAfter(a, closing)
	o := h.stInner(c)
	pxCount(h, "close:"+closing+"|"+o.Outcome)
}
