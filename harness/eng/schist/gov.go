package schist

import (
	"encoding/json"
	"fmt"
	"sort"
	"strings"
	"time"

	"0chain.net/chaincore/transaction"
	"0chain.net/smartcontract/faucetsc"
	"0chain.net/smartcontract/minersc"
	"0chain.net/smartcontract/storagesc"
	"0chain.net/smartcontract/vestingsc"
	"0chain.net/smartcontract/zcnsc"

	"verifh/mon"
	"verifh/snap"
	"verifh/world"
)

// one governance-settings key: how to build valid/invalid values and where the parsed value is stored
type govKey struct {
	Key     string
	Field   string // Go field path in the settings node
	Kind    string // "zcn" (ZCN float -> coin), "dur", "int", "float", "coin"
	Valid   []string
	Invalid []string
}

type govContract struct {
	Name, Addr, Func, NodeType string
	Keys                       []govKey
}

var govContracts = []govContract{
	{"faucet", faucetsc.ADDRESS, "update-settings", "*faucetsc.GlobalNode", []govKey{
		{"pour_amount", "FaucetConfig.PourAmount", "zcn", []string{"1", "2", "0.5"}, []string{"x", "-1", ""}},
		{"max_pour_amount", "FaucetConfig.MaxPourAmount", "zcn", []string{"100", "50", "3"}, []string{"abc", "-5"}},
		{"periodic_limit", "FaucetConfig.PeriodicLimit", "zcn", []string{"1000", "200", "10"}, []string{"1e400x", "-1"}},
		{"global_limit", "FaucetConfig.GlobalLimit", "zcn", []string{"100000", "5000"}, []string{"??", "-2"}},
		{"individual_reset", "FaucetConfig.IndividualReset", "dur", []string{"3h", "1h", "10m"}, []string{"3 hours", "-"}},
		{"global_rest", "FaucetConfig.GlobalReset", "dur", []string{"48h", "24h"}, []string{"two days"}},
	}},
	{"vesting", vestingsc.ADDRESS, "vestingsc-update-settings", "*vestingsc.config", []govKey{
		{"min_lock", "MinLock", "zcn", []string{"0.01", "1", "0.5"}, []string{"x1", "-3"}},
		{"min_duration", "MinDuration", "dur", []string{"2m", "1m", "30s"}, []string{"soon", "0s"}},
		{"max_duration", "MaxDuration", "dur", []string{"2h", "10h"}, []string{"later", "1s"}},
		{"max_destinations", "MaxDestinations", "int", []string{"3", "5", "2"}, []string{"many", "0", "-1"}},
		{"max_description_length", "MaxDescriptionLength", "int", []string{"20", "64"}, []string{"long", "0"}},
	}},
	{"zcn", zcnsc.ADDRESS, "update-global-config", "*zcnsc.GlobalNode", []govKey{
		{"min_mint", "ZCNSConfig.MinMintAmount", "zcn", []string{"1", "0.5", "2"}, []string{"m", "-1"}},
		{"min_burn", "ZCNSConfig.MinBurnAmount", "zcn", []string{"1", "0.25", "3"}, []string{"b", "-1"}},
		{"percent_authorizers", "ZCNSConfig.PercentAuthorizers", "float", []string{"0.7", "0.5", "1"}, []string{"seventy"}},
		{"min_authorizers", "ZCNSConfig.MinAuthorizers", "int", []string{"1", "2"}, []string{"one", "1.5"}},
		{"max_fee", "ZCNSConfig.MaxFee", "coin", []string{"100", "40"}, []string{"free"}},
		{"max_delegates", "ZCNSConfig.MaxDelegates", "int", []string{"10", "5"}, []string{"ten"}},
		// the shipped min_stake is 0, which GlobalNode.Validate refuses: no update passes until a valid value is set once
		{"min_stake", "ZCNSConfig.MinStakeAmount", "zcn", []string{"1", "2", "0.5"}, []string{"stake", "-1"}},
	}},
}

func expectParsed(k govKey, v string) (uint64, float64, bool) {
	switch k.Kind {
	case "zcn":
		var f float64
		if _, err := fmt.Sscanf(v, "%g", &f); err != nil {
			return 0, 0, false
		}
		return uint64(f*1e10 + 0.5), 0, true
	case "coin", "int":
		var n int64
		if _, err := fmt.Sscanf(v, "%d", &n); err != nil {
			return 0, 0, false
		}
		return uint64(n), 0, true
	case "dur":
		d, err := time.ParseDuration(v)
		if err != nil {
			return 0, 0, false
		}
		return uint64(d), 0, true
	case "float":
		var f float64
		if _, err := fmt.Sscanf(v, "%g", &f); err != nil {
			return 0, 0, false
		}
		return 0, f, true
	}
	return 0, 0, false
}

func govOps() []OpDef {
	var ops []OpDef
	for i := range govContracts {
		gc := govContracts[i]
		ops = append(ops, OpDef{Name: gc.Name + ".update-settings", Tags: []string{"gov", gc.Name, "C48"}, Build: func(h *Hist, r *mon.Rand) *Call {
			n := 1 + r.Intn(4)
			fields := map[string]string{}
			valid := true
			hostile := h.hostile()
			perm := make([]int, len(gc.Keys))
			for i := range perm {
				perm[i] = i
			}
			r.Shuffle(len(perm), func(i, j int) { perm[i], perm[j] = perm[j], perm[i] })
			for j := 0; j < n && j < len(perm); j++ {
				k := gc.Keys[perm[j]]
				if r.Chance(0.25 + hostile*0.5) {
					fields[k.Key] = k.Invalid[r.Intn(len(k.Invalid))]
					valid = false
				} else {
					fields[k.Key] = k.Valid[r.Intn(len(k.Valid))]
				}
			}
			if r.Chance(0.15 + hostile*0.3) {
				fields[[]string{"no_such_key", "cost.nope", "Pour_Amount"}[r.Intn(3)]] = "1"
				valid = false
			}
			from := h.W.Owner
			mut := ""
			if r.Chance(0.2 + hostile*0.3) {
				from = h.anyWallet(r)
				if from != h.W.Owner {
					mut = "not-owner"
				}
			}
			if !valid && mut == "" {
				mut = "invalid-fields"
			}
			return &Call{Name: gc.Name + ".update-settings", Mut: mut, Meta: map[string]interface{}{"gov": gc.Name, "settings": fields, "all_valid_syntax": valid},
				Spec: world.TxnSpec{From: from, To: gc.Addr, Fee: Coin(h.fee(r) % 1000), Type: transaction.TxnTypeSmartContract, Func: gc.Func, Input: map[string]interface{}{"fields": fields}}}
		}})
	}
	return ops
}

// settings-changing functions of every contract (for the owner-only rule)
var settingsFns = map[string]map[string]bool{
	faucetsc.ADDRESS:  {"update-settings": true},
	vestingsc.ADDRESS: {"vestingsc-update-settings": true},
	zcnsc.ADDRESS:     {"update-global-config": true, "update-authorizer-config": false},
	minersc.ADDRESS:   {"update_settings": true, "update_globals": true, "add_hardfork": true},
	// commit_settings_changes only applies what the owner staged with update_settings; anybody (in practice a miner) may send it
	storagesc.ADDRESS: {"update_settings": true},
}

// settings node types per contract: a rejected/failed/unauthorised change must leave them byte-identical
var settingsNodeTypes = []string{"*faucetsc.GlobalNode", "*vestingsc.config", "*zcnsc.GlobalNode", "*minersc.GlobalNode", "*minersc.GlobalSettings", "*storagesc.Config"}

func monC48(h *Hist, o *TxnObs) {
	if o.Txn.SmartContractData == nil {
		return
	}
	fns := settingsFns[o.Txn.ToClientID]
	if fns == nil || !fns[o.Txn.FunctionName] {
		return
	}
	h.C("C48", "settings_calls_judged")
	r := h.Runs["C48"]
	// the owner is the one the contract's settings record in the state BEFORE the transaction (an owner can hand over through
	// the owner_id setting); the configured owner where the state holds none yet
	owner := h.scOwner(o.Pre, o.Txn.ToClientID)
	isOwner := o.Txn.ClientID == owner
	if r != nil {
		r.Eval(1)
		var keys []string
		if m, ok := o.Call.Meta["settings"].(map[string]string); ok {
			for k := range m {
				keys = append(keys, k)
			}
			sort.Strings(keys)
		}
		r.Distinct(fmt.Sprintf("%s|%s|owner=%v|%s|%s", h.name(o.Txn.ToClientID), o.Txn.FunctionName, isOwner, o.Outcome, strings.Join(keys, ",")))
	}
	if o.Outcome == "success" && !isOwner {
		h.V("C48", "settings-changed-by-non-owner:"+h.name(o.Txn.ToClientID)+":"+o.Txn.FunctionName, fmt.Sprintf("%s.%s succeeded for caller %s who is not the owner", h.name(o.Txn.ToClientID), o.Txn.FunctionName, h.name(o.Txn.ClientID)), o)
	}
	// rejected / failed => all settings nodes byte-identical (whole node, not partially applied)
	if o.Outcome != "success" {
		for _, p := range o.Delta.All() {
			if ki := h.Obs.Lookup(p); ki != nil && ki.Type != nil {
				for _, t := range settingsNodeTypes {
					if ki.Type.String() == t {
						h.V("C48", "rejected-change-altered-settings:"+t, fmt.Sprintf("%s (%s) altered settings node %s", o.Call.Name, o.Outcome, t), o)
					}
				}
			}
		}
		// "A rejected change leaves all settings as they were" also for whoever reads them next: the keys the call touched
		// are read back the way the next transaction reads them (through the block cache) and without any cache
		if h.Focus == "C48" && o.Outcome == "failed" {
			h.rereadTouched(o, "C48", func(sig, detail string) {
				h.V("C48", "rejected-change-visible-to-later-reads:"+sig, detail, o)
			})
		}
		return
	}
	// success => every submitted key reads back as the parsed value (contracts with a field table)
	name, _ := o.Call.Meta["gov"].(string)
	fields, _ := o.Call.Meta["settings"].(map[string]string)
	for _, gc := range govContracts {
		if gc.Name != name {
			continue
		}
		nodes := h.NodesOfType(o.Post, gc.NodeType)
		if len(nodes) != 1 {
			continue
		}
		for _, k := range gc.Keys {
			v, ok := fields[k.Key]
			if !ok {
				continue
			}
			wantU, wantF, parsed := expectParsed(k, v)
			h.C("C48", "readbacks_checked")
			if !parsed {
				h.V("C48", "unparsable-value-accepted:"+gc.Name+":"+k.Key, fmt.Sprintf("%s: value %q for %s was accepted", gc.Name, v, k.Key), o)
				continue
			}
			if k.Kind == "float" {
				if f := F(nodes[0].Val, k.Field); !f.IsValid() || f.Float() != wantF {
					h.V("C48", "setting-readback-mismatch:"+gc.Name+":"+k.Key, fmt.Sprintf("%s: %s set to %q but state holds %v", gc.Name, k.Key, v, f), o)
				}
			} else if got := U(nodes[0].Val, k.Field); got != wantU {
				h.V("C48", "setting-readback-mismatch:"+gc.Name+":"+k.Key, fmt.Sprintf("%s: %s set to %q (=%d) but state holds %d", gc.Name, k.Key, v, wantU, got), o)
			}
		}
		// keys not mentioned must be untouched
		pre := h.NodesOfType(o.Pre, gc.NodeType)
		if len(pre) == 1 {
			for _, k := range gc.Keys {
				if _, ok := fields[k.Key]; ok {
					continue
				}
				if k.Kind == "float" {
					continue
				}
				if U(pre[0].Val, k.Field) != U(nodes[0].Val, k.Field) {
					h.V("C48", "unmentioned-setting-changed:"+gc.Name+":"+k.Key, fmt.Sprintf("%s: %s changed %d -> %d without being in the request", gc.Name, k.Key, U(pre[0].Val, k.Field), U(nodes[0].Val, k.Field)), o)
				}
			}
		}
	}
}

func settingsJSON(v interface{}) string { b, _ := json.Marshal(v); return string(b) }

// scOwner reads the owner id a contract's settings node records in a snapshot (fallback: the configured owner).
func (h *Hist) scOwner(s snap.Snapshot, addr string) string {
	typ, field := "", ""
	switch addr {
	case minersc.ADDRESS:
		typ, field = "*minersc.GlobalNode", "OwnerId"
	case storagesc.ADDRESS:
		typ, field = "*storagesc.Config", "OwnerId"
	case faucetsc.ADDRESS:
		typ, field = "*faucetsc.GlobalNode", "FaucetConfig.OwnerId"
	case vestingsc.ADDRESS:
		typ, field = "*vestingsc.config", "OwnerId"
	case zcnsc.ADDRESS:
		typ, field = "*zcnsc.GlobalNode", "ZCNSConfig.OwnerId"
	}
	if typ != "" {
		for _, n := range h.NodesOfType(s, typ) {
			if id := Str(n.Val, field); id != "" {
				return id
			}
		}
	}
	return h.W.Owner.ID
}
