package schist

import (
	"fmt"

	"verifh/mon"
	"verifh/obs"
	"verifh/world"
)

// RunWorkload drives `hists` generated histories of `length` transactions each through the real Chain.UpdateState on
// world w, exactly as childMain does for C01 (same catalogue, same weights, same set-up transactions), but without any
// monitor. It exists for engines that only consume the observation streams of the hook (e.g. the C08 value stream).
// label makes the PRNG stream distinct per child process. Returns the number of transactions submitted per outcome.
func RunWorkload(w *world.World, o *obs.Observer, seed uint64, label string, hists, length int) map[string]int {
	ops := catalogue()
	wts := weights(ops, "C01")
	out := map[string]int{}
	for j := 0; j < hists; j++ {
		runOneWorkloadHistory(w, o, seed, label, j, length, ops, wts, out)
	}
	return out
}

// runOneWorkloadHistory runs one history; a panic of the harness-side workload code (op builder, signing) ends that
// history only: the consumers of the observation streams keep what was observed and the next history starts at genesis.
func runOneWorkloadHistory(w *world.World, o *obs.Observer, seed uint64, label string, j, length int, ops []OpDef, wts []int, out map[string]int) {
	defer func() {
		if e := recover(); e != nil {
			fmt.Printf("WORKLOAD-PANIC %s hist%d: %v\n", label, j, e)
			out["harness-panic"]++
		}
	}()
	{
		r := mon.NewRand(seed).Fork(fmt.Sprintf("%s-hist%d", label, j))
		h := NewHist(fmt.Sprintf("s%d-%s-h%d", seed, label, j), w, o, r, map[string]*mon.Run{}, "C01")
		hostile := []float64{0.0, 0.15, 0.3, 0.5}[r.Intn(4)]
		h.Vars["hostile"] = hostile
		setupHistory(h, nil)
		for k := 0; k < length; k++ {
			op := ops[r.Pick(wts)]
			c := op.Build(h, r)
			if c == nil {
				continue
			}
			mutateNonce(h, r, c, hostile*0.2)
			ob := h.Submit(c, nil)
			out[ob.Outcome]++
			if ob.Outcome != "rejected" {
				h.S.Accepted = append(h.S.Accepted, ob.Txn)
				if len(h.S.Accepted) > 64 {
					h.S.Accepted = h.S.Accepted[1:]
				}
			}
			if h.TxInBlk >= 1+r.Intn(5) {
				h.EndBlock()
				h.advanceTime(r)
			}
		}
		h.EndBlock()
		endHistory(h)
	}
}
