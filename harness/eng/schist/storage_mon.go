package schist

import (
	"encoding/json"
	"fmt"
	"strings"

	"0chain.net/smartcontract/storagesc"

	"verifh/snap"
)

// ---- views (decoded from raw leaves by node type) -----------------------------------------------------------------------------

type baView struct {
	BlobberID  string
	Size       int64
	CPIV       uint64
	WritePrice uint64
	ReadPrice  uint64
	UsedSize   int64
}

func (b baView) offer() uint64 { return uint64(float64(b.Size) / (1024 * 1024 * 1024) * float64(b.WritePrice)) }

type allocView struct {
	Key, ID, Owner      string
	Expiration          int64
	WritePool           uint64
	Finalized, Canceled bool
	Blobbers            []baView
}

type blobberView struct {
	ID                  string
	Capacity, Allocated int64
	Killed, ShutDown    bool
}

func (h *Hist) allocations(s snap.Snapshot) map[string]*allocView {
	out := map[string]*allocView{}
	for _, n := range h.NodesOfType(s, "*storagesc.StorageAllocation") {
		a := &allocView{Key: n.Key, ID: Str(n.Val, "ID"), Owner: Str(n.Val, "Owner"), Expiration: I(n.Val, "Expiration"), WritePool: U(n.Val, "WritePool"), Finalized: B(n.Val, "Finalized"), Canceled: B(n.Val, "Canceled")}
		bs := F(n.Val, "BlobberAllocs")
		if bs.IsValid() {
			for i := 0; i < bs.Len(); i++ {
				d := bs.Index(i).Interface()
				a.Blobbers = append(a.Blobbers, baView{BlobberID: Str(d, "BlobberID"), Size: I(d, "Size"), CPIV: U(d, "ChallengePoolIntegralValue"), WritePrice: U(d, "Terms.WritePrice"), ReadPrice: U(d, "Terms.ReadPrice"), UsedSize: I(d, "Stats.UsedSize")})
			}
		}
		out[a.ID] = a
	}
	return out
}

func (h *Hist) challengePools(s snap.Snapshot) map[string]uint64 {
	out := map[string]uint64{}
	for _, n := range h.NodesOfType(s, "*storagesc.challengePool") {
		i := strings.Index(n.Key, ":challengepool:")
		if i < 0 {
			continue
		}
		out[n.Key[i+len(":challengepool:"):]] = U(n.Val, "ZcnPool.TokenPool.Balance")
	}
	return out
}

func (h *Hist) blobbers(s snap.Snapshot) map[string]*blobberView {
	out := map[string]*blobberView{}
	for _, n := range h.NodesOfType(s, "*storagesc.StorageNode") {
		b := &blobberView{ID: Str(n.Val, "Provider.ID"), Capacity: I(n.Val, "Capacity"), Allocated: I(n.Val, "Allocated"), Killed: B(n.Val, "Provider.HasBeenKilled"), ShutDown: B(n.Val, "Provider.HasBeenShutDown")}
		if b.ID == "" {
			continue
		}
		out[b.ID] = b
	}
	return out
}

func storageFn(o *TxnObs) string {
	if o.Txn.ToClientID != storagesc.ADDRESS || o.Txn.SmartContractData == nil {
		return ""
	}
	return o.Txn.FunctionName
}

// ---- C12: challenge pool == sum of the blobbers' outstanding values -----------------------------------------------------------

// c12bad returns the allocations (id -> description) violating the invariant in a snapshot.
func (h *Hist) c12bad(s snap.Snapshot) (map[string]string, int) {
	bad := map[string]string{}
	allocs := h.allocations(s)
	cps := h.challengePools(s)
	for id, a := range allocs {
		var sum uint64
		for _, b := range a.Blobbers {
			sum += b.CPIV
		}
		cp, ok := cps[id]
		if !ok {
			bad["nocp|"+id] = fmt.Sprintf("allocation %s has no challenge pool node", short(id))
		} else if cp != sum {
			bad["neq|"+id] = fmt.Sprintf("allocation %s: challenge pool %d != sum of blobbers' outstanding values %d", short(id), cp, sum)
		}
	}
	for id := range cps {
		if _, ok := allocs[id]; !ok {
			bad["orphan|"+id] = fmt.Sprintf("challenge pool of %s exists without its allocation", short(id))
		}
	}
	return bad, len(allocs)
}

func monC12(h *Hist, o *TxnObs) {
	if o.Outcome == "rejected" {
		return
	}
	post, n := h.c12bad(o.Post)
	if n == 0 && len(post) == 0 {
		return
	}
	r := h.Runs["C12"]
	fn := storageFn(o)
	h.C("C12", "allocation_states_checked")
	if r != nil {
		r.Eval(int64(n))
		if fn != "" {
			r.Distinct(fmt.Sprintf("%s|%s|%s|allocs=%d", fn, o.Call.Mut, o.Outcome, n))
		}
	}
	if len(post) == 0 {
		return
	}
	pre, _ := h.c12bad(o.Pre)
	for k, msg := range post {
		if _, was := pre[k]; was {
			continue // broken by an earlier transaction, reported there
		}
		kind := k[:strings.Index(k, "|")]
		sig := map[string]string{"nocp": "open-allocation-without-challenge-pool", "neq": "challenge-pool-differs-from-integral-values", "orphan": "challenge-pool-without-allocation"}[kind]
		h.V("C12", sig+":"+fn, fmt.Sprintf("%s after %s (%s)", msg, o.Call.Name, o.Outcome), o)
	}
}

// ---- C13: capacity and offers ----------------------------------------------------------------------------------------------------

func (h *Hist) c13bad(s snap.Snapshot) (map[string]string, int) {
	bad := map[string]string{}
	bl := h.blobbers(s)
	if len(bl) == 0 {
		return bad, 0
	}
	sizes := map[string]int64{}
	offers := map[string]uint64{}
	for _, a := range h.allocations(s) {
		for _, b := range a.Blobbers {
			sizes[b.BlobberID] += b.Size
			offers[b.BlobberID] += b.offer()
		}
	}
	for id, b := range bl {
		if b.Allocated != sizes[id] {
			bad["alloc|"+id] = fmt.Sprintf("blobber %s: allocated %d != sum of its sizes in open allocations %d", h.name(id), b.Allocated, sizes[id])
		}
		if sp := h.stakePool(s, "blobber", id); sp != nil && sp.TotalOffers != offers[id] {
			bad["offer|"+id] = fmt.Sprintf("blobber %s: stake pool total offers %d != sum of its allocations' offers %d", h.name(id), sp.TotalOffers, offers[id])
		}
	}
	return bad, len(bl)
}

func monC13(h *Hist, o *TxnObs) {
	if o.Outcome == "rejected" {
		return
	}
	post, n := h.c13bad(o.Post)
	if n == 0 {
		return
	}
	fn := storageFn(o)
	r := h.Runs["C13"]
	h.C("C13", "blobber_states_checked")
	if r != nil {
		r.Eval(int64(n))
		if fn != "" {
			r.Distinct(fmt.Sprintf("%s|%s|%s", fn, o.Call.Mut, o.Outcome))
		}
	}
	if len(post) > 0 {
		pre, _ := h.c13bad(o.Pre)
		for k, msg := range post {
			if _, was := pre[k]; was {
				continue
			}
			sig := "allocated-differs-from-open-allocations"
			if strings.HasPrefix(k, "offer|") {
				sig = "total-offers-differ-from-open-allocations"
			}
			id := k[strings.Index(k, "|")+1:]
			ctx := ""
			if p := h.blobbers(o.Pre)[id]; p != nil {
				ctx += fmt.Sprintf(" [before: allocated %d", p.Allocated)
				if sp := h.stakePool(o.Pre, "blobber", id); sp != nil {
					ctx += fmt.Sprintf(", offers %d", sp.TotalOffers)
				}
				ctx += "]"
			} else {
				ctx += " [blobber node new]"
			}
			for aid, a := range h.allocations(o.Post) {
				for _, b := range a.Blobbers {
					if b.BlobberID == id {
						ctx += fmt.Sprintf(" alloc %s size %d", short(aid), b.Size)
					}
				}
			}
			if b := h.blobbers(o.Post)[id]; b != nil && (b.Killed || b.ShutDown) {
				sig += "/dead-blobber"
			}
			h.V("C13", sig+":"+fn, fmt.Sprintf("%s after %s (%s)%s", msg, o.Call.Name, o.Outcome, ctx), o)
		}
	}
	if (fn == "new_allocation_request" || fn == "update_allocation_request" || fn == "free_allocation_request") && o.Outcome == "success" {
		preB, postB := h.blobbers(o.Pre), h.blobbers(o.Post)
		for id, b := range postB {
			if p := preB[id]; p != nil && b.Allocated > p.Allocated && b.Allocated > b.Capacity {
				h.V("C13", "assigned-beyond-capacity:"+fn, fmt.Sprintf("blobber %s: allocated %d > capacity %d after assignment", h.name(id), b.Allocated, b.Capacity), o)
			}
		}
	}
}

// ---- C14: close once, exact refund -----------------------------------------------------------------------------------------------

func monC14(h *Hist, o *TxnObs) {
	fn := storageFn(o)
	closed, _ := h.Vars["c14closed"].(map[string]string)
	if closed == nil {
		closed = map[string]string{}
		h.Vars["c14closed"] = closed
	}
	r := h.Runs["C14"]
	// later use of a closed allocation
	if fn != "" && o.Outcome == "success" {
		in := string(o.Txn.InputData)
		for id, how := range closed {
			if strings.Contains(in, id) && fn != "new_allocation_request" {
				h.V("C14", "closed-allocation-used:"+fn, fmt.Sprintf("%s succeeded on allocation %s which was closed by %s", fn, short(id), how), o)
			}
		}
	}
	if fn != "finalize_allocation" && fn != "cancel_allocation" {
		return
	}
	var req struct {
		AllocationID string `json:"allocation_id"`
	}
	_ = json.Unmarshal(o.Txn.InputData, &req)
	pre := h.allocations(o.Pre)[req.AllocationID]
	if r != nil {
		r.Eval(1)
		r.Distinct(fmt.Sprintf("%s|%s|%s|known=%v|closedbefore=%v", fn, o.Call.Mut, o.Outcome, pre != nil, closed[req.AllocationID] != ""))
	}
	h.C("C14", "close_attempts_judged")
	if o.Outcome != "success" {
		return
	}
	if pre == nil {
		h.V("C14", "closed-unknown-allocation:"+fn, fmt.Sprintf("%s succeeded for %s which is not an open allocation", fn, short(req.AllocationID)), o)
		return
	}
	if how := closed[req.AllocationID]; how != "" {
		h.V("C14", "closed-twice:"+fn, fmt.Sprintf("allocation %s closed again (before: %s)", short(req.AllocationID), how), o)
	}
	closed[req.AllocationID] = fn
	h.C("C14", "closes_checked")
	sender := o.Txn.ClientID
	now := int64(o.Txn.CreationDate)
	isBlobber := false
	for _, b := range pre.Blobbers {
		if b.BlobberID == sender {
			isBlobber = true
		}
	}
	if fn == "cancel_allocation" {
		if sender != pre.Owner {
			h.V("C14", "cancel-by-non-owner", fmt.Sprintf("cancel by %s, owner %s", h.name(sender), h.name(pre.Owner)), o)
		}
		if pre.Expiration < now {
			h.V("C14", "cancel-after-expiry", fmt.Sprintf("cancelled at %d, expiration %d", now, pre.Expiration), o)
		}
	} else {
		if sender != pre.Owner && !isBlobber {
			h.V("C14", "finalize-by-stranger", fmt.Sprintf("finalize by %s (owner %s)", h.name(sender), h.name(pre.Owner)), o)
		}
		if pre.Expiration > now {
			h.V("C14", "finalize-before-expiry", fmt.Sprintf("finalized at %d, expiration %d", now, pre.Expiration), o)
		}
	}
	// removal
	if _, still := h.allocations(o.Post)[req.AllocationID]; still {
		h.V("C14", "closed-allocation-still-in-state:"+fn, "allocation node still present after a successful close", o)
	}
	if _, still := h.challengePools(o.Post)[req.AllocationID]; still {
		h.V("C14", "challenge-pool-survives-close:"+fn, "challenge pool node still present after a successful close", o)
	}
	// conservation of the closed allocation: owner refund + everything credited to providers == write pool + challenge pool
	preCP := h.challengePools(o.Pre)[req.AllocationID]
	d := h.deltas(o)
	refund := d[pre.Owner]
	if pre.Owner == sender {
		refund += int64(o.Txn.Fee)
	}
	var rewards int64
	for _, sp := range h.stakePools(o.Post) {
		if sp.Contract != storagesc.ADDRESS {
			continue
		}
		q := h.stakePool(o.Pre, sp.ProviderType, sp.ProviderID)
		var a uint64
		if q != nil {
			a = q.Reward
			for _, dp := range q.Pools {
				a += dp.Reward
			}
		}
		b := sp.Reward
		for _, dp := range sp.Pools {
			b += dp.Reward
		}
		rewards += int64(b) - int64(a)
	}
	// other open allocations are untouched by a close, so the storage-wide pools change only by this allocation
	total := int64(pre.WritePool + preCP)
	if refund < 0 {
		h.V("C14", "owner-debited-on-close:"+fn, fmt.Sprintf("owner balance changed by %d on close", refund), o)
	}
	if refund+rewards != total {
		ctx := ""
		dead := false
		bl := h.blobbers(o.Pre)
		for _, b := range pre.Blobbers {
			q, p := h.stakePool(o.Pre, "blobber", b.BlobberID), h.stakePool(o.Post, "blobber", b.BlobberID)
			var stake uint64
			if q != nil {
				for _, dp := range q.Pools {
					stake += dp.Balance
				}
			}
			bv := bl[b.BlobberID]
			isDead := bv == nil || bv.Killed || bv.ShutDown || q == nil || q.Killed || stake == 0 || stake < q.MinStake
			if isDead {
				dead = true
			}
			ctx += fmt.Sprintf(" [%s cpiv=%d dead=%v stake=%d reward%+d]", h.name(b.BlobberID), b.CPIV, isDead, stake, int64(spTotalReward(p))-int64(spTotalReward(q)))
		}
		sig := "close-does-not-conserve-pools"
		if dead {
			sig += "/blobber-not-rewardable" // a killed / unstaked blobber's share is dropped by the reward code (C10) and not refunded either
		}
		h.V("C14", sig+":"+fn, fmt.Sprintf("write pool %d + challenge pool %d = %d, but owner refund %d + provider rewards %+d = %d (missing %d)%s", pre.WritePool, preCP, total, refund, rewards, refund+rewards, total-refund-rewards, ctx), o)
	}
	// "Closing pays blobbers at most their earned challenge rewards plus at most the configured cancellation charge": conservation
	// alone does not see a blobber paid out of the owner's refund. Each blobber's payment (growth of the rewards held for it and its
	// delegates) is bounded by what it can have earned - its outstanding challenge pool value before the close - plus its share
	// (by write price) of the cancellation charge, computed here from the allocation's terms and the configuration of the PRE state.
	charge, frac, okCfg := clConfiguredCharge(h, o.Pre, pre)
	if !okCfg {
		h.C("C14", "closes_without_readable_config")
		return
	}
	open := clOpenChallenges(h, o.Pre, req.AllocationID, o.Block.Round)
	var totalWP, sumPaid, sumCPIV float64
	for _, b := range pre.Blobbers {
		totalWP += float64(b.WritePrice)
	}
	maxU, maxE, clean := 0, 0, false
	for _, b := range pre.Blobbers {
		q, p := h.stakePool(o.Pre, "blobber", b.BlobberID), h.stakePool(o.Post, "blobber", b.BlobberID)
		paid := float64(int64(spTotalReward(p)) - int64(spTotalReward(q)))
		share := 0.0
		if totalWP > 0 {
			share = charge * float64(b.WritePrice) / totalWP
		}
		bound := float64(b.CPIV) + share
		sumPaid += paid
		sumCPIV += float64(b.CPIV)
		oc := open[b.BlobberID]
		if oc.Unexpired > maxU {
			maxU = oc.Unexpired
		}
		if oc.Expired > maxE {
			maxE = oc.Expired
		}
		if oc.Unexpired > 0 && oc.Expired == 0 && clFailedBefore(h, o.Pre, req.AllocationID, b.BlobberID) == 0 {
			clean = true
		}
		h.C("C14", "blobber_close_payments_bounded")
		if paid > bound+2+bound*1e-9 {
			h.V("C14", "close-overpays-blobber:"+fn, fmt.Sprintf("blobber %s received %.0f on close; it can have earned at most its outstanding challenge pool value %d, and its share of the configured cancellation charge is %.0f (charge %.0f = %.4g of the allocation cost, write price %d of %.0f) [open challenges of this blobber: %d inside the completion window, %d expired]",
				h.name(b.BlobberID), paid, b.CPIV, share, charge, frac, b.WritePrice, totalWP, oc.Unexpired, oc.Expired), o)
		}
	}
	if tb := sumCPIV + charge; sumPaid > tb+float64(2*len(pre.Blobbers))+tb*1e-9 {
		h.V("C14", "close-overpays-blobbers-in-total:"+fn, fmt.Sprintf("blobbers received %.0f on close; outstanding challenge pool values %.0f + configured cancellation charge %.0f", sumPaid, sumCPIV, charge), o)
	}
	if maxU > 0 {
		h.C("C14", "closes_with_open_challenges_inside_completion_window")
	}
	if maxE > 0 {
		h.C("C14", "closes_with_expired_open_challenges")
	}
	if clean {
		h.C("C14", "closes_with_only_unanswered_unexpired_challenges_on_a_blobber")
	}
	if r != nil {
		r.Distinct(fmt.Sprintf("close-payments|%s|open-in-window=%d|open-expired=%d|charge>0=%v", fn, clMin(maxU, 3), clMin(maxE, 3), charge > 0))
	}
}

func clMin(a, b int) int {
	if a < b {
		return a
	}
	return b
}

// clConfiguredCharge is the configured cancellation charge of an allocation: cancellation_charge (configuration of the given
// state) times the cost of the allocation (sum over its blobbers of write price * size in GB, from the allocation's own terms).
func clConfiguredCharge(h *Hist, s snap.Snapshot, a *allocView) (charge, frac float64, ok bool) {
	for _, n := range h.NodesOfType(s, "*storagesc.Config") {
		if f := F(n.Val, "CancellationCharge"); f.IsValid() {
			frac, ok = f.Float(), true
		}
	}
	if !ok {
		return 0, 0, false
	}
	var cost float64
	for _, b := range a.Blobbers {
		cost += float64(b.Size) / (1024 * 1024 * 1024) * float64(b.WritePrice)
	}
	return cost * frac, frac, true
}

type clOpenCount struct{ Unexpired, Expired int }

// clOpenChallenges counts, per blobber, the open challenges of an allocation recorded in a state: still inside the completion
// window at the given round (creation round + max_challenge_completion_rounds >= round) or past it.
func clOpenChallenges(h *Hist, s snap.Snapshot, allocID string, round int64) map[string]clOpenCount {
	out := map[string]clOpenCount{}
	var maxCCR int64
	for _, n := range h.NodesOfType(s, "*storagesc.Config") {
		maxCCR = I(n.Val, "MaxChallengeCompletionRounds")
	}
	for _, n := range h.NodesOfType(s, "*storagesc.AllocationChallenges") {
		if Str(n.Val, "AllocationID") != allocID {
			continue
		}
		l := F(n.Val, "OpenChallenges")
		if !l.IsValid() {
			continue
		}
		for i := 0; i < l.Len(); i++ {
			d := l.Index(i).Interface()
			c := out[Str(d, "BlobberID")]
			if I(d, "RoundCreatedAt")+maxCCR < round {
				c.Expired++
			} else {
				c.Unexpired++
			}
			out[Str(d, "BlobberID")] = c
		}
	}
	return out
}

// clFailedBefore reads the failed-challenge counter of one blobber of an allocation (coverage counters only, no verdict uses it).
func clFailedBefore(h *Hist, s snap.Snapshot, allocID, blobberID string) int64 {
	for _, n := range h.NodesOfType(s, "*storagesc.StorageAllocation") {
		if Str(n.Val, "ID") != allocID {
			continue
		}
		bs := F(n.Val, "BlobberAllocs")
		if !bs.IsValid() {
			continue
		}
		for i := 0; i < bs.Len(); i++ {
			d := bs.Index(i).Interface()
			if Str(d, "BlobberID") == blobberID {
				return I(d, "Stats.FailedChallenges")
			}
		}
	}
	return 0
}

// ---- C15: read markers charge once -----------------------------------------------------------------------------------------------

// rmWire is a read marker as the transaction input carries it (decoded by the monitor itself, not taken from the generator).
type rmWire struct {
	ClientID  string `json:"client_id"`
	PublicKey string `json:"client_public_key"`
	BlobberID string `json:"blobber_id"`
	AllocID   string `json:"allocation_id"`
	OwnerID   string `json:"owner_id"`
	Timestamp int64  `json:"timestamp"`
	Counter   int64  `json:"counter"`
	Signature string `json:"signature"`
}

// rmModel is the monitor's own reference: last redeemed counter per (blobber, client, allocation), built from the inputs of the
// read_redeem transactions it saw succeed.
type rmModel struct {
	Last map[string]int64
	Seen map[string]bool
}

func rmModelOf(h *Hist) *rmModel {
	m, _ := h.Vars["rmC15"].(*rmModel)
	if m == nil {
		m = &rmModel{Last: map[string]int64{}, Seen: map[string]bool{}}
		h.Vars["rmC15"] = m
	}
	return m
}

// rmPools returns the balance of every read pool node of a snapshot (contract key -> balance).
func rmPools(h *Hist, s snap.Snapshot) map[string]uint64 {
	out := map[string]uint64{}
	for _, n := range h.NodesOfType(s, "*storagesc.readPool") {
		out[n.Key] = U(n.Val, "Balance")
	}
	return out
}

// rmStoredCounters returns the counter of every stored last-read-marker node.
func rmStoredCounters(h *Hist, s snap.Snapshot) map[string]int64 {
	out := map[string]int64{}
	for _, n := range h.NodesOfType(s, "*storagesc.ReadConnection") {
		out[n.Key] = I(n.Val, "ReadMarker.ReadCounter")
	}
	return out
}

func monC15(h *Hist, o *TxnObs) {
	if storageFn(o) != "read_redeem" {
		return
	}
	var in struct {
		RM *rmWire `json:"read_marker"`
	}
	decoded := json.Unmarshal(o.Txn.InputData, &in) == nil && in.RM != nil
	run := h.Runs["C15"]
	h.C("C15", "read_redeems_judged")
	if run != nil {
		run.Eval(1)
	}
	pre, post := rmPools(h, o.Pre), rmPools(h, o.Post)
	var charged int64
	var changed []string
	for k, b := range post {
		if a := pre[k]; a != b {
			charged += int64(a) - int64(b)
			changed = append(changed, k)
		}
	}
	for k, a := range pre {
		if _, ok := post[k]; !ok {
			charged += int64(a)
			changed = append(changed, k)
		}
	}
	if !decoded {
		h.C("C15", "undecodable_markers_judged")
		if run != nil {
			run.Distinct(fmt.Sprintf("%s|%s|undecodable", o.Call.Mut, o.Outcome))
		}
		if o.Outcome == "success" {
			h.V("C15", "undecodable-marker-redeemed", "read_redeem succeeded although its input carries no read marker", o)
		}
		if len(changed) > 0 {
			h.V("C15", "unredeemed-marker-changed-read-pool", fmt.Sprintf("read_redeem (%s) without a decodable marker changed %d read pools", o.Outcome, len(changed)), o)
		}
		return
	}
	rm := in.RM
	model := rmModelOf(h)
	key := rm.BlobberID + "|" + rm.ClientID + "|" + rm.AllocID
	last, later := model.Last[key], model.Seen[key]
	// who signed? the monitor knows every key pair the harness created: the marker must verify under the key of the wallet whose id is client_id
	hash := stHash(stRMHashData(rm.AllocID, rm.BlobberID, rm.ClientID, rm.PublicKey, rm.OwnerID, rm.Counter, rm.Timestamp))
	byClient, keyOfClient, signedBy := rmSignedBy(h, rm.ClientID, rm.PublicKey, rm.Signature, hash)
	rel := "first"
	switch {
	case later && rm.Counter > last:
		rel = "forward"
	case later && rm.Counter == last:
		rel = "same"
	case later:
		rel = "older"
	case rm.Counter <= 0:
		rel = "first-not-positive"
	}
	sigClass := "client-key"
	switch {
	case byClient && !keyOfClient:
		sigClass = "client-sig-foreign-key" // the client's signature over a marker that names another public key
	case byClient:
	case signedBy != "":
		sigClass = "foreign-key-valid-sig" // carries another wallet's public key and verifies under it
	case !keyOfClient:
		sigClass = "foreign-key-no-valid-sig"
	default:
		sigClass = "client-key-bad-sig"
	}
	if later {
		h.C("C15", "second_or_later_markers_judged")
		if sigClass == "foreign-key-valid-sig" {
			h.C("C15", "second_or_later_markers_with_forged_key_judged")
		}
		if rel == "same" || rel == "older" {
			h.C("C15", "replayed_or_older_markers_judged")
		}
	} else if sigClass == "foreign-key-valid-sig" {
		h.C("C15", "first_markers_with_forged_key_judged")
	}
	if run != nil {
		run.Distinct(fmt.Sprintf("%s|%s|%s|%s", o.Call.Mut, o.Outcome, rel, sigClass))
	}
	// stored counters only move forward, whatever the outcome
	if o.Outcome != "rejected" {
		preC, postC := rmStoredCounters(h, o.Pre), rmStoredCounters(h, o.Post)
		for k, a := range preC {
			if b, ok := postC[k]; ok && b < a {
				h.V("C15", "stored-read-counter-moved-backwards", fmt.Sprintf("stored read counter %d -> %d", a, b), o)
			}
		}
	}
	if o.Outcome != "success" {
		// a marker that was not redeemed charges nothing
		h.C("C15", "unredeemed_markers_checked")
		if len(changed) > 0 {
			h.V("C15", "unredeemed-marker-changed-read-pool", fmt.Sprintf("read_redeem %s (%s), yet %d read pools changed (net debit %d)", o.Outcome, trunc(o.Txn.TransactionOutput, 100), len(changed), charged), o)
		}
		return
	}
	h.C("C15", "redeemed_markers_checked")
	if !byClient {
		who := "a key unknown to the harness"
		if signedBy != "" {
			who = "the key of " + h.name(signedBy)
		}
		h.V("C15", "marker-signed-by-foreign-key-redeemed", fmt.Sprintf("marker for client %s (%s marker of this blobber/client/allocation, counter %d -> %d) carries %s and was redeemed: read pool debited %d",
			h.name(rm.ClientID), map[bool]string{true: "later", false: "first"}[later], last, rm.Counter, who, charged), o)
	}
	if later && rm.Counter < last {
		h.V("C15", "stale-or-replayed-marker-redeemed", fmt.Sprintf("marker with counter %d redeemed although %d was already redeemed for this blobber/client/allocation", rm.Counter, last), o)
	}
	// the charge: read price (terms of that blobber in that allocation, pre-state) * newly read size (64 KiB blocks) since the model's last counter
	var price uint64
	if a := h.allocations(o.Pre)[rm.AllocID]; a != nil {
		for _, b := range a.Blobbers {
			if b.BlobberID == rm.BlobberID {
				price = b.ReadPrice
			}
		}
	}
	delta := rm.Counter - last
	if delta < 0 {
		delta = 0
	}
	want := float64(delta) * 64 * 1024 / (1024 * 1024 * 1024) * float64(price)
	if len(changed) > 1 {
		h.V("C15", "several-read-pools-charged", fmt.Sprintf("%d read pools changed by one redeem", len(changed)), o)
	}
	for _, k := range changed {
		if !strings.HasSuffix(k, ":readpool:"+rm.ClientID) {
			h.V("C15", "foreign-read-pool-charged", fmt.Sprintf("redeem of a marker of client %s changed read pool %q", h.name(rm.ClientID), k), o)
		}
	}
	if diff := float64(charged) - want; diff > 1.5 || diff < -1.5 {
		sig := "read-charge-differs-from-price-times-size"
		if delta == 0 {
			sig = "replayed-or-older-marker-charged"
		}
		h.V("C15", sig, fmt.Sprintf("counter %d -> %d (%d new blocks) at read price %d/GB: expected charge %.1f, read pool debited %d", last, rm.Counter, delta, price, want, charged), o)
	}
	if want >= 1 {
		h.C("C15", "paid_redeems_checked")
	}
	if delta == 0 {
		h.C("C15", "obs_same_counter_marker_accepted_without_charge")
	}
	if rm.Counter > last {
		model.Last[key] = rm.Counter
	}
	model.Seen[key] = true
}

// ---- C24: free storage ------------------------------------------------------------------------------------------------------------

func monC24(h *Hist, o *TxnObs) {
	fn := storageFn(o)
	model := frModelOf(h)
	if fn == "add_free_storage_assigner" && o.Outcome == "success" {
		// registrations the monitor saw applied: name -> public key (the key markers of that assigner must verify under)
		var in struct {
			Name      string  `json:"name"`
			PublicKey string  `json:"public_key"`
			Indiv     float64 `json:"individual_limit"`
			Total     float64 `json:"total_limit"`
		}
		if json.Unmarshal(o.Txn.InputData, &in) == nil {
			model.Key[in.Name] = in.PublicKey
			// the limits this registration declares, in tokens (the running total of an assigner survives a re-registration)
			model.Lim[in.Name] = frLimits{Indiv: frLimitCoin(in.Indiv), Total: frLimitCoin(in.Total)}
			if model.Sum[in.Name] > 0 {
				h.C("C24", "limits_changed_after_redemptions")
			}
		}
		return
	}
	if fn != "free_allocation_request" {
		return
	}
	m, _ := o.Call.Meta["marker"].(map[string]interface{})
	valid, _ := o.Call.Meta["free_marker_valid"].(bool)
	wire := frDecode(o.Txn.InputData)
	h.C("C24", "free_requests_judged")
	used, ooo := false, false
	if wire != nil {
		used, ooo = model.Nonces[wire.Assigner][wire.Nonce], model.outOfOrder(wire.Assigner)
		if used {
			h.C("C24", "requests_with_redeemed_nonce_judged")
			if ooo {
				h.C("C24", "replays_after_out_of_order_redemption_judged")
			}
		}
	}
	if r := h.Runs["C24"]; r != nil {
		r.Eval(1)
		r.Distinct(fmt.Sprintf("%s|%s|valid=%v|nonce_used=%v|out_of_order=%v", o.Call.Mut, o.Outcome, valid, used, ooo))
	}
	if o.Outcome != "success" {
		// the monitor's own books: a request refused although nothing but the assigner's total stands against it
		if wire != nil {
			if lim, ok := model.Lim[wire.Assigner]; ok && valid == false && o.Call.Mut == "over-total-limit" {
				if coin, okc := frCoin(wire.FreeTokens); okc && coin <= lim.Indiv && model.Sum[wire.Assigner]+coin > lim.Total {
					h.C("C24", "markers_beyond_own_running_total_refused")
				}
			}
		}
		return
	}
	if !valid {
		h.V("C24", "invalid-free-marker-accepted:"+o.Call.Mut, fmt.Sprintf("free_allocation_request succeeded with a marker the generator built as invalid (%s): %v", o.Call.Mut, m), o)
	}
	// the monitor's own judgement of the marker it decoded from the input
	if wire == nil {
		h.V("C24", "undecodable-free-marker-accepted", "free_allocation_request succeeded although its input carries no decodable marker", o)
	} else {
		if wire.Recipient != o.Txn.ClientID {
			h.V("C24", "free-marker-redeemed-by-other-than-recipient", fmt.Sprintf("marker for %s redeemed by %s", h.name(wire.Recipient), h.name(o.Txn.ClientID)), o)
		}
		if pub, ok := model.Key[wire.Assigner]; !ok {
			h.V("C24", "free-marker-of-unregistered-assigner-accepted", fmt.Sprintf("assigner %s was never registered", short(wire.Assigner)), o)
		} else if known, sigOK := frSignedByKey(h, pub, wire); known && !sigOK {
			h.V("C24", "free-marker-not-signed-by-assigner-accepted", fmt.Sprintf("marker of assigner %s (nonce %d) does not verify under the assigner's registered key", short(wire.Assigner), wire.Nonce), o)
		} else if known {
			h.C("C24", "assigner_signatures_verified")
		}
		if used {
			sig := "marker-nonce-redeemed-twice"
			h.V("C24", sig, fmt.Sprintf("marker of assigner %s with nonce %d redeemed although that nonce was redeemed before (redemption order so far %v)", short(wire.Assigner), wire.Nonce, model.Order[wire.Assigner]), o)
		}
		if model.Nonces[wire.Assigner] == nil {
			model.Nonces[wire.Assigner] = map[int64]bool{}
		}
		if o2 := model.Order[wire.Assigner]; len(o2) > 0 && !used {
			max := o2[0]
			for _, n := range o2 {
				if n > max {
					max = n
				}
			}
			if wire.Nonce < max {
				h.C("C24", "redemptions_below_an_earlier_nonce")
			}
		}
		model.Nonces[wire.Assigner][wire.Nonce] = true
		model.Order[wire.Assigner] = append(model.Order[wire.Assigner], wire.Nonce)
		// limits, from the monitor's OWN books: the grant is the marker's token amount (or what other wallets were actually made
		// to pay for this request, should that be more); it must fit the individual limit of the assigner's last registration,
		// and the sum of all grants the monitor saw redeemed under this assigner's name must stay within the registered total
		// limit. The contract's own CurrentRedeemed plays no part.
		coin, okc := frCoin(wire.FreeTokens)
		if !okc || coin == 0 {
			h.V("C24", "free-marker-without-token-amount-accepted", fmt.Sprintf("marker of assigner %s carries free_tokens %v, which is no positive token amount", short(wire.Assigner), wire.FreeTokens), o)
		}
		var paid uint64
		parts := 0
		for _, t := range o.Tr {
			if t.ClientID != o.Txn.ClientID && t.ClientID != storagesc.ADDRESS && t.Amount > 0 {
				paid += uint64(t.Amount)
				parts++
			}
		}
		grant := coin
		if paid > coin {
			h.V("C24", "grant-paid-above-marker-amount", fmt.Sprintf("marker of assigner %s over %d tokens, but %d tokens were taken from other wallets for it", short(wire.Assigner), coin, paid), o)
			grant = paid
		}
		if parts >= 2 {
			h.C("C24", "grants_with_read_pool_part_judged")
		}
		if lim, ok := model.Lim[wire.Assigner]; ok {
			sum := model.Sum[wire.Assigner]
			h.C("C24", "grants_judged_against_own_running_total")
			if frReadPoolFraction(h, o.Pre) > 0 {
				h.C("C24", "grants_judged_with_read_pool_fraction_set")
			}
			if grant > lim.Indiv {
				h.V("C24", "grant-above-registered-individual-limit", fmt.Sprintf("assigner %s: grant of %d tokens, individual limit %d", short(wire.Assigner), grant, lim.Indiv), o)
			}
			switch {
			case sum+grant > lim.Total:
				h.V("C24", "redeemed-grants-sum-above-registered-total-limit", fmt.Sprintf("assigner %s: %d tokens redeemed before (%d markers) + this grant of %d = %d > total limit %d",
					short(wire.Assigner), sum, len(model.Order[wire.Assigner])-1, grant, sum+grant, lim.Total), o)
			case sum+grant == lim.Total:
				h.C("C24", "grants_reaching_total_limit_exactly")
			case sum+grant+lim.Indiv > lim.Total:
				h.C("C24", "grants_leaving_less_than_one_full_grant")
			}
		}
		model.Sum[wire.Assigner] += grant
	}
	h.C("C24", "redemptions_checked")
	// assigner bookkeeping in state: redeemed total within the total limit, nonce recorded once
	preRed := map[string]uint64{}
	for _, n := range h.NodesOfType(o.Pre, "*storagesc.freeStorageAssigner") {
		preRed[Str(n.Val, "ClientId")] = U(n.Val, "CurrentRedeemed")
	}
	for _, n := range h.NodesOfType(o.Post, "*storagesc.freeStorageAssigner") {
		red, tot := U(n.Val, "CurrentRedeemed"), U(n.Val, "TotalLimit")
		// only an assigner whose redeemed total GREW in this txn is judged (limits may have been lowered below what was already redeemed)
		if red <= preRed[Str(n.Val, "ClientId")] {
			continue
		}
		if red > tot {
			h.V("C24", "assigner-total-limit-exceeded", fmt.Sprintf("assigner %s redeemed %d > total limit %d", short(Str(n.Val, "ClientId")), red, tot), o)
		}
		if ind := U(n.Val, "IndividualLimit"); red-preRed[Str(n.Val, "ClientId")] > ind {
			h.V("C24", "grant-above-individual-limit", fmt.Sprintf("assigner %s: grant %d > individual limit %d", short(Str(n.Val, "ClientId")), red-preRed[Str(n.Val, "ClientId")], ind), o)
		}
		ns := F(n.Val, "RedeemedNonces")
		seen := map[int64]bool{}
		if ns.IsValid() {
			for i := 0; i < ns.Len(); i++ {
				v := ns.Index(i).Int()
				if seen[v] {
					h.V("C24", "marker-nonce-redeemed-twice", fmt.Sprintf("nonce %d recorded twice", v), o)
				}
				seen[v] = true
			}
		}
	}
}
