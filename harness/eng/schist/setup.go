package schist

import (
	"strconv"
	"strings"
)

// setupHistory runs the per-history set-up transactions (provider registrations etc.) through the same Submit path,
// so every monitor also judges them.
func setupHistory(h *Hist, mons []Monitor) {
	minerSetup(h, mons)
	forkSetup(h, mons)
	storageSetup(h, mons)
}

// forkSetup: much contract code is gated by the recorded hard forks ("demeter", "electra"). Without this step a history
// only reaches the post-fork branches when a random add_hardfork happens to record them early; here three histories out
// of five record both forks (and one only the older one) through the owner's add_hardfork before the workload starts, so
// that pre-fork and post-fork behaviour are both driven in every run.
func forkSetup(h *Hist, mons []Monitor) {
	r := h.R.Fork("fork-setup")
	var names []string
	switch r.Intn(5) {
	case 0:
		return
	case 1:
		names = []string{"demeter"}
	default:
		names = []string{"demeter", "electra"}
	}
	m := h.S.Mn
	round := h.mnRound()
	fields := map[string]string{}
	var forks []map[string]interface{}
	for _, nm := range names {
		rd := round + int64(r.Intn(2)) // this block or the next one
		fields[nm] = strconv.FormatInt(rd, 10)
		forks = append(forks, map[string]interface{}{"name": nm, "round": rd})
	}
	meta := map[string]interface{}{"forks": forks, "round": round, "owner_call": true, "known_forks": mnCopyForks(m.Forks), "setup": "forks"}
	if len(forks) > 0 {
		meta["fork"] = forks[0]
	}
	c := mnCall("miner.add_hardfork", "setup", h.mnOwner(), "add_hardfork", 0, 0, map[string]interface{}{"fields": fields}, meta, func(h *Hist, o *TxnObs) {
		if o.Outcome != "success" {
			return
		}
		for nm, v := range fields {
			if rd, err := strconv.ParseInt(v, 10, 64); err == nil {
				m.Forks[nm] = rd
				m.ForkLog = append(m.ForkLog, mnFork{Name: nm, Round: rd, At: o.PreRound})
			}
		}
	})
	if o := h.Submit(c, mons); o.Outcome == "success" {
		h.C(h.Focus, "histories_with_forks_recorded_at_setup:"+strings.Join(names, "+"))
	}
	h.EndBlock()
}
