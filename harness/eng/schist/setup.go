package schist

// setupHistory runs the per-history set-up transactions (provider registrations etc.) through the same Submit path,
// so every monitor also judges them.
func setupHistory(h *Hist, mons []Monitor) {
	minerSetup(h, mons)
	storageSetup(h, mons)
}
