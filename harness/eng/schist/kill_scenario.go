package schist

import (
	"fmt"

	"verifh/mon"
	"verifh/world"
)

// Directed scenario of the C23 check: ordered sequences of kill / shutdown calls by every kind of caller on storage providers that
// hold delegate stake (so that a shut down provider keeps existing), embedded in a reward context: an allocation with committed data
// and open challenges exists before the sequences run, and challenge responses, block rewards and a cancellation follow them.
// Every step is an ordinary transaction through h.Submit, judged by the same monitors as the random operations.

type ksAction struct{ Name, Fn, Who string }

var ksActions = []ksAction{
	{"shutdown-by-delegate", "shutdown", "delegate"},
	{"shutdown-by-owner", "shutdown", "owner"},
	{"kill-by-owner", "kill", "owner"},
	{"kill-by-stranger", "kill", "stranger"},
	{"shutdown-by-stranger", "shutdown", "stranger"},
	{"shutdown-by-provider", "shutdown", "provider"},
}

// ksSequences lists every ordered pair and every ordered triple of actions (with repetition): 36 + 216.
func ksSequences() [][]int {
	var out [][]int
	n := len(ksActions)
	for a := 0; a < n; a++ {
		for b := 0; b < n; b++ {
			out = append(out, []int{a, b})
		}
	}
	for a := 0; a < n; a++ {
		for b := 0; b < n; b++ {
			for c := 0; c < n; c++ {
				out = append(out, []int{a, b, c})
			}
		}
	}
	return out
}

// ksProviderState is what the current state says about a provider (generator side: used for the evidence counters only).
func ksProviderState(h *Hist, p *stProv) string {
	n := h.stNode(p.W.ID)
	switch {
	case n == nil:
		return "absent"
	case n.IsKilled:
		return "killed"
	case n.IsShutDown:
		return "shutdown"
	}
	return "alive"
}

// ksCall builds one kill / shutdown call on provider p by the caller the action names.
func ksCall(h *Hist, r *mon.Rand, p *stProv, a ksAction) *Call {
	from := h.W.Owner
	mut := ""
	del := p.Del
	if sp := h.stSP(p.Kind, p.W.ID); sp != nil {
		if w := h.W.Wallets[sp.Settings.DelegateWallet]; w != nil {
			del = w
		}
	}
	switch a.Who {
	case "delegate":
		from = del
	case "stranger":
		mut = "stranger"
		from = h.stStranger(r)
		for try := 0; try < 8 && (from.ID == h.W.Owner.ID || from.ID == del.ID || from.ID == p.W.ID); try++ {
			from = h.anyClient(r)
		}
	case "provider":
		mut, from = "provider-itself", p.W
	}
	fn := a.Fn
	c := stCall(h, r, fn+"_"+p.Kind, from, map[string]interface{}{"provider_id": p.W.ID}, 0)
	c.Mut = mut
	stProvMeta(c, p)
	c.Meta["c23_directed"] = a.Name
	authorised := a.Who == "owner" || a.Who == "delegate"
	c.After = func(h *Hist, o *TxnObs) {
		if o.Outcome == "success" && authorised && p.Dead == "" {
			p.Dead = map[string]string{"kill": "killed", "shutdown": "shutdown"}[fn]
		}
	}
	return c
}

// ksRegister registers a fresh provider whose delegate wallet (and mostly one ordinary client) stakes on it.
func ksRegister(h *Hist, r *mon.Rand, kind string) *stProv {
	st := h.S.St
	p := h.stNewProv(r, kind)
	if kind == "blobber" {
		p.WritePrice = []uint64{1e8, 1e9, 1e9}[r.Intn(3)]
		p.ReadPrice = 0
		st.Blobbers = append(st.Blobbers, p)
	} else {
		st.Validators = append(st.Validators, p)
	}
	rich := h.W.Clients[0]
	h.stSend(rich, p.W.ID, 2e11)
	h.stSend(rich, p.Del.ID, 3e13)
	var c *Call
	if kind == "blobber" {
		c = stCall(h, r, "add_blobber", p.W, stBlobberInput(p, 10+r.Intn(20), 0.05*float64(r.Intn(6))), 0)
	} else {
		c = stCall(h, r, "add_validator", p.W, stValidatorInput(p, 10+r.Intn(20), 0.05*float64(r.Intn(6))), 0)
	}
	c.Spec.Fee = 0
	stProvMeta(c, p)
	if o := h.stInner(c); o.Outcome == "success" {
		p.Reg = true
	}
	stakers := []*world.Wallet{p.Del}
	if r.Chance(0.7) {
		stakers = append(stakers, h.W.Clients[1+r.Intn(len(h.W.Clients)-1)])
	}
	for _, sw := range stakers {
		amt := uint64(1e12) * uint64(1+r.Intn(8))
		if kind == "validator" {
			amt = uint64(1e10) * uint64(1+r.Intn(50))
		}
		c := stCall(h, r, "stake_pool_lock", sw, stStakeInput(p), amt)
		c.Spec.Fee = 0
		stProvMeta(c, p)
		if o := h.stInner(c); o.Outcome == "success" {
			p.Stakers = append(p.Stakers, sw)
		}
	}
	return p
}

func ksScenarioC23(h *Hist, mons []Monitor) {
	st := h.S.St
	if st.mons == nil {
		st.mons = mons
	}
	r := h.R.Fork("c23-kill-shutdown-sequences")
	st.NoHostile = true
	defer func() { st.NoHostile = false }()
	conf := h.stConf()

	// (1) fresh providers with delegate stake: they are the main targets, the providers of the set-up keep the workload alive
	var targets []*stProv
	for i := 0; i < 3; i++ {
		if p := ksRegister(h, r, "blobber"); p.Reg {
			targets = append(targets, p)
		}
		if p := ksRegister(h, r, "validator"); p.Reg {
			targets = append(targets, p)
		}
		h.stNextBlock(r, 20)
	}

	// (2) reward context: an allocation over live blobbers, data on its blobbers, open challenges
	if c := stNewAlloc(h, r); c != nil {
		h.stInner(c)
	}
	h.stNextBlock(r, 20)
	var alloc *stAlloc
	var view *stAllocView
	if _, running, views := h.stExpiredSplit(); len(running) > 0 {
		alloc = running[len(running)-1]
		view = views[alloc.ID]
	}
	if alloc != nil && view != nil {
		committed := 0
		for _, ba := range view.BlobberAllocs {
			if committed >= 3 {
				break
			}
			size := []int64{64 * stKB, 256 * stKB, stMB}[r.Intn(3)]
			if c := stCommitOn(h, r, alloc, view, ba, size); c != nil {
				if o := h.stInner(c); o.Outcome == "success" {
					committed++
				}
			}
		}
		h.stNextBlock(r, 30)
		for i := 0; i < 4; i++ {
			h.stInner(stGenChallenge(h, r))
			h.stNextBlock(r, 20)
		}
		// one or two blobbers of the allocation join the targets (they have offers, data and possibly open challenges)
		extra := 1 + r.Intn(2)
		for _, ba := range view.BlobberAllocs {
			bp := st.blobberByID(ba.BlobberID)
			already := false
			for _, t := range targets {
				already = already || t == bp
			}
			if bp == nil || already || bp.Dead != "" || extra == 0 || len(st.live(st.Blobbers)) <= 4 {
				continue
			}
			targets = append(targets, bp)
			extra--
		}
	}

	// (3) the sequences: every history takes the next slice of the list of all ordered pairs and triples; the list order is fixed by
	// the run seed, the slice by the position of the history in the run. The first four targets of a history additionally make sure
	// the four after-death cases occur in it.
	seqs := ksSequences()
	order := mon.NewRand(mon.Seed()).Fork("c23-sequence-order")
	order.Shuffle(len(seqs), func(i, j int) { seqs[i], seqs[j] = seqs[j], seqs[i] })
	var sd, ci, hi int
	_, _ = fmt.Sscanf(h.ID, "s%d-c%d-h%d", &sd, &ci, &hi)
	pos := (ci*12 + hi) * 8
	forced := [][]int{{0, 2}, {2, 1}, {2, 2}, {1, 0}} // kill after shutdown, shutdown after kill, kill twice, shutdown twice
	r.Shuffle(len(targets), func(i, j int) { targets[i], targets[j] = targets[j], targets[i] })
	for k, p := range targets {
		seq := seqs[(pos+k)%len(seqs)]
		if k < len(forced) {
			seq = append(append([]int{}, forced[k]...), seq...)
			if r.Chance(0.5) {
				// the unauthorised callers first
				seq = append(append([]int{}, 3+r.Intn(3)), seq...)
			}
		}
		for _, ai := range seq {
			a := ksActions[ai]
			before := ksProviderState(h, p)
			o := h.stInner(ksCall(h, r, p, a))
			authorised := a.Who == "owner" || a.Who == "delegate"
			h.C("C23", fmt.Sprintf("scenario:%s_%s|auth=%v|on-%s|%s", a.Fn, p.Kind, authorised, before, o.Outcome))
			if authorised {
				switch {
				case a.Fn == "kill" && before == "shutdown":
					h.C("C23", "scenario_kill_after_shutdown|"+o.Outcome)
				case a.Fn == "shutdown" && before == "killed":
					h.C("C23", "scenario_shutdown_after_kill|"+o.Outcome)
				case a.Fn == "kill" && before == "killed":
					h.C("C23", "scenario_repeated_kill|"+o.Outcome)
				case a.Fn == "shutdown" && before == "shutdown":
					h.C("C23", "scenario_repeated_shutdown|"+o.Outcome)
				}
			}
			if r.Chance(0.4) {
				h.stNextBlock(r, 20)
			}
		}
		h.C("C23", "scenario_sequences_run")
	}
	h.stNextBlock(r, 20)

	// (4) reward-paying operations: responses to the open challenges (they pay the blobber and the validators of the challenge),
	// the periodic block rewards, and the cancellation of the allocation (challenge pool and cancellation charge go to blobbers)
	if rd := h.stExecRound(); rd < conf.trigger() {
		h.stSkipRounds(int(conf.trigger() - rd))
	}
	h.stSyncChallenges(h.Cur)
	answered := 0
	for _, ch := range append([]*stChal{}, st.Chals...) {
		if ch.Done || answered >= 6 {
			continue
		}
		if c := stRespond(h, r, ch, r.Chance(0.85)); c != nil {
			h.stInner(c)
			answered++
			h.C("C23", "scenario_challenge_responses_after_kills")
			if r.Chance(0.5) {
				h.stNextBlock(r, 10)
			}
		}
	}
	if rest := h.stExecRound() % conf.trigger(); rest != 0 {
		h.stSkipRounds(int(conf.trigger() - rest))
	}
	if c := stBlockRewards(h, r); c != nil {
		h.stInner(c)
		h.C("C23", "scenario_block_rewards_after_kills")
	}
	h.stNextBlock(r, 20)
	if alloc != nil && r.Chance(0.5) {
		if v := h.stGetAlloc(alloc.ID); v != nil && h.W.Wallets[v.Owner] != nil {
			c := stCall(h, r, "cancel_allocation", h.W.Wallets[v.Owner], map[string]string{"allocation_id": alloc.ID}, 0)
			c.Meta["alloc"], c.Meta["closes"] = alloc.ID, "cancel"
			c.After = stCloseAfter(alloc, "cancel")
			h.stInner(c)
			h.C("C23", "scenario_cancellations_after_kills")
		}
	}
	h.stNextBlock(r, 20)

	// (5) miners and sharders: the existing operation builders (kill by owner / others, kill twice)
	st.NoHostile = false
	byName := map[string]OpDef{}
	for _, op := range minerOps() {
		byName[op.Name] = op
	}
	for i := 0; i < 3; i++ {
		for _, name := range []string{"miner.kill_sharder", "miner.kill_miner"} {
			if op, ok := byName[name]; ok {
				if c := op.Build(h, r); c != nil {
					o := h.Submit(c, mons)
					if run := h.Runs[h.Focus]; run != nil {
						run.Count("op:"+c.Name+"|"+o.Outcome, 1)
					}
				}
			}
		}
	}
	h.EndBlock()
}

func init() {
	RegisterScenario(Scenario{Prop: "C23", Name: "kill-shutdown-sequences", Every: 1, Fn: ksScenarioC23})
}

// ksDeadBy filters dead providers by the way they died ("killed" | "shutdown"), as far as the generator knows.
func ksDeadBy(list []*stProv, how string) []*stProv {
	var out []*stProv
	for _, p := range list {
		if p.Dead == how {
			out = append(out, p)
		}
	}
	return out
}
