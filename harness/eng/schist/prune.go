package schist

import (
	"context"
	"errors"
	"flag"
	"fmt"
	"os"
	"runtime/debug"
	"sort"
	"time"

	"0chain.net/chaincore/block"
	"0chain.net/chaincore/chain"
	"0chain.net/chaincore/round"
	"0chain.net/core/datastore"
	"github.com/0chain/common/core/statecache"
	"github.com/0chain/common/core/util"

	"verifh/mon"
	"verifh/obs"
	"verifh/snap"
	"verifh/world"
)

// C27 — pruning never deletes state that a retained block still needs.
//
// Histories of a few hundred blocks are executed, every block is finalized with the real finalizeBlockProcess (SaveChanges to
// rocksdb + RecordDeadNodes at the block round) and the real pruneClientState runs periodically. Oracle: for every block whose
// round is at or above (latest finalized round - prune_below_count) — the code never prunes above that — a FRESH trie over the bare
// rocksdb node DB (no memory overlay, no cache) iterates completely (no missing node) and its leaf map equals the snapshot recorded
// when the block was executed.

type nopBSH struct{}

func (nopBSH) SaveMagicBlock() chain.MagicBlockSaveFunc                                        { return nil }
func (nopBSH) UpdatePendingBlock(ctx context.Context, b *block.Block, txns []datastore.Entity) {}
func (nopBSH) UpdateFinalizedBlock(ctx context.Context, b *block.Block) error                  { return nil }

// failBSH makes the last step of a finalization fail (a sharder's block store or a miner's round bookkeeping refusing the block):
// the state has been saved and the dead nodes recorded by then, the round is reset and the block is not the LFB.
type failBSH struct{ nopBSH }

func (failBSH) UpdateFinalizedBlock(ctx context.Context, b *block.Block) error {
	return errors.New("verif: injected UpdateFinalizedBlock failure")
}

// PruneMain is the entry point of the prune engine.
func PruneMain(args []string) int {
	fs := flag.NewFlagSet("prune", flag.ExitOnError)
	prop := fs.String("prop", "C27", "")
	tier := fs.String("tier", "quick", "")
	child := fs.Int("child", -1, "")
	blocks := fs.Int("blocks", 0, "")
	children := fs.Int("children", 0, "")
	_ = fs.Parse(args)
	if *child >= 0 {
		return pruneChild(*prop, *tier, *child, *blocks)
	}
	defer mon.CleanScratch()
	run := mon.NewRun(*prop, *tier, "exploration", "histories of 230-600 blocks with churn-heavy transactions (inserts, deletes, re-inserts of identical values in the same and later blocks) finalized by the real finalizeBlockProcess and pruned by the real pruneClientState every few blocks; after each prune every retained block at or above (lfb - prune_below_count) is re-read from the bare rocksdb node DB and compared leaf by leaf with the snapshot taken at execution; distinct = (prune point, retained round) pairs")
	nc, nb := 6, 235
	if *tier == "thorough" {
		nc, nb = 16, 620
	}
	if *children > 0 {
		nc = *children
	}
	if *blocks > 0 {
		nb = *blocks
	}
	var specs []mon.ChildSpec
	for i := 0; i < nc; i++ {
		to := 8 * time.Minute
		if *tier == "thorough" {
			to = 30 * time.Minute
		}
		specs = append(specs, mon.ChildSpec{Name: fmt.Sprintf("c%d", i), Timeout: to, Args: []string{"prune", "-prop", *prop, "-tier", *tier, "-child", fmt.Sprint(i), "-blocks", fmt.Sprint(nb)}})
	}
	for _, cr := range mon.RunChildren(run, specs, 14) {
		if cr.Crashed && !cr.TimedOut {
			p := mon.KeepLog(cr, fmt.Sprintf("%s-crash-%s-seed%d.log", *prop, cr.Spec.Name, run.SeedV))
			run.Inconclusive(fmt.Sprintf("child %s crashed (log %s): %s", cr.Spec.Name, p, firstPanicLine(cr.LogTail)))
		}
	}
	run.RequireMin("prunes_that_deleted_nodes", 1)
	run.RequireMin("retained_states_verified", 20)
	run.Assume("crash points inside SaveChanges / RecordDeadNodes / PruneBelowVersion are not injected in this tier; rocksdb's own write atomicity is trusted")
	run.Assume("PNodeDB (github.com/0chain/common) is exercised but lives outside the repository")
	return run.Finish()
}

func pruneChild(prop, tier string, idx, nb int) int {
	seed := mon.Seed()
	run := mon.NewRun(prop, tier, "exploration", "")
	defer func() {
		if e := recover(); e != nil {
			fmt.Printf("HARNESS-PANIC %v\n%s\n", e, debug.Stack())
			run.Checkpoint()
			os.Exit(3)
		}
	}()
	o := obs.Install()
	pruneBelow := []int{10, 25, 40}[idx%3]
	w := world.New(world.Options{Seed: seed*1000 + uint64(idx), ViperSet: map[string]interface{}{"server_chain.state.prune_below_count": pruneBelow}})
	defer w.Close()
	c := w.Chain
	c.InitializeMinerPool(w.MB)
	if gr := c.GetRound(0); gr != nil {
		gr.Finalize(w.GB)
	}
	ctx := context.Background()
	r := mon.NewRand(seed).Fork(fmt.Sprintf("prune-child%d", idx))
	h := NewHist(fmt.Sprintf("s%d-c%d", seed, idx), w, o, r, map[string]*mon.Run{}, prop)
	h.Vars["hostile"] = 0.1
	ops := catalogue()
	wts := weights(ops, "C27")
	for i, op := range ops {
		for _, t := range op.Tags {
			switch t {
			case "stake", "vesting", "zcn", "gov", "faucet":
				wts[i] = 10
			}
		}
	}
	recorded := map[int64]snap.Snapshot{}
	roots := map[int64][]byte{}
	var lastFinal int64
	finalize := func(b *block.Block) bool {
		rd := round.NewRound(b.Round)
		c.SetRandomSeed(rd, b.GetRoundRandomSeed())
		c.AddRound(rd)
		b.RoundRank = 0
		b.SetBlockState(block.StateNotarized)
		c.AddBlock(b)
		if err := c.VerifFinalizeBlockProcess(ctx, b, nopBSH{}); err != nil {
			run.Inconclusive(fmt.Sprintf("finalizeBlockProcess failed at round %d: %v", b.Round, err))
			return false
		}
		lastFinal = b.Round
		run.Count("blocks_finalized", 1)
		return true
	}
	verify := func(when string) {
		lfb := c.GetLatestFinalizedBlock()
		low := lfb.Round - int64(pruneBelow)
		var rounds []int64
		for rn := range recorded {
			if rn >= low {
				rounds = append(rounds, rn)
			}
		}
		sort.Slice(rounds, func(i, j int) bool { return rounds[i] < rounds[j] })
		for _, rn := range rounds {
			mpt := util.NewMerklePatriciaTrie(c.GetStateDB(), util.Sequence(rn), roots[rn], statecache.NewEmpty())
			got, err := snap.Take(mpt)
			run.Eval(1)
			run.Count("retained_states_verified", 1)
			run.Distinct(fmt.Sprintf("lfb%d|r%d", lfb.Round, rn))
			if err != nil {
				run.Violate("retained-state-unreadable-after-prune", fmt.Sprintf("%s: state of retained round %d (lfb %d, prune_below_count %d) cannot be read from the node DB: %v", when, rn, lfb.Round, pruneBelow, err), map[string]interface{}{"history": h.ID, "round": rn, "lfb": lfb.Round, "op_log_tail": tailLog(h)})
				continue
			}
			if d := snap.Diff(recorded[rn], got); !d.Empty() {
				run.Violate("retained-state-differs-after-prune", fmt.Sprintf("%s: state of retained round %d differs from the executed state in %d leaves", when, rn, len(d.All())), map[string]interface{}{"history": h.ID, "round": rn})
			}
		}
		// forget snapshots far below the retained window to bound memory
		for rn := range recorded {
			if rn < low-5 {
				delete(recorded, rn)
				delete(roots, rn)
			}
		}
	}
	setupHistory(h, nil)
	h.EndBlock()
	// finalize the set-up blocks too (walk from genesis)
	var chainBlocks []*block.Block
	for b := h.Head; b != nil && b.Round > 0; b = b.PrevBlock {
		chainBlocks = append([]*block.Block{b}, chainBlocks...)
	}
	for _, b := range chainBlocks {
		s, _ := snap.Take(b.ClientState)
		recorded[b.Round], roots[b.Round] = s, append([]byte{}, b.ClientStateHash...)
		if !finalize(b) {
			run.Checkpoint()
			return 0
		}
	}
	// finalizePending finalizes, in order, every sealed block above the last finalized one (operation hooks may seal
	// blocks themselves, e.g. after a payFees transaction)
	finalizePending := func() bool {
		var pend []*block.Block
		for b := h.Head; b != nil && b.Round > lastFinal; b = b.PrevBlock {
			pend = append([]*block.Block{b}, pend...)
		}
		for _, b := range pend {
			s, err := snap.Take(b.ClientState)
			if err != nil {
				run.Inconclusive("snapshot of executed block failed: " + err.Error())
				return false
			}
			recorded[b.Round], roots[b.Round] = s, append([]byte{}, b.ClientStateHash...)
			if !finalize(b) {
				delete(recorded, b.Round)
				delete(roots, b.Round)
				return false
			}
		}
		return true
	}
	for h.Round < int64(nb) {
		k := 1 + r.Intn(3)
		refinal := h.Round > 3 && r.Chance(0.12)
		if refinal && r.Chance(0.7) {
			k = 0 // the block that is finalized in the end carries no state change
		}
		for i := 0; i < k; i++ {
			op := ops[r.Pick(wts)]
			cl := op.Build(h, r)
			if cl == nil {
				continue
			}
			ob := h.Submit(cl, nil)
			if ob.Outcome != "rejected" {
				h.S.Accepted = append(h.S.Accepted, ob.Txn)
			}
		}
		if k == 0 && h.BC == nil {
			h.openBlock() // a block without transactions: same state as its parent
		}
		h.EndBlock()
		if h.Head.Round <= lastFinal {
			continue
		}
		if refinal && h.Head.Round == lastFinal+1 {
			// a round finalized twice: first a sibling block (another generator's proposal for the same round, with its own state
			// changes) whose finalization fails at its last step after its state and dead nodes were written, then the block of
			// the main chain. The round's bookkeeping in the node DB has to end up describing the block that IS finalized.
			if sib := h.forkSibling(r, ops, wts, nil); sib != nil && sib.Round == h.Head.Round && sib.ClientState != nil {
				rd := round.NewRound(sib.Round)
				c.SetRandomSeed(rd, sib.GetRoundRandomSeed())
				c.AddRound(rd)
				sib.RoundRank = 0
				sib.SetBlockState(block.StateNotarized)
				c.AddBlock(sib)
				err := c.VerifFinalizeBlockProcess(ctx, sib, failBSH{})
				if err == nil || c.GetLatestFinalizedBlock().Hash == sib.Hash {
					run.Inconclusive(fmt.Sprintf("injected finalization failure at round %d did not fail (err=%v)", sib.Round, err))
					break
				}
				run.Count("failed_sibling_finalizations", 1)
				if len(h.Head.Txns) == 0 {
					run.Count("rounds_refinalized_with_state_unchanged_block", 1)
				}
			}
		}
		if !finalizePending() {
			break
		}
		b := h.Head
		h.advanceTime(r)
		if b.Round%7 == 0 || b.Round%100 == int64(pruneBelow)+1 {
			before := pruneDeleted(c)
			c.VerifPruneClientState(ctx)
			run.Count("prune_calls", 1)
			if d := pruneDeleted(c); d > 0 && d != before {
				run.Count("prunes_that_deleted_nodes", 1)
				run.Count("nodes_pruned", d)
			}
			verify(fmt.Sprintf("after prune at lfb %d", b.Round))
		}
		if b.Round%50 == 0 {
			run.Checkpoint()
		}
	}
	verify("end of history")
	_ = lastFinal
	run.Sample(map[string]interface{}{"history": h.ID, "blocks": h.Round, "prune_below_count": pruneBelow})
	run.Count("histories", 1)
	run.Checkpoint()
	return 0
}

func pruneDeleted(c *chain.Chain) int64 {
	if ps := c.GetPruneStats(); ps != nil {
		return ps.Deleted
	}
	return 0
}

func tailLog(h *Hist) []OpRecord {
	t := h.Log
	if len(t) > 30 {
		t = t[len(t)-30:]
	}
	return t
}
