package schist

import (
	"fmt"
	"sort"

	"verifh/mon"
	"verifh/world"
)

// ---- providers: registration, health, settings -----------------------------------------------------------------------------------

func stProvMeta(c *Call, p *stProv) {
	c.Meta["provider_type"], c.Meta["provider_id"], c.Meta[p.Kind] = p.Kind, p.W.ID, p.W.ID
}

func (h *Hist) stFund(to *world.Wallet, amount uint64) {
	if bal, ok := h.Bal(h.Cur, to.ID); ok && bal >= amount/2 {
		return
	}
	o := h.stSend(h.W.Clients[0], to.ID, amount)
	if r := h.Runs[h.Focus]; r != nil {
		r.Count("op:send|"+o.Outcome, 1)
	}
}

func stAddProvider(h *Hist, r *mon.Rand, kind string) *Call {
	st := h.S.St
	conf := h.stConf()
	list := st.Blobbers
	if kind == "validator" {
		list = st.Validators
	}
	fn := "add_" + kind
	mut := ""
	// hostile re-registrations do not need a new wallet
	if reg := st.registered(list); len(reg) > 0 && h.stHostile(r, 0.5) {
		p := reg[r.Intn(len(reg))]
		var in map[string]interface{}
		from := p.W
		switch r.Intn(3) {
		case 0:
			mut = "already-registered"
		case 1:
			mut = "other-kind-same-wallet" // the provider key does not contain the provider type
			other := st.registered(st.Validators)
			if kind == "validator" {
				other = st.registered(st.Blobbers)
			}
			if len(other) > 0 {
				from = other[r.Intn(len(other))].W
			}
		case 2:
			mut = "dead-provider-again"
			if dd := st.dead(list); len(dd) > 0 {
				p = dd[r.Intn(len(dd))]
				from = p.W
			}
		}
		q := *p
		q.W = from
		q.URL = fmt.Sprintf("http://%s-again%d.verif:5051", kind, st.next())
		if kind == "blobber" {
			in = stBlobberInput(&q, 10, 0.1)
		} else {
			in = stValidatorInput(&q, 10, 0.1)
		}
		c := stCall(h, r, fn, from, in, 0)
		c.Mut = mut
		c.Meta["provider_type"], c.Meta["provider_id"] = kind, from.ID
		return c
	}
	max := 8
	if kind == "validator" {
		max = 6
	}
	if (len(st.live(list)) >= max-2 && r.Chance(0.8)) || len(st.registered(list)) >= max+2 {
		if kind == "blobber" {
			return stHealthCheck(h, r, "blobber")
		}
		return stHealthCheck(h, r, "validator")
	}
	p := h.stNewProv(r, kind)
	if kind == "blobber" {
		p.Restricted = r.Chance(0.12)
		st.Blobbers = append(st.Blobbers, p)
	} else {
		st.Validators = append(st.Validators, p)
	}
	h.stFund(p.W, 2e11)
	h.stFund(p.Del, 2e13)
	nd, charge := 5+r.Intn(30), 0.05*float64(r.Intn(7))
	if charge > conf.MaxCharge {
		charge = conf.MaxCharge
	}
	if h.stHostile(r, 0.6) {
		switch r.Intn(9) {
		case 0:
			mut = "delegate-is-operational-wallet"
			p.Del = p.W
		case 1:
			mut = "duplicate-url"
			if reg := st.registered(list); len(reg) > 0 {
				p.URL = reg[r.Intn(len(reg))].URL
			}
		case 2:
			mut, p.URL = "localhost-url", "http://localhost:5051"
		case 3:
			mut, charge = "service-charge-above-max", conf.MaxCharge+0.1
		case 4:
			mut, nd = "num-delegates-0", 0
		case 5:
			mut, nd = "num-delegates-above-max", conf.MaxDelegates+1
		case 6:
			if kind == "blobber" {
				mut, p.Capacity = "capacity-at-min", conf.MinBlobberCap
			}
		case 7:
			if kind == "blobber" {
				mut, p.WritePrice = "write-price-out-of-range", []uint64{0, conf.MinWritePrice - 1, conf.MaxWritePrice + 1}[r.Intn(3)]
			}
		case 8:
			if kind == "blobber" {
				mut, p.ReadPrice = "read-price-above-max", conf.MaxReadPrice+1
			}
		}
	}
	var in map[string]interface{}
	if kind == "blobber" {
		in = stBlobberInput(p, nd, charge)
	} else {
		in = stValidatorInput(p, nd, charge)
	}
	c := stCall(h, r, fn, p.W, in, 0)
	c.Mut = mut
	stProvMeta(c, p)
	c.After = func(h *Hist, o *TxnObs) {
		if o.Outcome == "success" {
			p.Reg = true
		}
	}
	return c
}

func stHealthCheck(h *Hist, r *mon.Rand, kind string) *Call {
	st := h.S.St
	list := st.registered(st.Blobbers)
	if kind == "validator" {
		list = st.registered(st.Validators)
	}
	if len(list) == 0 {
		return nil
	}
	p := list[r.Intn(len(list))]
	from := p.W
	mut := ""
	if h.stHostile(r, 0.4) {
		switch r.Intn(3) {
		case 0:
			mut, from = "not-a-provider", h.stStranger(r)
			if m := h.stAnyMinerID(r); m != nil && r.Chance(0.3) {
				from = m
			}
			if h.stMinerNode(from.ID) {
				mut = "miner-wallet-as-provider"
			}
		case 1:
			mut, from = "delegate-wallet", p.Del
		case 2:
			mut = "other-kind"
			other := st.registered(st.Validators)
			if kind == "validator" {
				other = st.registered(st.Blobbers)
			}
			if len(other) > 0 {
				from = other[r.Intn(len(other))].W
			}
		}
	} else if p.Dead != "" {
		mut = "dead-provider"
	}
	c := stCall(h, r, kind+"_health_check", from, map[string]interface{}{}, 0)
	c.Mut = mut
	c.Meta["provider_type"], c.Meta["provider_id"], c.Meta[kind] = kind, from.ID, from.ID
	return c
}

func stUpdateBlobber(h *Hist, r *mon.Rand) *Call {
	st := h.S.St
	conf := h.stConf()
	list := st.registered(st.Blobbers)
	if len(list) == 0 {
		return nil
	}
	p := list[r.Intn(len(list))]
	n := h.stNode(p.W.ID)
	from := p.Del
	if sp := h.stSP("blobber", p.W.ID); sp != nil {
		if w := h.W.Wallets[sp.Settings.DelegateWallet]; w != nil {
			from = w
		}
	}
	in := map[string]interface{}{"id": p.W.ID}
	kind := ""
	mut := ""
	var newDel *world.Wallet
	capNow, allocated := p.Capacity, int64(0)
	if n != nil {
		capNow, allocated = n.Capacity, n.Allocated
	}
	switch r.Intn(9) {
	case 0:
		kind = "capacity-grow"
		in["capacity"] = capNow + []int64{1, stGB, 100 * stGB}[r.Intn(3)]
	case 1:
		kind = "capacity-shrink"
		nc := allocated + (capNow-allocated)/2
		if nc <= conf.MinBlobberCap {
			nc = conf.MinBlobberCap + 1
		}
		in["capacity"] = nc
	case 2:
		kind = "write-price"
		wp := []uint64{conf.MinWritePrice, 1e8, 5e8, 1e9, 2e9, 1e10}[r.Intn(6)]
		in["terms"] = map[string]interface{}{"write_price": wp}
	case 3:
		kind = "read-price"
		in["terms"] = map[string]interface{}{"read_price": []uint64{0, 1e7, 1e8, 1e9, conf.MaxReadPrice}[r.Intn(5)]}
	case 4:
		kind = "both-prices"
		in["terms"] = map[string]interface{}{"read_price": uint64(r.Intn(3)) * 1e8, "write_price": []uint64{1e8, 1e9}[r.Intn(2)]}
	case 5:
		kind = "not-available-toggle"
		in["not_available"] = n != nil && !n.NotAvailable
		if r.Chance(0.5) {
			in["not_available"] = false
		}
	case 6:
		kind = "stake-pool-settings"
		in["stake_pool_settings"] = map[string]interface{}{"num_delegates": 5 + r.Intn(40), "service_charge": 0.05 * float64(r.Intn(8))}
	case 7:
		kind = "url"
		in["url"] = fmt.Sprintf("http://blobber-moved%d.verif:5051", st.next())
	case 8:
		kind = "delegate-wallet"
		newDel = h.stClient(r)
		in["stake_pool_settings"] = map[string]interface{}{"delegate_wallet": newDel.ID}
	}
	if h.stHostile(r, 0.6) {
		switch r.Intn(9) {
		case 0:
			mut, from = "stranger", h.stStranger(r)
		case 1:
			mut, from = "blobber-not-delegate", p.W
		case 2:
			mut = "capacity-below-allocated"
			in["capacity"] = []int64{allocated - 1, conf.MinBlobberCap + 1}[r.Intn(2)]
		case 3:
			mut = "capacity-at-min"
			in["capacity"] = conf.MinBlobberCap
		case 4:
			mut = "capacity-zero"
			in["capacity"] = []int64{0, -5}[r.Intn(2)]
		case 5:
			mut = "write-price-out-of-range"
			in["terms"] = map[string]interface{}{"write_price": []uint64{0, conf.MaxWritePrice + 1}[r.Intn(2)]}
		case 6:
			mut = "url-taken"
			if len(list) > 1 {
				in["url"] = list[(r.Intn(len(list)-1)+1)%len(list)].URL
			}
		case 7:
			mut = "unknown-blobber"
			in["id"] = stUnknownID(r)
		case 8:
			mut = "validator-id"
			if vs := st.registered(st.Validators); len(vs) > 0 {
				in["id"] = vs[0].W.ID
				from = vs[0].Del
			}
		}
		if mut != "" {
			newDel = nil
		}
	}
	if h.stHostile(r, 0.12) {
		if m := h.stAnyMinerID(r); m != nil {
			mut, in["id"] = "miner-id-as-blobber", m.ID
		}
	}
	c := stCall(h, r, "update_blobber_settings", from, in, 0)
	c.Mut = mut
	stProvMeta(c, p)
	c.Meta["kind"] = kind
	c.After = func(h *Hist, o *TxnObs) {
		if o.Outcome != "success" || in["id"] != p.W.ID {
			return
		}
		if newDel != nil {
			p.Del = newDel
		}
		if u, ok := in["url"].(string); ok {
			p.URL = u
		}
	}
	return c
}

func stUpdateValidator(h *Hist, r *mon.Rand) *Call {
	st := h.S.St
	list := st.registered(st.Validators)
	if len(list) == 0 {
		return nil
	}
	p := list[r.Intn(len(list))]
	from := p.Del
	in := map[string]interface{}{"id": p.W.ID}
	switch r.Intn(6) {
	case 0:
		in["url"] = fmt.Sprintf("http://validator-moved%d.verif:5051", st.next()) // the old url key only exists after the demeter fork
	case 1, 3, 4:
		in["stake_pool_settings"] = map[string]interface{}{"num_delegates": 3 + r.Intn(40), "service_charge": 0.05 * float64(r.Intn(8))}
	case 2:
		in["stake_pool_settings"] = map[string]interface{}{"service_charge": 0.01 * float64(r.Intn(40))}
	}
	mut := ""
	if h.stHostile(r, 0.6) {
		switch r.Intn(5) {
		case 0:
			mut, from = "stranger", h.stStranger(r)
		case 1:
			mut, from = "validator-not-delegate", p.W
		case 2:
			mut = "service-charge-above-max"
			in["stake_pool_settings"] = map[string]interface{}{"service_charge": 0.9}
		case 3:
			mut = "unknown-validator"
			in["id"] = stUnknownID(r)
		case 4:
			mut = "blobber-id"
			if bs := st.registered(st.Blobbers); len(bs) > 0 {
				in["id"] = bs[0].W.ID
				from = bs[0].Del
			}
		}
	}
	c := stCall(h, r, "update_validator_settings", from, in, 0)
	c.Mut = mut
	stProvMeta(c, p)
	c.After = func(h *Hist, o *TxnObs) {
		if u, ok := in["url"].(string); ok && o.Outcome == "success" && in["id"] == p.W.ID {
			p.URL = u
		}
	}
	return c
}

// ---- stake pools -----------------------------------------------------------------------------------------------------------------

func (h *Hist) stAnyProvider(r *mon.Rand, wantLive bool) *stProv {
	st := h.S.St
	all := append(st.registered(st.Blobbers), st.registered(st.Validators)...)
	if wantLive {
		all = append(st.live(st.Blobbers), st.live(st.Validators)...)
	}
	if len(all) == 0 {
		return nil
	}
	// providers nobody has staked on come first: without stake a blobber cannot take allocations
	for _, p := range all {
		if len(p.Stakers) == 0 && p.Dead == "" && r.Chance(0.7) {
			return p
		}
	}
	return all[r.Intn(len(all))]
}

func stStakeLock(h *Hist, r *mon.Rand) *Call {
	conf := h.stConf()
	p := h.stAnyProvider(r, !h.stHostile(r, 0.3))
	if p == nil {
		return nil
	}
	from := h.stClient(r)
	if r.Chance(0.35) {
		from = p.Del
	}
	vals := []uint64{conf.MinStake, 1e10, 1e11, 1e12, 5e12, 1e13}
	if p.Kind == "validator" {
		vals = []uint64{conf.MinStake, 1e9, 1e10, 1e11}
	}
	val := vals[r.Intn(len(vals))]
	in := stStakeInput(p)
	mut := ""
	if p.Dead != "" {
		mut = "dead-provider"
	}
	if h.stHostile(r, 0.6) {
		bal, _ := h.Bal(h.Cur, from.ID)
		switch r.Intn(8) {
		case 0:
			mut, val = "value-0", 0
		case 1:
			mut, val = "value-1", 1
		case 2:
			mut, val = "below-min-stake", conf.MinStake-1
		case 3:
			mut, val = "value-above-balance", bal+1
		case 4:
			mut, val = "above-max-stake", conf.MaxStake+1
			from = h.W.Clients[0]
		case 5:
			mut = "unknown-provider"
			in["provider_id"] = stUnknownID(r)
		case 6:
			mut = "wrong-provider-type"
			in["provider_type"] = 7 - p.ptype() // 3 <-> 4
		case 7:
			mut = "miner-provider-type"
			in["provider_type"] = 1 + r.Intn(2)
		}
	}
	c := stCall(h, r, "stake_pool_lock", from, in, val)
	c.Mut = mut
	stProvMeta(c, p)
	c.After = func(h *Hist, o *TxnObs) {
		if o.Outcome == "success" && in["provider_id"] == p.W.ID && in["provider_type"] == p.ptype() {
			for _, s := range p.Stakers {
				if s == from {
					return
				}
			}
			p.Stakers = append(p.Stakers, from)
		}
	}
	return c
}

func stStakeUnlock(h *Hist, r *mon.Rand) *Call {
	st := h.S.St
	var cands []*stProv
	for _, p := range append(st.registered(st.Blobbers), st.registered(st.Validators)...) {
		if len(p.Stakers) > 1 || (len(p.Stakers) == 1 && (p.Dead != "" || r.Chance(0.15))) {
			cands = append(cands, p)
		}
	}
	mut := ""
	var p *stProv
	var from *world.Wallet
	if len(cands) == 0 || h.stHostile(r, 0.3) {
		p = h.stAnyProvider(r, false)
		if p == nil {
			return nil
		}
		from = h.stStranger(r)
		mut = "not-a-staker"
		for _, s := range p.Stakers {
			if s == from {
				mut = ""
			}
		}
	} else {
		p = cands[r.Intn(len(cands))]
		from = p.Stakers[r.Intn(len(p.Stakers))]
	}
	in := stStakeInput(p)
	if mut == "" && h.stHostile(r, 0.3) {
		mut = "wrong-provider-type"
		in["provider_type"] = 7 - p.ptype()
	}
	c := stCall(h, r, "stake_pool_unlock", from, in, 0)
	c.Mut = mut
	stProvMeta(c, p)
	c.After = func(h *Hist, o *TxnObs) {
		if o.Outcome == "success" && in["provider_type"] == p.ptype() {
			for i, s := range p.Stakers {
				if s == from {
					p.Stakers = append(p.Stakers[:i], p.Stakers[i+1:]...)
					break
				}
			}
		}
	}
	return c
}

func stCollectReward(h *Hist, r *mon.Rand) *Call {
	st := h.S.St
	all := append(st.registered(st.Blobbers), st.registered(st.Validators)...)
	if len(all) == 0 {
		return nil
	}
	p := all[r.Intn(len(all))]
	// look for somebody who actually has something to collect
	var from *world.Wallet
	for _, q := range stShuffled(r, all) {
		sp := h.stSP(q.Kind, q.W.ID)
		if sp == nil {
			continue
		}
		if sp.Rewards > 0 {
			if w := h.W.Wallets[sp.Settings.DelegateWallet]; w != nil {
				p, from = q, w
				break
			}
		}
		var ids []string
		for id := range sp.Pools {
			ids = append(ids, id)
		}
		sort.Strings(ids)
		for _, id := range ids {
			if w := h.W.Wallets[id]; w != nil && sp.Pools[id].Reward > 0 && from == nil {
				p, from = q, w
			}
		}
		if from != nil {
			break
		}
	}
	if from == nil {
		from = p.Del
		if len(p.Stakers) > 0 && r.Chance(0.6) {
			from = p.Stakers[r.Intn(len(p.Stakers))]
		}
	}
	in := map[string]interface{}{"provider_id": p.W.ID, "provider_type": p.ptype()}
	mut := ""
	if h.stHostile(r, 0.5) {
		switch r.Intn(4) {
		case 0:
			mut, from = "stranger", h.stStranger(r)
		case 1:
			mut = "empty-provider-id"
			in["provider_id"] = ""
		case 2:
			mut = "unknown-provider"
			in["provider_id"] = stUnknownID(r) + "x"
		case 3:
			mut = "wrong-provider-type"
			in["provider_type"] = 7 - p.ptype()
		}
	}
	c := stCall(h, r, "collect_reward", from, in, 0)
	c.Mut = mut
	stProvMeta(c, p)
	return c
}

// ---- kill / shut down ----------------------------------------------------------------------------------------------------------

func stKillOrShutdown(h *Hist, r *mon.Rand, fn, kind string) *Call {
	st := h.S.St
	list := st.Blobbers
	min := 5
	if kind == "validator" {
		list = st.Validators
	}
	live := st.live(list)
	if kind == "validator" { // challenges need validators_per_challenge healthy validators with stake
		var staked []*stProv
		for _, q := range live {
			if len(q.Stakers) > 0 {
				staked = append(staked, q)
			}
		}
		if len(staked) <= h.stConf().ValidatorsPerChallenge {
			live = nil
		}
		min = 4
	}
	var p *stProv
	mut := ""
	switch {
	case len(st.dead(list)) > 0 && (h.stHostile(r, 0.4) || (!st.NoHostile && r.Chance(0.2))):
		dd := st.dead(list)
		p, mut = dd[r.Intn(len(dd))], "already-dead"
		// mostly the other way of dying than the one it died of (kill after shutdown, shutdown after kill)
		if ksOther := ksDeadBy(dd, map[string]string{"kill": "shutdown", "shutdown": "killed"}[fn]); len(ksOther) > 0 && r.Chance(0.6) {
			p = ksOther[r.Intn(len(ksOther))]
		}
	case len(live) >= min || (len(live) > 0 && kind == "blobber" && h.stHostile(r, 0.3)):
		p = live[r.Intn(len(live))]
	default:
		return stAddProvider(h, r, kind) // keep the population alive instead
	}
	from := h.W.Owner
	if fn == "shutdown" && r.Chance(0.5) {
		from = p.Del
		if sp := h.stSP(kind, p.W.ID); sp != nil {
			if w := h.W.Wallets[sp.Settings.DelegateWallet]; w != nil {
				from = w
			}
		}
	}
	in := map[string]interface{}{"provider_id": p.W.ID}
	if h.stHostile(r, 0.6) {
		switch r.Intn(5) {
		case 0:
			mut, from = "stranger", h.stStranger(r)
		case 1:
			mut, from = "provider-itself", p.W
		case 2:
			mut = "unknown-provider"
			in["provider_id"] = stUnknownID(r)
		case 3:
			mut = "other-kind-id"
			other := st.live(st.Validators)
			if kind == "validator" {
				other = st.live(st.Blobbers)
			}
			if len(other) > 0 {
				in["provider_id"] = other[0].W.ID
			}
		case 4:
			if fn == "kill" {
				mut, from = "delegate-kills", p.Del
			}
		}
	}
	if h.stHostile(r, 0.12) {
		if m := h.stAnyMinerID(r); m != nil {
			mut, in["provider_id"] = "miner-id-as-blobber", m.ID
		}
	}
	c := stCall(h, r, fn+"_"+kind, from, in, 0)
	c.Mut = mut
	stProvMeta(c, p)
	c.Meta["provider_id"] = in["provider_id"]
	c.After = func(h *Hist, o *TxnObs) {
		if o.Outcome == "success" && in["provider_id"] == p.W.ID && p.Dead == "" {
			p.Dead = map[string]string{"kill": "killed", "shutdown": "shutdown"}[fn]
		}
	}
	return c
}

func stProviderOps() []OpDef {
	return []OpDef{
		{Name: "storage.add_blobber", Tags: []string{"storage", "blobber", "C13"}, Build: func(h *Hist, r *mon.Rand) *Call { return stAddProvider(h, r, "blobber") }},
		{Name: "storage.add_validator", Tags: []string{"storage", "blobber", "challenge"}, Build: func(h *Hist, r *mon.Rand) *Call { return stAddProvider(h, r, "validator") }},
		{Name: "storage.blobber_health_check", Tags: []string{"storage", "blobber"}, Build: func(h *Hist, r *mon.Rand) *Call { return stHealthCheck(h, r, "blobber") }},
		{Name: "storage.validator_health_check", Tags: []string{"storage", "blobber", "challenge"}, Build: func(h *Hist, r *mon.Rand) *Call { return stHealthCheck(h, r, "validator") }},
		{Name: "storage.update_blobber_settings", Tags: []string{"storage", "blobber", "C13"}, Build: stUpdateBlobber},
		{Name: "storage.update_validator_settings", Tags: []string{"storage", "blobber"}, Build: stUpdateValidator},
		{Name: "storage.stake_pool_lock", Tags: []string{"storage", "stake", "C13"}, Build: stStakeLock},
		{Name: "storage.stake_pool_unlock", Tags: []string{"storage", "stake", "C13", "C23"}, Build: stStakeUnlock},
		{Name: "storage.collect_reward", Tags: []string{"storage", "stake", "C15"}, Build: stCollectReward},
		{Name: "storage.kill_blobber", Tags: []string{"storage", "kill", "C23"}, Build: func(h *Hist, r *mon.Rand) *Call {
			if r.Chance(0.5) {
				return nil
			}
			return stKillOrShutdown(h, r, "kill", "blobber")
		}},
		{Name: "storage.kill_validator", Tags: []string{"storage", "kill", "C23"}, Build: func(h *Hist, r *mon.Rand) *Call {
			if r.Chance(0.5) {
				return nil
			}
			return stKillOrShutdown(h, r, "kill", "validator")
		}},
		{Name: "storage.shutdown_blobber", Tags: []string{"storage", "kill", "C23"}, Build: func(h *Hist, r *mon.Rand) *Call {
			if r.Chance(0.5) {
				return nil
			}
			return stKillOrShutdown(h, r, "shutdown", "blobber")
		}},
		{Name: "storage.shutdown_validator", Tags: []string{"storage", "kill", "C23"}, Build: func(h *Hist, r *mon.Rand) *Call {
			if r.Chance(0.5) {
				return nil
			}
			return stKillOrShutdown(h, r, "shutdown", "validator")
		}},
	}
}

// ---- governance --------------------------------------------------------------------------------------------------------------

var stSettingChoices = []struct {
	K string
	V []string
}{
	{"max_read_price", []string{"7", "10", "5"}},
	{"min_write_price", []string{"0.001", "0.0001"}},
	{"cancellation_charge", []string{"0.2", "0.1", "0.5", "0"}},
	{"validator_reward", []string{"0.025", "0.05", "0.1"}},
	{"blobber_slash", []string{"0.1", "0.2", "0"}},
	{"readpool.min_lock", []string{"0", "0.01"}},
	{"writepool.min_lock", []string{"0.1", "0.05"}},
	{"max_delegates", []string{"200", "100"}},
	{"max_challenge_completion_rounds", []string{"1200", "20", "8", "3"}},
	{"cost.read_redeem", []string{"664", "700"}},
	{"free_allocation_settings.size", []string{"10000000", "5000000", "2000000"}},
	{"free_allocation_settings.read_pool_fraction", []string{"0", "0.1", "0.5"}},
	{"max_individual_free_allocation", []string{"100", "50"}},
	{"stakepool.kill_slash", []string{"0.5", "0.25", "0"}},
	{"challenge_generation_gap", []string{"3", "1"}},
	{"validators_per_challenge", []string{"3", "2"}},
	{"num_validators_rewarded", []string{"10", "1", "2"}},
	{"max_charge", []string{"0.5", "0.4"}},
	{"min_alloc_size", []string{"1048576", "65536"}},
}

var stBadSettings = []struct{ K, V, Why string }{
	{"no_such_key", "1", "unknown-key"},
	{"max_read_price", "abc", "unparsable"},
	{"max_delegates", "1.5", "unparsable"},
	{"time_unit", "10", "unparsable"},
	{"validator_reward", "1.5", "fails-validate-on-commit"},
	{"blobber_slash", "-0.5", "fails-validate-on-commit"},
	{"max_delegates", "0", "fails-validate-on-commit"},
	{"cost.no_such_function", "5", "unknown-key"},
}

func stUpdateSettings(h *Hist, r *mon.Rand) *Call {
	st := h.S.St
	f := map[string]string{}
	mut := ""
	from := h.W.Owner
	// repair a staged value that blocks commit_settings_changes
	for _, b := range stBadSettings {
		if b.Why == "fails-validate-on-commit" && st.Pending[b.K] == b.V && r.Chance(0.8) {
			for _, ch := range stSettingChoices {
				if ch.K == b.K {
					f[b.K] = ch.V[0]
				}
			}
		}
	}
	if len(f) == 0 {
		for n := 1 + r.Intn(2); n > 0; n-- {
			ch := stSettingChoices[r.Intn(len(stSettingChoices))]
			f[ch.K] = ch.V[r.Intn(len(ch.V))]
		}
		if r.Chance(0.2) {
			// keys that differ only by surrounding whitespace name the same setting once trimmed; with different values the
			// stored configuration (or the reported error) must still be the same on every node. The plain spelling may also
			// already be pending from an earlier call.
			ch := stSettingChoices[r.Intn(len(stSettingChoices))]
			if len(ch.V) >= 2 {
				pads := []string{" " + ch.K, ch.K + " ", "\t" + ch.K, ch.K + "\n", "  " + ch.K + " "}
				i := r.Intn(len(ch.V))
				f = map[string]string{pads[r.Intn(len(pads))]: ch.V[i]}
				if r.Chance(0.6) {
					f[ch.K] = ch.V[(i+1)%len(ch.V)]
				}
				if r.Chance(0.3) {
					f[pads[r.Intn(len(pads))]] = ch.V[(i+1)%len(ch.V)]
				}
				if r.Chance(0.2) {
					b := stBadSettings[r.Intn(2)+1] // an unparsable value next to them: the reported error must not depend on order either
					f[" "+b.K] = b.V
					f[b.K+" "] = "also-" + b.V
				}
				mut = "padded-duplicate-keys"
			}
		} else if h.stHostile(r, 0.6) {
			switch r.Intn(3) {
			case 0:
				mut, from = "stranger", h.stStranger(r)
			case 1:
				b := stBadSettings[r.Intn(len(stBadSettings))]
				f = map[string]string{b.K: b.V}
				mut = b.Why
			case 2:
				mut, f = "no-fields", map[string]string{}
			}
		}
	}
	c := stCall(h, r, "update_settings", from, map[string]interface{}{"fields": f}, 0)
	c.Mut = mut
	c.Meta["fields"] = f
	c.After = func(h *Hist, o *TxnObs) {
		if o.Outcome == "success" {
			for k, v := range f {
				st.Pending[k] = v
			}
		}
	}
	return c
}

func stCommitSettings(h *Hist, r *mon.Rand) *Call {
	from := h.W.Miners[int(h.stExecRound())%len(h.W.Miners)]
	mut := ""
	if r.Chance(0.3) {
		from = h.anyWallet(r) // the function is not restricted
		mut = "any-caller"
	}
	c := stCall(h, r, "commit_settings_changes", from, map[string]interface{}{}, 0)
	c.Mut = mut
	return c
}

func stResetBlobberStats(h *Hist, r *mon.Rand) *Call {
	st := h.S.St
	list := st.registered(st.Blobbers)
	if len(list) == 0 {
		return nil
	}
	p := list[r.Intn(len(list))]
	var offers uint64
	if sp := h.stSP("blobber", p.W.ID); sp != nil {
		offers = sp.TotalOffers
	}
	in := map[string]interface{}{"blobber_id": p.W.ID, "prev_total_offers": offers, "new_total_offers": offers}
	from := h.W.Owner
	mut := ""
	if h.stHostile(r, 0.7) {
		switch r.Intn(3) {
		case 0:
			mut, from = "stranger", h.stStranger(r)
		case 1:
			mut = "prev-mismatch"
			in["prev_total_offers"] = offers + 1
		case 2:
			mut = "unknown-blobber"
			in["blobber_id"] = stUnknownID(r)
		}
	}
	c := stCall(h, r, "reset_blobber_stats", from, in, 0)
	c.Mut = mut
	stProvMeta(c, p)
	return c
}

func stResetAllocStats(h *Hist, r *mon.Rand) *Call {
	_, _, id, mut := h.stAllocTarget(r, 0.3)
	if id == "" && mut == "" {
		return nil
	}
	c := stCall(h, r, "reset_allocation_stats", h.anyWallet(r), id, 0) // input is a bare JSON string
	c.Mut = mut
	c.Meta["alloc"] = id
	return c
}

func stGovOps() []OpDef {
	half := func(f func(h *Hist, r *mon.Rand) *Call) func(h *Hist, r *mon.Rand) *Call {
		return func(h *Hist, r *mon.Rand) *Call {
			if r.Chance(0.5) {
				return nil
			}
			return f(h, r)
		}
	}
	return []OpDef{
		{Name: "storage.update_settings", Tags: []string{"storage", "gov"}, Build: half(stUpdateSettings)},
		{Name: "storage.commit_settings_changes", Tags: []string{"storage", "gov"}, Build: half(stCommitSettings)},
		{Name: "storage.reset_blobber_stats", Tags: []string{"storage", "gov"}, Build: half(stResetBlobberStats)},
		{Name: "storage.reset_allocation_stats", Tags: []string{"storage", "gov"}, Build: half(stResetAllocStats)},
	}
}
