package schist

import (
	"context"
	"fmt"
	"strings"

	"0chain.net/chaincore/transaction"
	"0chain.net/core/config"
	"0chain.net/smartcontract/faucetsc"

	"verifh/mon"
	"verifh/world"
)

// Shadow is what the workload generator remembers about the entities it created (ids, counters, keys).
// It is only used to build *inputs*; no oracle reads it unless stated.
type Shadow struct {
	h        *Hist
	Accepted []*transaction.Transaction // applied txns (for replay attempts)
	Extra    []*world.Wallet            // wallets created during the history (unfunded strangers)
	St       *storageShadow
	Mn       *minerShadow
	Vs       *vestingShadow
	Zc       *zcnShadow
	Ms       *multisigShadow
}

func newShadow(h *Hist) *Shadow {
	s := &Shadow{h: h}
	for i := 0; i < 2; i++ {
		s.Extra = append(s.Extra, h.W.AddWallet(fmt.Sprintf("stranger%d", i)))
		h.Names[s.Extra[i].ID] = s.Extra[i].Name
	}
	s.St = newStorageShadow()
	s.Mn = newMinerShadow()
	s.Vs = newVestingShadow()
	s.Zc = newZcnShadow()
	s.Ms = newMultisigShadow()
	return s
}

// StorageOwnerID is the configured owner of the storage contract (the harness owner wallet).
func (s *Shadow) StorageOwnerID() string { return s.h.W.Owner.ID }

func (h *Hist) anyClient(r *mon.Rand) *world.Wallet { return h.W.Clients[r.Intn(len(h.W.Clients))] }

func (h *Hist) anyWallet(r *mon.Rand) *world.Wallet {
	switch r.Intn(10) {
	case 0:
		return h.W.Owner
	case 1:
		return h.S.Extra[r.Intn(len(h.S.Extra))]
	case 2:
		return h.W.Miners[r.Intn(len(h.W.Miners))]
	default:
		return h.anyClient(r)
	}
}

// interesting amounts relative to a balance
func (h *Hist) amount(r *mon.Rand, bal uint64) uint64 {
	max := uint64(config.MaxTokenSupply)
	c := []uint64{0, 1, 2, 1000, 1e10, bal / 2, bal - 1, bal, bal + 1, max - 1, max, max + 1, 1 << 63, (1 << 63) - 1, ^uint64(0), ^uint64(0) - 1}
	if r.Chance(0.6) {
		return 1 + r.U64()%(1e12)
	}
	return c[r.Intn(len(c))]
}

func (h *Hist) fee(r *mon.Rand) uint64 {
	if h.Focus == "C22" && r.Chance(0.45) {
		// blocks whose total fees are a handful of units: the miner / sharder / delegate parts are then smaller than the number of
		// recipients and only the remainder handling decides where the tokens go
		return uint64(r.Intn(4))
	}
	switch r.Intn(8) {
	case 0:
		return 0
	case 1:
		return 1
	case 2:
		return 1e10
	default:
		return uint64(r.Intn(1e6))
	}
}

func basicOps() []OpDef {
	return []OpDef{
		{Name: "send", Tags: []string{"core"}, Build: func(h *Hist, r *mon.Rand) *Call {
			from := h.anyWallet(r)
			to := h.anyWallet(r)
			bal, _ := h.Bal(h.Cur, from.ID)
			c := &Call{Name: "send", Spec: world.TxnSpec{From: from, To: to.ID, Value: Coin(h.amount(r, bal)), Fee: Coin(h.fee(r)), Type: transaction.TxnTypeSend}}
			if r.Chance(0.1) {
				c.Spec.To = world.SCAddresses["faucet"] // plain send to a contract wallet
			}
			if r.Chance(0.05) {
				c.Spec.To = "not-a-hash"
				c.Mut = "bad-recipient"
			}
			if r.Chance(0.06) {
				c.Spec.To = strings.ToUpper(to.ID[:8]) + to.ID[8:] // another spelling of the same hex id
				c.Mut = "recipient-hex-case"
			}
			if c.Mut == "" && r.Chance(0.06) {
				rspRespellSender(h, r, c, r.Chance(0.5))
			}
			return c
		}},
		rspOp("send"), rspOp("send"), rspOp("sc"),
		{Name: "data", Tags: []string{"core"}, Build: func(h *Hist, r *mon.Rand) *Call {
			from := h.anyWallet(r)
			return &Call{Name: "data", Spec: world.TxnSpec{From: from, To: "", Value: Coin(h.amount(r, 0) % 3), Fee: Coin(h.fee(r)), Type: transaction.TxnTypeData, Data: fmt.Sprintf("payload-%d", r.Intn(1000))}}
		}},
		{Name: "bad-type", Tags: []string{"core"}, Build: func(h *Hist, r *mon.Rand) *Call {
			from := h.anyWallet(r)
			return &Call{Name: "bad-type", Mut: "txn-type", Spec: world.TxnSpec{From: from, To: h.anyWallet(r).ID, Value: 5, Fee: Coin(h.fee(r)), Type: 77}}
		}},
		{Name: "sc.unknown-address", Tags: []string{"core"}, Build: func(h *Hist, r *mon.Rand) *Call {
			from := h.anyWallet(r)
			return &Call{Name: "sc.unknown-address", Mut: "bad-sc", Spec: world.TxnSpec{From: from, To: h.anyWallet(r).ID, Value: Coin(r.Intn(100)), Fee: Coin(h.fee(r)), Type: transaction.TxnTypeSmartContract, Func: "pour", Input: map[string]string{}}}
		}},
		{Name: "absent-sender", Tags: []string{"core", "C03"}, Build: func(h *Hist, r *mon.Rand) *Call {
			// a wallet that has no entry in the state trie yet (never funded, never transacted) sends a transaction it can pay with
			// a zero balance; its first applied transaction must carry nonce 1 like everybody's. The wallet is remembered, so later
			// calls walk it through nonces ahead / in order / replays.
			fresh, _ := h.Vars["absent_senders"].([]*world.Wallet)
			var from *world.Wallet
			if len(fresh) > 0 && r.Chance(0.6) {
				from = fresh[r.Intn(len(fresh))]
			} else {
				from = h.W.AddWallet(fmt.Sprintf("%s-absent%d", h.ID, len(fresh)))
				h.Names[from.ID] = from.Name
				fresh = append(fresh, from)
				h.Vars["absent_senders"] = fresh
			}
			var c *Call
			switch r.Intn(3) {
			case 0:
				c = &Call{Name: "data", Spec: world.TxnSpec{From: from, To: "", Fee: 0, Type: transaction.TxnTypeData, Data: fmt.Sprintf("absent-%d", r.Intn(1000))}}
			case 1:
				c = &Call{Name: "faucet.pour", Spec: world.TxnSpec{From: from, To: faucetsc.ADDRESS, Fee: 0, Type: transaction.TxnTypeSmartContract, Func: "pour", Input: map[string]string{}}}
			default:
				c = &Call{Name: "send", Spec: world.TxnSpec{From: from, To: h.anyClient(r).ID, Value: 0, Fee: 0, Type: transaction.TxnTypeSend}}
			}
			ref := h.RefNonce[from.ID]
			c.Mut = "absent-sender"
			if r.Chance(0.6) {
				c.Spec.Nonce = ref + []int64{2, 3, 5, 1 << 40}[r.Intn(4)]
				c.Mut = "absent-sender-nonce-ahead"
			}
			return c
		}},
		{Name: "sc.unknown-function", Tags: []string{"core"}, Build: func(h *Hist, r *mon.Rand) *Call {
			from := h.anyWallet(r)
			names := []string{"faucet", "miner", "storage", "vesting", "zcn", "multisig"}
			return &Call{Name: "sc.unknown-function", Mut: "bad-fn", Spec: world.TxnSpec{From: from, To: world.SCAddresses[names[r.Intn(len(names))]], Value: Coin(r.Intn(100)), Fee: Coin(h.fee(r)), Type: transaction.TxnTypeSmartContract, Func: "no_such_function", Input: map[string]string{}}}
		}},
		{Name: "probe.run", Tags: []string{"core", "probe", "C04"}, Build: func(h *Hist, r *mon.Rand) *Call {
			from := h.anyWallet(r)
			bal, _ := h.Bal(h.Cur, world.ProbeAddress)
			n := 1 + r.Intn(5)
			var steps []world.ProbeStep
			targets := []string{h.anyWallet(r).ID, h.anyWallet(r).ID, world.ProbeAddress, from.ID, world.SCAddresses["faucet"], world.SCAddresses["miner"]}
			big := []uint64{1 << 63, 1<<63 + 40, 1<<64 - 1, 1<<64 - 7, uint64(config.MaxTokenSupply), uint64(config.MaxTokenSupply) + 1, bal, bal + 1}
			value := uint64(0)
			for i := 0; i < n; i++ {
				st := world.ProbeStep{From: "sc", To: targets[r.Intn(len(targets))], Amount: 1 + r.U64()%1e9}
				switch r.Intn(8) {
				case 0:
					st.Amount = big[r.Intn(len(big))]
				case 1:
					st.Amount = 0
				case 2:
					st.From = "sender"
					value += st.Amount
				}
				if i > 0 && r.Chance(0.35) {
					// the same pair again, right after the previous one (payouts are often queued per pool)
					st.From, st.To = steps[i-1].From, steps[i-1].To
					if st.From == "sender" {
						value += st.Amount
					}
					if r.Chance(0.4) {
						st.Amount = ^uint64(0) - steps[i-1].Amount + 1 + uint64(r.Intn(50)) // the two sum to 2^64 + small
						if st.From == "sender" {
							st.From = "sc"
						}
					}
				}
				steps = append(steps, st)
			}
			mut := ""
			dependent := false
			if r.Chance(0.25) {
				// a transfer that only a LATER transfer of the same transaction would fund: sender -> probe x, probe -> third party
				// (probe balance + x + d), sender -> probe y with d <= y. In queue order the middle transfer exceeds its source's
				// balance at its turn; in any other order (or with the two sender transfers folded) it would be covered.
				x, y := 1+r.U64()%1e6, 1+r.U64()%1e6
				d := 1 + r.U64()%y
				third := h.anyWallet(r).ID
				if third == from.ID {
					third = world.SCAddresses["faucet"]
				}
				steps = []world.ProbeStep{{From: "sender", To: world.ProbeAddress, Amount: x}, {From: "sc", To: third, Amount: bal + x + d}, {From: "sender", To: world.ProbeAddress, Amount: y}}
				value = x + y
				if r.Chance(0.3) {
					// control: the funding transfer comes first, the same three transfers are covered
					steps[1], steps[2] = steps[2], steps[1]
				}
				if r.Chance(0.3) {
					steps = append([]world.ProbeStep{{From: "sc", To: h.anyWallet(r).ID, Amount: 1 + r.U64()%1e6}}, steps...)
					steps[2].Amount -= steps[0].Amount // the probe wallet is lower by then
					if steps[2].From != "sc" {
						steps[2].Amount += steps[0].Amount
						steps[3].Amount -= steps[0].Amount
					}
				}
				dependent = true
				mut = "dependent-transfer"
			}
			in := world.ProbeInput{Steps: steps, ThenFail: !dependent && r.Chance(0.2)}
			if in.ThenFail {
				mut = "fail-after-transfers"
			}
			if !dependent && r.Chance(0.1) {
				steps[0].To = "not-a-hash"
				mut = "bad-recipient"
			}
			return &Call{Name: "probe.run", Mut: mut, Meta: map[string]interface{}{"probe_steps": steps}, Spec: world.TxnSpec{From: from, To: world.ProbeAddress, Value: Coin(value), Fee: Coin(h.fee(r) % 1000), Type: transaction.TxnTypeSmartContract, Func: "run", Input: in}}
		}},
		{Name: "probe.parts", Tags: []string{"core", "probe", "C07", "C02", "C06"}, Build: func(h *Hist, r *mon.Rand) *Call {
			// the real partitions library on the real state context: adds beyond the partition size (packed partitions become their
			// own cacheable trie nodes), updates and removals of items in packed and last partitions, objects mutated and not saved,
			// failures after the work
			from := h.anyWallet(r)
			list := r.Intn(len(world.ProbePartSizes))
			n := 1 + r.Intn(6)
			var steps []world.ProbePartStep
			id := func() string { return fmt.Sprintf("k%02d", r.Intn(4*world.ProbePartSizes[list]+2)) }
			for i := 0; i < n; i++ {
				op := []string{"add", "add", "add", "update", "update", "remove", "get", "exist", "size"}[r.Intn(9)]
				steps = append(steps, world.ProbePartStep{Op: op, ID: id(), Data: fmt.Sprintf("v%d-%d", h.Round, r.Intn(1000))})
			}
			in := world.ProbePartsInput{List: list, Steps: steps, ThenFail: r.Chance(0.3)}
			in.SkipSave = in.ThenFail && r.Chance(0.5) // a successful call always saves (not saving is a misuse of the library)
			mut := ""
			if in.SkipSave {
				mut = "mutate-without-save"
			}
			if in.ThenFail {
				mut += "+fail-after-work"
			}
			return &Call{Name: "probe.parts", Mut: mut, Spec: world.TxnSpec{From: from, To: world.ProbeAddress, Fee: Coin(h.fee(r) % 1000), Type: transaction.TxnTypeSmartContract, Func: "parts", Input: in}}
		}},
		{Name: "faucet.pour", Tags: []string{"faucet", "C17"}, Build: func(h *Hist, r *mon.Rand) *Call {
			from := h.anyWallet(r)
			v := uint64(0)
			if r.Chance(0.7) {
				opts := []uint64{1, 1e10 - 1, 1e10, 1e10 + 1, 5e10, 1e11 - 1, 1e11, 1e11 + 1, 1e12, uint64(r.Intn(1e9)) * 1000}
				v = opts[r.Intn(len(opts))]
			}
			return &Call{Name: "faucet.pour", Spec: world.TxnSpec{From: from, To: faucetsc.ADDRESS, Value: Coin(v), Fee: Coin(h.fee(r) % 1000), Type: transaction.TxnTypeSmartContract, Func: "pour", Input: map[string]string{}}}
		}},
		{Name: "faucet.refill", Tags: []string{"faucet"}, Build: func(h *Hist, r *mon.Rand) *Call {
			from := h.anyWallet(r)
			bal, _ := h.Bal(h.Cur, from.ID)
			return &Call{Name: "faucet.refill", Spec: world.TxnSpec{From: from, To: faucetsc.ADDRESS, Value: Coin(h.amount(r, bal)), Fee: Coin(h.fee(r) % 1000), Type: transaction.TxnTypeSmartContract, Func: "refill", Input: map[string]string{}}}
		}},
	}
}

// ---- another spelling of the SENDER id -------------------------------------------------------------------------------------------
//
// Client ids are hex strings; the state trie branches on hex digits, so "AB12.." and "ab12.." can name the same balance leaf
// while every map keyed by the id string treats them as two accounts. The only thing that pins a sender to the canonical
// (lower-case) spelling is the admission check id == hash(public key). These calls carry the wallet's own key and a valid
// signature over the respelled id; they go through the real admission checks first (Meta["admission"], see Hist.Submit):
// a transaction is applied only if a node would have let it into a block.

// rspAdmit are the checks every node runs on a received transaction and on the transactions of a received block before
// Chain.UpdateState sees them.
func rspAdmit(h *Hist) func(t *transaction.Transaction) error {
	return func(t *transaction.Transaction) error {
		if err := t.ComputeProperties(); err != nil {
			return err
		}
		return t.ValidateWrtTime(context.Background(), h.W.Now)
	}
}

// rspUpper upper-cases the hex letters among the first n characters of an id.
func rspUpper(id string, n int) string {
	if n > len(id) {
		n = len(id)
	}
	return strings.ToUpper(id[:n]) + id[n:]
}

// rspRespellSender turns a built call into the same call sent under another spelling of the sender's own id (hash and
// signature are recomputed over the respelled id with the wallet's own key). toSelf: the recipient becomes the canonical id.
func rspRespellSender(h *Hist, r *mon.Rand, c *Call, toSelf bool) bool {
	from := c.Spec.From
	n := []int{1, 1, 2, 2, 3, 8, 64}[r.Intn(7)]
	alias := rspUpper(from.ID, n)
	if alias == from.ID {
		if alias = rspUpper(from.ID, 64); alias == from.ID {
			return false
		}
	}
	if toSelf {
		c.Spec.To = from.ID
	}
	if c.Meta == nil {
		c.Meta = map[string]interface{}{}
	}
	c.Mut = "sender-hex-case"
	c.Meta["sender_alias"] = alias
	c.Meta["admission"] = rspAdmit(h)
	c.Meta["post_sign"] = func(t *transaction.Transaction) {
		t.ClientID = alias
		t.Hash = t.ComputeHash()
		t.Signature = from.Sign(t.Hash)
	}
	prev := c.After
	c.After = func(h *Hist, o *TxnObs) {
		if o.Outcome != "rejected" {
			// the generator's nonce memory follows the account (one trie leaf), not the spelling
			h.RefNonce[from.ID] += h.RefNonce[alias]
			delete(h.RefNonce, alias)
		}
		if prev != nil {
			prev(h, o)
		}
	}
	return true
}

// rspOp builds sends ("send") or contract calls ("sc") from a respelled sender id: to the wallet's own canonical id, to another
// wallet, to a contract.
func rspOp(kind string) OpDef {
	return OpDef{Name: "respelled-sender." + kind, Tags: []string{"core"}, Build: func(h *Hist, r *mon.Rand) *Call {
		// a funded wallet whose id starts with a hex letter (the first characters are the ones the trie branches on)
		var from *world.Wallet
		for i := 0; i < 16; i++ {
			w := h.anyWallet(r)
			if bal, _ := h.Bal(h.Cur, w.ID); bal == 0 {
				continue
			}
			if rspUpper(w.ID, 1) != w.ID || (from == nil && rspUpper(w.ID, 3) != w.ID) {
				from = w
				if rspUpper(w.ID, 1) != w.ID {
					break
				}
			}
		}
		if from == nil {
			return nil
		}
		bal, _ := h.Bal(h.Cur, from.ID)
		v := 1 + r.U64()%(bal/8+1)
		if r.Chance(0.15) {
			v = h.amount(r, bal)
		}
		var c *Call
		toSelf := false
		if kind == "send" {
			c = &Call{Name: "send", Spec: world.TxnSpec{From: from, To: h.anyWallet(r).ID, Value: Coin(v), Fee: Coin(h.fee(r)), Type: transaction.TxnTypeSend}}
			toSelf = r.Chance(0.7)
		} else {
			switch r.Intn(3) {
			case 0:
				c = &Call{Name: "faucet.refill", Spec: world.TxnSpec{From: from, To: faucetsc.ADDRESS, Value: Coin(v), Fee: Coin(h.fee(r) % 1000), Type: transaction.TxnTypeSmartContract, Func: "refill", Input: map[string]string{}}}
			case 1:
				c = &Call{Name: "faucet.pour", Spec: world.TxnSpec{From: from, To: faucetsc.ADDRESS, Value: Coin([]uint64{0, 1, 1e10}[r.Intn(3)]), Fee: Coin(h.fee(r) % 1000), Type: transaction.TxnTypeSmartContract, Func: "pour", Input: map[string]string{}}}
			default:
				// the probe contract pays the canonical id / takes the sent value from the respelled one
				steps := []world.ProbeStep{{From: "sender", To: from.ID, Amount: v}, {From: "sc", To: from.ID, Amount: 1 + r.U64()%1e6}}
				if r.Chance(0.5) {
					steps = steps[:1]
				}
				c = &Call{Name: "probe.run", Meta: map[string]interface{}{"probe_steps": steps}, Spec: world.TxnSpec{From: from, To: world.ProbeAddress, Value: Coin(v), Fee: Coin(h.fee(r) % 1000), Type: transaction.TxnTypeSmartContract, Func: "run", Input: world.ProbeInput{Steps: steps}}}
			}
		}
		if !rspRespellSender(h, r, c, toSelf) {
			return nil
		}
		return c
	}}
}

// replayOp resubmits a previously applied signed transaction unchanged.
func replayOp() OpDef {
	return OpDef{Name: "replay", Tags: []string{"core", "C03"}, Build: func(h *Hist, r *mon.Rand) *Call {
		if len(h.S.Accepted) == 0 {
			return nil
		}
		old := h.S.Accepted[r.Intn(len(h.S.Accepted))]
		from := h.W.Wallets[old.ClientID]
		if from == nil {
			return nil
		}
		c := &Call{Name: "replay", Mut: "replay", Meta: map[string]interface{}{"replay_of": old.Hash}}
		c.Spec = world.TxnSpec{From: from, To: old.ToClientID, Value: old.Value, Fee: old.Fee, Nonce: old.Nonce, Type: old.TransactionType, Time: old.CreationDate}
		if old.TransactionType == transaction.TxnTypeSmartContract {
			c.Spec.Func = old.FunctionName
			c.Spec.RawInput = []byte(old.InputData)
		} else {
			c.Spec.Data = old.TransactionData
		}
		c.Meta["post_sign"] = func(t *transaction.Transaction) {
			// byte-identical resubmission of the signed transaction
			t.TransactionData = old.TransactionData
			t.Hash = old.Hash
			t.Signature = old.Signature
			_ = t.ComputeProperties()
		}
		return c
	}}
}

// mutateNonce applies a hostile nonce with probability p.
func mutateNonce(h *Hist, r *mon.Rand, c *Call, p float64) {
	if c.Spec.Nonce != 0 || !r.Chance(p) {
		return
	}
	ref := h.RefNonce[c.Spec.From.ID]
	opts := []int64{ref, ref - 1, ref + 2, ref + 3, ref + 11, -1, 1 << 62, -(1 << 62)}
	if ref != 0 {
		opts = append(opts, 0)
	}
	n := opts[r.Intn(len(opts))]
	if n == ref+1 {
		return
	}
	c.Spec.Nonce = n
	if n == 0 {
		c.Mut = "nonce-zero"
	} else if c.Mut == "" {
		c.Mut = "nonce"
	}
}

// hostile returns the hostile-mutation probability of this history (shared helper: do not redefine).
func (h *Hist) hostile() float64 {
	f, _ := h.Vars["hostile"].(float64)
	return f
}
