package schist

type storageShadow struct{}
type minerShadow struct{}
type vestingShadow struct{}
type zcnShadow struct{}
type multisigShadow struct{}

func newStorageShadow() *storageShadow   { return &storageShadow{} }
func newMinerShadow() *minerShadow       { return &minerShadow{} }
func newVestingShadow() *vestingShadow   { return &vestingShadow{} }
func newZcnShadow() *zcnShadow           { return &zcnShadow{} }
func newMultisigShadow() *multisigShadow { return &multisigShadow{} }

func minerOps() []OpDef    { return nil }
func vestingOps() []OpDef  { return nil }
func zcnOps() []OpDef      { return nil }
func multisigOps() []OpDef { return nil }
func storageOps() []OpDef  { return nil }
func govOps() []OpDef      { return nil }

func ledgerMonitors() []Monitor { return nil }

func setupHistory(h *Hist, mons []Monitor) {}
func endHistory(h *Hist)                   {}
