package schist




func ledgerMonitors() []Monitor {
	return []Monitor{
		{"C16", "vesting", monC16},
		{"C17", "faucet", monC17},
		{"C18", "mint", monC18},
		{"C19", "burn", monC19},
		{"C09", "liabilities", monC09},
		{"C11", "stake", monC11},
		{"C21", "multisig", monC21},
		{"C07", "cache", monC07},
		{"C48", "governance", monC48},
		{"C48", "globals-in-force", gfMonGlobalsInForce},
		{"C12", "challenge-pool", monC12},
		{"C13", "capacity", monC13},
		{"C14", "close", monC14},
		{"C15", "read", monC15},
		{"C24", "free", monC24},
		{"C22", "fees", monC22},
		{"C23", "kill", monC23},
	}
}

func endHistory(h *Hist) {}
