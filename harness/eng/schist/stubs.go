package schist

type zcnShadow struct{}
type multisigShadow struct{}

func newZcnShadow() *zcnShadow           { return &zcnShadow{} }
func newMultisigShadow() *multisigShadow { return &multisigShadow{} }

func zcnOps() []OpDef      { return nil }
func multisigOps() []OpDef { return nil }
func govOps() []OpDef      { return nil }

func ledgerMonitors() []Monitor {
	return []Monitor{
		{"C16", "vesting", monC16},
		{"C17", "faucet", monC17},
	}
}

func endHistory(h *Hist) {}
