package schist

import (
	"fmt"
	"math"

	"verifh/world"
)

// ---- directed scenario (C04): an assigner is registered AGAIN after redemptions, then its markers come back ------------------------
//
// A free-storage marker authorises ONE debit of the storage owner's wallet, and the markers of one assigner together authorise
// no more than the total limit the owner registered for it. Both facts rest on what was redeemed BEFORE; a second
// add_free_storage_assigner for the same name (the owner's routine limits update, or the very same input sent again) must leave
// them alone. The scenario therefore is:
//
//	owner registers assigner A (individual limit L, total limit k*L)  ->  recipients redeem markers of A (part of the total, or
//	all of it)  ->  add_free_storage_assigner for A again: by the owner with the same limits / the same input bytes / a higher
//	total / a total equal to what is redeemed / a lower individual limit, or by somebody who is not the owner (same key, or the
//	sender's own key; must fail)  ->  every redeemed request again byte for byte, a used nonce signed afresh for somebody else,
//	fresh markers up to the total limit IN FORCE counted over ALL redemptions since the first registration, fresh markers beyond
//	it  ->  (now and then) the registration once more and the replays once more.
//
// The judge is frAuthorised (the C04 monitor's model of marker authorisation): the monitor's own set of redeemed (assigner, nonce)
// pairs and its own running total per assigner name, neither of which a registration resets, against the limits of the last
// registration the monitor saw applied. The generator's expectation (Meta free_marker_valid) plays no part in C04.
func init() {
	RegisterScenario(Scenario{Prop: "C04", Name: "free-assigner-registered-again-then-markers-replayed", Every: 1, Fn: frcScenario})
}

// frcCoin is the token amount of a marker over tokens ZCN as the generator books it (same rounding as frBuildCall).
func frcCoin(tokens float64) uint64 { return uint64(math.Round(tokens * 1e10)) }

func frcScenario(h *Hist, mons []Monitor) {
	st := h.S.St
	r := h.R.Fork("frc-scenario")
	st.NoHostile = true
	defer func() { st.NoHostile = false }()
	run := h.Runs[h.Focus]
	variant := "before-second-registration" // the registration the requests judged now come after
	count := func(what string, o *TxnObs) {
		if run != nil {
			run.Count("scenario_frc:"+what+"|"+o.Outcome, 1)
			run.Distinct("frc|" + variant + "|" + what + "|" + o.Outcome)
		}
	}
	note := func(what string) {
		if run != nil {
			run.Count("scenario_frc_"+what, 1)
		}
	}
	L := []float64{0.2, 0.5, 1}[r.Intn(3)]
	k := []float64{2, 3, 2.5, 4}[r.Intn(4)]
	as := &stAssigner{W: h.stWallet(fmt.Sprintf("assigner%d", st.next())), Used: map[int64]bool{}, Next: 1}
	st.Assigners = append(st.Assigners, as)
	fs := frStateOf(h, as)

	// register sends add_free_storage_assigner for A's name; raw != nil resends those exact input bytes
	var firstRaw []byte
	register := func(what string, from *world.Wallet, pub string, indiv, total float64, raw []byte) bool {
		c := stCall(h, r, "add_free_storage_assigner", from, map[string]interface{}{"name": as.W.ID, "public_key": pub, "individual_limit": indiv, "total_limit": total}, 0)
		if raw != nil {
			c.Spec.RawInput = raw
		}
		c.Mut = what
		c.Meta["assigner"], c.Meta["scenario"] = as.W.ID, "frc"
		sent := stFreeze(c)
		o := h.stInner(c)
		count("register:"+what, o)
		variant = what + "|" + o.Outcome
		if o.Outcome != "success" {
			return false
		}
		if firstRaw == nil {
			firstRaw = sent
		}
		as.Reg, as.Indiv, as.Total = true, uint64(indiv*1e10), uint64(total*1e10)
		return true
	}
	redeem := func(what string, tokens float64, nonce int64, mut string) *TxnObs {
		blobbers, _ := frBlobbers(h, r)
		recipient := h.stClient(r)
		c := frBuildCall(h, r, &frSpec{As: as, AssignerName: as.W.ID, Recipient: recipient, Sender: recipient, Signer: as.W, Tokens: tokens, Nonce: nonce, Blobbers: blobbers, Mut: mut})
		c.Meta["scenario"] = "frc"
		o := h.stInner(c)
		count(what, o)
		if r.Chance(0.3) {
			h.stNextBlock(r, 5)
		}
		return o
	}
	replay := func(what string, rd *frRedeemed) {
		c := frBuildCall(h, r, &frSpec{As: as, AssignerName: as.W.ID, Recipient: rd.By, Sender: rd.By, Signer: as.W, Tokens: 0.01, Nonce: rd.Nonce, Mut: "replay", Replay: rd})
		c.Meta["scenario"] = "frc"
		count(what, h.stInner(c))
	}
	replays := func(what string, max int) {
		rs := append([]*frRedeemed{}, fs.Redeemed...)
		r.Shuffle(len(rs), func(i, j int) { rs[i], rs[j] = rs[j], rs[i] })
		if len(rs) > max {
			rs = rs[:max]
		}
		for _, rd := range rs {
			replay(what, rd)
		}
	}
	// fill redeems fresh markers until the total limit in force is used up exactly (at most n markers); false = a marker inside
	// the limits was refused (free allocations cannot be created in this history: settings / blobbers / owner funds)
	fill := func(what string, n int) bool {
		for i := 0; i < n && as.Redeemed < as.Total; i++ {
			left := as.Total - as.Redeemed
			tokens := L / []float64{1, 1, 2}[r.Intn(3)]
			if frcCoin(tokens) > as.Indiv {
				tokens = float64(as.Indiv) / 1e10
			}
			if frcCoin(tokens) > left {
				tokens = float64(left) / 1e10
			}
			if redeem(what, tokens, frNonce(h, r, as, -1), "").Outcome != "success" {
				return false
			}
		}
		return true
	}

	// (1) first registration, (2) redemptions: part of the total limit, or all of it
	if !register("first", h.W.Owner, as.W.PubKey, L, L*k, nil) {
		return
	}
	spend := 1 + r.Intn(2)
	if r.Chance(0.35) {
		spend = 8
	}
	if !fill("before", spend) || len(fs.Redeemed) == 0 {
		note("no_free_allocation_possible")
		return
	}
	if as.Redeemed == as.Total {
		note("total_used_up_before_second_registration")
	}
	h.stNextBlock(r, 20)

	// (3) the registration again
	again := func() {
		total, indiv := float64(as.Total)/1e10, float64(as.Indiv)/1e10
		switch r.Intn(8) {
		case 0, 1:
			register("again:same-limits", h.W.Owner, as.W.PubKey, indiv, total, nil)
		case 2:
			register("again:same-input-bytes", h.W.Owner, as.W.PubKey, indiv, total, firstRaw)
		case 3:
			register("again:total-raised", h.W.Owner, as.W.PubKey, indiv, total+L*float64(1+r.Intn(2)), nil)
		case 4:
			register("again:total-set-to-redeemed", h.W.Owner, as.W.PubKey, indiv, float64(as.Redeemed)/1e10, nil)
		case 5:
			register("again:individual-limit-halved", h.W.Owner, as.W.PubKey, indiv/2, total, nil)
		case 6:
			if register("again:not-the-owner", h.stClient(r), as.W.PubKey, indiv, total*2, nil) {
				note("registration_by_other_than_owner_applied")
			}
		case 7:
			w := h.stClient(r)
			if register("again:not-the-owner-own-key", w, w.PubKey, indiv, total, nil) {
				note("registration_by_other_than_owner_applied")
			}
		}
	}
	again()
	note("histories_with_second_registration")
	if r.Chance(0.5) {
		h.stNextBlock(r, 10)
	}

	// (4) what was redeemed comes back; then the total limit in force, counted over all redemptions, is filled and passed
	replays("replay-after-registration", 3)
	redeem("reused-nonce-after-registration", L/4, fs.Redeemed[r.Intn(len(fs.Redeemed))].Nonce, "reused-nonce")
	if !fill("fresh-after-registration", 5) {
		note("fresh_marker_refused_after_registration")
	}
	if as.Redeemed >= as.Total {
		note("total_in_force_used_up_after_registration")
		for i, n := 0, 2+r.Intn(2); i < n; i++ {
			redeem("beyond-total-after-registration", []float64{L / 2, L / 4, 0.01, float64(as.Indiv) / 1e10}[r.Intn(4)], frNonce(h, r, as, -1), "over-total-limit")
		}
	}
	// (5) once more
	if r.Chance(0.4) {
		again()
		replays("replay-after-registration", 2)
		if as.Redeemed+frcCoin(L/4) > as.Total {
			redeem("beyond-total-after-registration", L/4, frNonce(h, r, as, -1), "over-total-limit")
		} else {
			redeem("fresh-after-registration", L/4, frNonce(h, r, as, -1), "")
		}
	}
	h.EndBlock()
}
