package schist

import (
	"fmt"
	"math/big"
	"time"

	"0chain.net/chaincore/transaction"
	"0chain.net/smartcontract/vestingsc"

	"verifh/mon"
	"verifh/world"
)

// ---- workload -----------------------------------------------------------------------------------------------------------

type vpShadow struct {
	ID    string
	Owner *world.Wallet
	Dests []*world.Wallet
}

type vestingShadow struct {
	Pools []*vpShadow
}

func newVestingShadow() *vestingShadow { return &vestingShadow{} }

func (h *Hist) vestAmount(r *mon.Rand) uint64 {
	opts := []uint64{1, 2, 3, 1e8, 1e10, 12345678901, 1 << 53, 1<<53 + 1, 1<<53 + 3, 1<<54 + 2, 1<<56 + 8, 1<<56 + 24, 9007199254740997, 18014398509481990, 1e17 + 9, 1<<57 + 16, 1<<57 + 48}
	if r.Chance(0.5) {
		return opts[r.Intn(len(opts))]
	}
	return 1 + r.U64()%uint64(1e13)
}

func vestingOps() []OpDef {
	sc := vestingsc.ADDRESS
	T := transaction.TxnTypeSmartContract
	pick := func(h *Hist, r *mon.Rand) *vpShadow {
		if len(h.S.Vs.Pools) == 0 {
			return nil
		}
		return h.S.Vs.Pools[r.Intn(len(h.S.Vs.Pools))]
	}
	return []OpDef{
		{Name: "vesting.add", Tags: []string{"vesting", "setup"}, Build: func(h *Hist, r *mon.Rand) *Call {
			if len(h.S.Vs.Pools) >= 4 && r.Chance(0.7) {
				return nil
			}
			owner := h.anyClient(r)
			if r.Chance(0.5) {
				owner = h.W.Clients[0] // the rich client: amounts beyond 2^53
			}
			nd := 1 + r.Intn(3)
			hostile := h.Vars["hostile"].(float64)
			mut := ""
			if r.Chance(hostile * 0.3) {
				nd = []int{0, 4, 5}[r.Intn(3)]
				mut = "dest-count"
			}
			var dests []map[string]interface{}
			var dw []*world.Wallet
			var total uint64
			for i := 0; i < nd; i++ {
				d := h.anyWallet(r)
				if i > 0 && r.Chance(0.1) {
					d = dw[0] // duplicate destination id
				}
				if r.Chance(0.08) {
					// destination ids are not validated: a contract wallet (incl. the vesting contract itself) may be named
					names := []string{"vesting", "faucet", "miner", "storage"}
					n := names[r.Intn(len(names))]
					d = &world.Wallet{Name: "sc:" + n, ID: world.SCAddresses[n]}
				}
				a := h.vestAmount(r)
				total += a
				dests = append(dests, map[string]interface{}{"id": d.ID, "amount": a, "vested": uint64(r.Intn(2)) * a})
				dw = append(dw, d)
			}
			durs := []time.Duration{2 * time.Minute, 5 * time.Minute, 30 * time.Minute, time.Hour, 2 * time.Hour, 7 * time.Second * 60}
			dur := durs[r.Intn(len(durs))]
			if r.Chance(hostile * 0.2) {
				dur = []time.Duration{time.Minute, 3 * time.Hour, 0, -time.Hour}[r.Intn(4)]
				mut = "duration"
			}
			start := int64(0)
			switch r.Intn(5) {
			case 0:
				start = int64(h.W.Now)
			case 1:
				start = int64(h.W.Now) + int64(1+r.Intn(3000))
			case 2:
				if r.Chance(hostile) {
					start = int64(h.W.Now) - 10
					mut = "start-in-past"
				}
			}
			val := total
			switch r.Intn(6) {
			case 0:
				val = total + uint64(r.Intn(1000)) + 1 // excess
			case 1:
				if r.Chance(hostile) && total > 0 {
					val = total - 1
					mut = "underfunded"
				}
			case 2:
				val = total + 1
			}
			in := map[string]interface{}{"description": "v", "start_time": start, "duration": int64(dur), "destinations": dests}
			c := &Call{Name: "vesting.add", Mut: mut, Spec: world.TxnSpec{From: owner, To: sc, Value: Coin(val), Fee: Coin(h.fee(r) % 1000), Type: T, Func: "add", Input: in}}
			c.After = func(h *Hist, o *TxnObs) {
				if o.Outcome == "success" {
					h.S.Vs.Pools = append(h.S.Vs.Pools, &vpShadow{ID: vestingsc.ADDRESS + ":vestingpool:" + o.Txn.Hash, Owner: owner, Dests: dw})
				}
			}
			return c
		}},
		{Name: "vesting.trigger", Tags: []string{"vesting"}, Build: func(h *Hist, r *mon.Rand) *Call {
			p := pick(h, r)
			if p == nil {
				return nil
			}
			from := p.Owner
			mut := ""
			if r.Chance(h.Vars["hostile"].(float64) * 0.4) {
				from = h.anyWallet(r)
				if from != p.Owner {
					mut = "not-owner"
				}
			}
			return &Call{Name: "vesting.trigger", Mut: mut, Meta: map[string]interface{}{"pool": p.ID}, Spec: world.TxnSpec{From: from, To: sc, Value: Coin(r.Intn(2)), Fee: Coin(h.fee(r) % 1000), Type: T, Func: "trigger", Input: map[string]string{"pool_id": p.ID}}}
		}},
		{Name: "vesting.unlock", Tags: []string{"vesting"}, Build: func(h *Hist, r *mon.Rand) *Call {
			p := pick(h, r)
			if p == nil {
				return nil
			}
			from := p.Owner
			if r.Chance(0.6) && len(p.Dests) > 0 {
				from = p.Dests[r.Intn(len(p.Dests))]
				if from.Scheme == nil { // a contract wallet named as destination: nobody can sign for it
					from = p.Owner
				}
			}
			mut := ""
			if r.Chance(h.Vars["hostile"].(float64) * 0.3) {
				from = h.anyWallet(r)
				mut = "any-caller"
			}
			return &Call{Name: "vesting.unlock", Mut: mut, Meta: map[string]interface{}{"pool": p.ID}, Spec: world.TxnSpec{From: from, To: sc, Fee: Coin(h.fee(r) % 1000), Type: T, Func: "unlock", Input: map[string]string{"pool_id": p.ID}}}
		}},
		{Name: "vesting.stop", Tags: []string{"vesting"}, Build: func(h *Hist, r *mon.Rand) *Call {
			p := pick(h, r)
			if p == nil || len(p.Dests) == 0 {
				return nil
			}
			from := p.Owner
			mut := ""
			if r.Chance(h.Vars["hostile"].(float64) * 0.4) {
				from = h.anyWallet(r)
				mut = "any-caller"
			}
			d := p.Dests[r.Intn(len(p.Dests))].ID
			if r.Chance(0.1) {
				d = h.anyWallet(r).ID
			}
			return &Call{Name: "vesting.stop", Mut: mut, Meta: map[string]interface{}{"pool": p.ID}, Spec: world.TxnSpec{From: from, To: sc, Fee: Coin(h.fee(r) % 1000), Type: T, Func: "stop", Input: map[string]string{"pool_id": p.ID, "destination": d}}}
		}},
		{Name: "vesting.delete", Tags: []string{"vesting"}, Build: func(h *Hist, r *mon.Rand) *Call {
			p := pick(h, r)
			if p == nil || r.Chance(0.6) {
				return nil
			}
			from := p.Owner
			mut := ""
			if r.Chance(h.Vars["hostile"].(float64) * 0.5) {
				from = h.anyWallet(r)
				mut = "any-caller"
			}
			c := &Call{Name: "vesting.delete", Mut: mut, Meta: map[string]interface{}{"pool": p.ID}, Spec: world.TxnSpec{From: from, To: sc, Fee: Coin(h.fee(r) % 1000), Type: T, Func: "delete", Input: map[string]string{"pool_id": p.ID}}}
			c.After = func(h *Hist, o *TxnObs) {
				if o.Outcome == "success" {
					for i, q := range h.S.Vs.Pools {
						if q == p {
							h.S.Vs.Pools = append(h.S.Vs.Pools[:i], h.S.Vs.Pools[i+1:]...)
							break
						}
					}
				}
			}
			return c
		}},
		{Name: "vesting.bad-pool", Tags: []string{"vesting"}, Build: func(h *Hist, r *mon.Rand) *Call {
			fn := []string{"trigger", "unlock", "delete", "stop"}[r.Intn(4)]
			ids := []string{"", "nope", vestingsc.ADDRESS + ":vestingpool:" + "00", vestingsc.ADDRESS + ":configurations"}
			return &Call{Name: "vesting.bad-pool", Mut: "pool-id", Spec: world.TxnSpec{From: h.anyWallet(r), To: sc, Fee: Coin(h.fee(r) % 1000), Type: T, Func: fn, Input: map[string]string{"pool_id": ids[r.Intn(len(ids))], "destination": h.anyWallet(r).ID}}}
		}},
	}
}

// ---- C16 monitor ---------------------------------------------------------------------------------------------------------

type destView struct {
	ID             string
	Amount, Vested uint64
}

type poolView struct {
	Key                string
	Owner              string
	Balance            uint64
	Start, Expire      int64
	Dests              []destView
}

func (h *Hist) vestingPools(s map[string][]byte) map[string]*poolView {
	out := map[string]*poolView{}
	for _, n := range h.NodesOfType(s, "*vestingsc.vestingPool") {
		pv := &poolView{Key: n.Key, Owner: Str(n.Val, "ClientID"), Balance: U(n.Val, "ZcnPool.TokenPool.Balance"), Start: I(n.Val, "StartTime"), Expire: I(n.Val, "ExpireAt")}
		if pv.Balance == 0 {
			pv.Balance = U(n.Val, "Balance")
		}
		ds := F(n.Val, "Destinations")
		if ds.IsValid() {
			for i := 0; i < ds.Len(); i++ {
				d := ds.Index(i).Interface()
				pv.Dests = append(pv.Dests, destView{ID: Str(d, "ID"), Amount: U(d, "Amount"), Vested: U(d, "Vested")})
			}
		}
		out[n.Key] = pv
	}
	return out
}

func monC16(h *Hist, o *TxnObs) {
	post := h.vestingPools(o.Post)
	if len(post) == 0 && o.Txn.ToClientID != vestingsc.ADDRESS {
		return
	}
	pre := h.vestingPools(o.Pre)
	// the contract's clock is the creation date of the transactions it has applied; schedule progress is judged at the
	// latest time any applied transaction asserted (timestamps of later transactions may be older)
	now, _ := h.Vars["c16now"].(int64)
	if o.Outcome != "rejected" && int64(o.Txn.CreationDate) > now {
		now = int64(o.Txn.CreationDate)
		h.Vars["c16now"] = now
	}
	r := h.Runs["C16"]
	for key, p := range post {
		h.C("C16", "pool_states_checked")
		var need uint64
		q := pre[key]
		for i, d := range p.Dests {
			if d.Vested > d.Amount {
				h.V("C16", "vested-exceeds-amount", fmt.Sprintf("pool %s dest %d: vested %d > amount %d (after %s)", short(key), i, d.Vested, d.Amount, o.Call.Name), o)
			} else {
				need += d.Amount - d.Vested
			}
			// schedule: vested*(expire-start) <= amount*(min(now,expire)-start), exact integers
			el := now
			if el > p.Expire {
				el = p.Expire
			}
			el -= p.Start
			if el < 0 {
				el = 0
			}
			lhs := new(big.Int).Mul(new(big.Int).SetUint64(d.Vested), big.NewInt(p.Expire-p.Start))
			rhs := new(big.Int).Mul(new(big.Int).SetUint64(d.Amount), big.NewInt(el))
			if lhs.Cmp(rhs) > 0 {
				h.V("C16", "vested-ahead-of-schedule", fmt.Sprintf("pool %s dest %d: vested %d of %d at elapsed %d/%d s (after %s)", short(key), i, d.Vested, d.Amount, el, p.Expire-p.Start, o.Call.Name), o)
			}
			if q != nil {
				// same destination (by id and position among equal ids) must not lose vested tokens
				if pd := matchDest(q, p, i); pd != nil && pd.Vested > d.Vested {
					h.V("C16", "vested-decreased", fmt.Sprintf("pool %s dest %s: vested %d -> %d", short(key), h.name(d.ID), pd.Vested, d.Vested), o)
				}
			}
			if r != nil {
				r.Eval(1)
			}
		}
		if p.Balance < need {
			h.V("C16", "pool-below-unvested-remainder", fmt.Sprintf("pool %s balance %d < unvested remainder %d (after %s)", short(key), p.Balance, need, o.Call.Name), o)
		}
	}
	if o.Txn.ToClientID != vestingsc.ADDRESS {
		return
	}
	if r != nil {
		r.Distinct(fmt.Sprintf("%s|%s|%s|pools=%d", o.Call.Name, o.Call.Mut, o.Outcome, len(post)))
	}
	poolID, _ := o.Call.Meta["pool"].(string)
	q := pre[poolID]
	if q == nil {
		return
	}
	p := post[poolID]
	sender := o.Txn.ClientID
	deltas := h.deltas(o)
	credit := func(id string) int64 {
		d := deltas[id]
		if id == sender {
			d += int64(o.Txn.Fee)
		}
		return d
	}
	var qNeed uint64
	for _, d := range q.Dests {
		if d.Amount >= d.Vested {
			qNeed += d.Amount - d.Vested
		}
	}
	switch o.Call.Name {
	case "vesting.unlock":
		if sender == q.Owner {
			h.C("C16", "owner_unlocks_checked")
			excess := int64(q.Balance) - int64(qNeed)
			if o.Outcome == "success" {
				if credit(sender) != excess {
					h.V("C16", "owner-unlock-not-exact-excess", fmt.Sprintf("owner unlock paid %d, excess was %d", credit(sender), excess), o)
				}
			} else if o.Outcome == "failed" && excess > 0 && q.Balance >= qNeed {
				h.V("C16", "owner-cannot-withdraw-excess", fmt.Sprintf("owner unlock failed (%s) with excess %d", trunc(o.Txn.TransactionOutput, 100), excess), o)
			}
		} else if o.Outcome == "success" && p != nil && now >= q.Expire {
			h.C("C16", "dest_unlock_at_expiry_checked")
			for _, d := range p.Dests {
				if d.ID != sender {
					continue
				}
				if d.Vested != d.Amount {
					h.V("C16", "not-fully-vested-at-expiry", fmt.Sprintf("destination %s unlocked at/after expiry but vested %d of %d", h.name(sender), d.Vested, d.Amount), o)
				}
				break // with duplicate ids a destination's own unlock serves the first entry; the others are paid by the owner's trigger
			}
		}
	case "vesting.trigger":
		if o.Outcome == "success" && p != nil && now >= q.Expire {
			h.C("C16", "trigger_at_expiry_checked")
			for i, d := range p.Dests {
				if d.Vested != d.Amount {
					h.V("C16", "not-fully-vested-at-expiry", fmt.Sprintf("trigger at/after expiry left dest %d vested %d of %d", i, d.Vested, d.Amount), o)
				}
			}
		}
	case "vesting.delete":
		if sender == q.Owner {
			h.C("C16", "owner_deletes_checked")
			if o.Outcome == "failed" {
				h.V("C16", "owner-cannot-delete-pool", fmt.Sprintf("owner delete failed: %s", trunc(o.Txn.TransactionOutput, 160)), o)
			}
			if o.Outcome == "success" && p != nil {
				h.V("C16", "deleted-pool-still-present", "pool node still in state after successful delete", o)
			}
		} else if o.Outcome == "success" {
			h.V("C16", "non-owner-deleted-pool", fmt.Sprintf("%s deleted the pool of %s", h.name(sender), h.name(q.Owner)), o)
		}
	}
	// bookkeeping == tokens actually paid: sum of vested increments + owner drain == tokens that left the contract wallet
	if o.Outcome == "success" && o.Call.Name != "vesting.add" {
		var dv int64
		if p != nil {
			for i, d := range p.Dests {
				if pd := matchDest(q, p, i); pd != nil {
					dv += int64(d.Vested) - int64(pd.Vested)
				}
			}
			out := -deltas[vestingsc.ADDRESS]
			balDrop := int64(q.Balance) - int64(p.Balance)
			h.C("C16", "payout_bookkeeping_checked")
			if out != balDrop {
				h.V("C16", "pool-balance-vs-wallet-mismatch", fmt.Sprintf("contract wallet paid %d but pool balance dropped %d", out, balDrop), o)
			}
			if o.Call.Name == "vesting.trigger" && dv != out {
				h.V("C16", "vested-bookkeeping-vs-paid-mismatch", fmt.Sprintf("vested counters rose %d but %d tokens were paid", dv, out), o)
			}
		}
	}
}

func matchDest(q, p *poolView, i int) *destView {
	// the k-th occurrence of an id in post corresponds to the k-th occurrence in pre unless a stop removed one of them
	id := p.Dests[i].ID
	k := 0
	for j := 0; j < i; j++ {
		if p.Dests[j].ID == id {
			k++
		}
	}
	n := 0
	for j := range q.Dests {
		if q.Dests[j].ID == id {
			n++
		}
	}
	m := 0
	for j := range p.Dests {
		if p.Dests[j].ID == id {
			m++
		}
	}
	if n != m {
		return nil // a duplicate was removed: correspondence ambiguous, skip
	}
	for j := range q.Dests {
		if q.Dests[j].ID == id {
			if k == 0 {
				return &q.Dests[j]
			}
			k--
		}
	}
	return nil
}

func short(k string) string {
	if len(k) > 24 {
		return "…" + k[len(k)-12:]
	}
	return k
}
