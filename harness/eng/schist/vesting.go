package schist

import (
	"encoding/json"
	"fmt"
	"math/big"
	"sort"
	"time"

	"0chain.net/chaincore/transaction"
	"0chain.net/smartcontract/vestingsc"

	"verifh/mon"
	"verifh/world"
)

// ---- workload -----------------------------------------------------------------------------------------------------------

type vpShadow struct {
	ID    string
	Owner *world.Wallet
	Dests []*world.Wallet
}

type vestingShadow struct {
	Pools []*vpShadow
}

func newVestingShadow() *vestingShadow { return &vestingShadow{} }

func (h *Hist) vestAmount(r *mon.Rand) uint64 {
	opts := []uint64{1, 2, 3, 1e8, 1e10, 12345678901, 1 << 53, 1<<53 + 1, 1<<53 + 3, 1<<54 + 2, 1<<56 + 8, 1<<56 + 24, 9007199254740997, 18014398509481990, 1e17 + 9, 1<<57 + 16, 1<<57 + 48}
	if r.Chance(0.5) {
		return opts[r.Intn(len(opts))]
	}
	return 1 + r.U64()%uint64(1e13)
}

func vestingOps() []OpDef {
	sc := vestingsc.ADDRESS
	T := transaction.TxnTypeSmartContract
	pick := func(h *Hist, r *mon.Rand) *vpShadow {
		if len(h.S.Vs.Pools) == 0 {
			return nil
		}
		return h.S.Vs.Pools[r.Intn(len(h.S.Vs.Pools))]
	}
	return []OpDef{
		{Name: "vesting.add", Tags: []string{"vesting", "setup"}, Build: func(h *Hist, r *mon.Rand) *Call {
			if len(h.S.Vs.Pools) >= 4 && r.Chance(0.7) {
				return nil
			}
			owner := h.anyClient(r)
			if r.Chance(0.5) {
				owner = h.W.Clients[0] // the rich client: amounts beyond 2^53
			}
			nd := 1 + r.Intn(3)
			hostile := h.Vars["hostile"].(float64)
			mut := ""
			if r.Chance(hostile * 0.3) {
				nd = []int{0, 4, 5}[r.Intn(3)]
				mut = "dest-count"
			}
			var dests []map[string]interface{}
			var dw []*world.Wallet
			var total uint64
			for i := 0; i < nd; i++ {
				d := h.anyWallet(r)
				if i > 0 && r.Chance(0.1) {
					d = dw[0] // duplicate destination id
				}
				if r.Chance(0.08) {
					// destination ids are not validated: a contract wallet (incl. the vesting contract itself) may be named
					names := []string{"vesting", "faucet", "miner", "storage"}
					n := names[r.Intn(len(names))]
					d = &world.Wallet{Name: "sc:" + n, ID: world.SCAddresses[n]}
				}
				a := h.vestAmount(r)
				total += a
				dests = append(dests, map[string]interface{}{"id": d.ID, "amount": a, "vested": uint64(r.Intn(2)) * a})
				dw = append(dw, d)
			}
			durs := []time.Duration{2 * time.Minute, 5 * time.Minute, 30 * time.Minute, time.Hour, 2 * time.Hour, 7 * time.Second * 60}
			dur := durs[r.Intn(len(durs))]
			if r.Chance(hostile * 0.2) {
				dur = []time.Duration{time.Minute, 3 * time.Hour, 0, -time.Hour}[r.Intn(4)]
				mut = "duration"
			}
			start := int64(0)
			switch r.Intn(5) {
			case 0:
				start = int64(h.W.Now)
			case 1:
				start = int64(h.W.Now) + int64(1+r.Intn(3000))
			case 2:
				if r.Chance(hostile) {
					start = int64(h.W.Now) - 10
					mut = "start-in-past"
				}
			}
			val := total
			switch r.Intn(6) {
			case 0:
				val = total + uint64(r.Intn(1000)) + 1 // excess
			case 1:
				if r.Chance(hostile) && total > 0 {
					val = total - 1
					mut = "underfunded"
				}
			case 2:
				val = total + 1
			}
			in := map[string]interface{}{"description": "v", "start_time": start, "duration": int64(dur), "destinations": dests}
			c := &Call{Name: "vesting.add", Mut: mut, Spec: world.TxnSpec{From: owner, To: sc, Value: Coin(val), Fee: Coin(h.fee(r) % 1000), Type: T, Func: "add", Input: in}}
			c.After = func(h *Hist, o *TxnObs) {
				if o.Outcome == "success" {
					h.S.Vs.Pools = append(h.S.Vs.Pools, &vpShadow{ID: vestingsc.ADDRESS + ":vestingpool:" + o.Txn.Hash, Owner: owner, Dests: dw})
				}
			}
			return c
		}},
		{Name: "vesting.trigger", Tags: []string{"vesting"}, Build: func(h *Hist, r *mon.Rand) *Call {
			p := pick(h, r)
			if p == nil {
				return nil
			}
			from := p.Owner
			mut := ""
			if r.Chance(h.Vars["hostile"].(float64) * 0.4) {
				from = h.anyWallet(r)
				if from != p.Owner {
					mut = "not-owner"
				}
			}
			return &Call{Name: "vesting.trigger", Mut: mut, Meta: map[string]interface{}{"pool": p.ID}, Spec: world.TxnSpec{From: from, To: sc, Value: Coin(r.Intn(2)), Fee: Coin(h.fee(r) % 1000), Type: T, Func: "trigger", Input: map[string]string{"pool_id": p.ID}}}
		}},
		{Name: "vesting.unlock", Tags: []string{"vesting"}, Build: func(h *Hist, r *mon.Rand) *Call {
			p := pick(h, r)
			if p == nil {
				return nil
			}
			from := p.Owner
			if r.Chance(0.6) && len(p.Dests) > 0 {
				from = p.Dests[r.Intn(len(p.Dests))]
				if from.Scheme == nil { // a contract wallet named as destination: nobody can sign for it
					from = p.Owner
				}
			}
			mut := ""
			if r.Chance(h.Vars["hostile"].(float64) * 0.3) {
				from = h.anyWallet(r)
				mut = "any-caller"
			}
			return &Call{Name: "vesting.unlock", Mut: mut, Meta: map[string]interface{}{"pool": p.ID}, Spec: world.TxnSpec{From: from, To: sc, Fee: Coin(h.fee(r) % 1000), Type: T, Func: "unlock", Input: map[string]string{"pool_id": p.ID}}}
		}},
		{Name: "vesting.stop", Tags: []string{"vesting"}, Build: func(h *Hist, r *mon.Rand) *Call {
			p := pick(h, r)
			if p == nil || len(p.Dests) == 0 {
				return nil
			}
			from := p.Owner
			mut := ""
			if r.Chance(h.Vars["hostile"].(float64) * 0.4) {
				from = h.anyWallet(r)
				mut = "any-caller"
			}
			d := p.Dests[r.Intn(len(p.Dests))].ID
			if r.Chance(0.1) {
				d = h.anyWallet(r).ID
			}
			return &Call{Name: "vesting.stop", Mut: mut, Meta: map[string]interface{}{"pool": p.ID}, Spec: world.TxnSpec{From: from, To: sc, Fee: Coin(h.fee(r) % 1000), Type: T, Func: "stop", Input: map[string]string{"pool_id": p.ID, "destination": d}}}
		}},
		{Name: "vesting.delete", Tags: []string{"vesting"}, Build: func(h *Hist, r *mon.Rand) *Call {
			p := pick(h, r)
			if p == nil || r.Chance(0.6) {
				return nil
			}
			from := p.Owner
			mut := ""
			if r.Chance(h.Vars["hostile"].(float64) * 0.5) {
				from = h.anyWallet(r)
				mut = "any-caller"
			}
			c := &Call{Name: "vesting.delete", Mut: mut, Meta: map[string]interface{}{"pool": p.ID}, Spec: world.TxnSpec{From: from, To: sc, Fee: Coin(h.fee(r) % 1000), Type: T, Func: "delete", Input: map[string]string{"pool_id": p.ID}}}
			c.After = func(h *Hist, o *TxnObs) {
				if o.Outcome == "success" {
					for i, q := range h.S.Vs.Pools {
						if q == p {
							h.S.Vs.Pools = append(h.S.Vs.Pools[:i], h.S.Vs.Pools[i+1:]...)
							break
						}
					}
				}
			}
			return c
		}},
		{Name: "vesting.bad-pool", Tags: []string{"vesting"}, Build: func(h *Hist, r *mon.Rand) *Call {
			fn := []string{"trigger", "unlock", "delete", "stop"}[r.Intn(4)]
			ids := []string{"", "nope", vestingsc.ADDRESS + ":vestingpool:" + "00", vestingsc.ADDRESS + ":configurations"}
			return &Call{Name: "vesting.bad-pool", Mut: "pool-id", Spec: world.TxnSpec{From: h.anyWallet(r), To: sc, Fee: Coin(h.fee(r) % 1000), Type: T, Func: fn, Input: map[string]string{"pool_id": ids[r.Intn(len(ids))], "destination": h.anyWallet(r).ID}}}
		}},
	}
}

// ---- C16 monitor ---------------------------------------------------------------------------------------------------------

type destView struct {
	ID             string
	Amount, Vested uint64
}

type poolView struct {
	Key           string
	Owner         string
	Balance       uint64
	Start, Expire int64
	Dests         []destView
}

func (h *Hist) vestingPools(s map[string][]byte) map[string]*poolView {
	out := map[string]*poolView{}
	for _, n := range h.NodesOfType(s, "*vestingsc.vestingPool") {
		pv := &poolView{Key: n.Key, Owner: Str(n.Val, "ClientID"), Balance: U(n.Val, "ZcnPool.TokenPool.Balance"), Start: I(n.Val, "StartTime"), Expire: I(n.Val, "ExpireAt")}
		if pv.Balance == 0 {
			pv.Balance = U(n.Val, "Balance")
		}
		ds := F(n.Val, "Destinations")
		if ds.IsValid() {
			for i := 0; i < ds.Len(); i++ {
				d := ds.Index(i).Interface()
				pv.Dests = append(pv.Dests, destView{ID: Str(d, "ID"), Amount: U(d, "Amount"), Vested: U(d, "Vested")})
			}
		}
		out[n.Key] = pv
	}
	return out
}

func monC16(h *Hist, o *TxnObs) {
	vsModelC16(h, o) // independent model of every pool (inputs of `add`, observed transfers); the checks below read the contract's nodes
	post := h.vestingPools(o.Post)
	if len(post) == 0 && o.Txn.ToClientID != vestingsc.ADDRESS {
		return
	}
	pre := h.vestingPools(o.Pre)
	// the contract's clock is the creation date of the transactions it has applied; schedule progress is judged at the
	// latest time any applied transaction asserted (timestamps of later transactions may be older)
	now, _ := h.Vars["c16now"].(int64)
	if o.Outcome != "rejected" && int64(o.Txn.CreationDate) > now {
		now = int64(o.Txn.CreationDate)
		h.Vars["c16now"] = now
	}
	r := h.Runs["C16"]
	for key, p := range post {
		h.C("C16", "pool_states_checked")
		var need uint64
		q := pre[key]
		for i, d := range p.Dests {
			if d.Vested > d.Amount {
				h.V("C16", "vested-exceeds-amount", fmt.Sprintf("pool %s dest %d: vested %d > amount %d (after %s)", short(key), i, d.Vested, d.Amount, o.Call.Name), o)
			} else {
				need += d.Amount - d.Vested
			}
			// schedule: vested*(expire-start) <= amount*(min(now,expire)-start), exact integers
			el := now
			if el > p.Expire {
				el = p.Expire
			}
			el -= p.Start
			if el < 0 {
				el = 0
			}
			lhs := new(big.Int).Mul(new(big.Int).SetUint64(d.Vested), big.NewInt(p.Expire-p.Start))
			rhs := new(big.Int).Mul(new(big.Int).SetUint64(d.Amount), big.NewInt(el))
			if lhs.Cmp(rhs) > 0 {
				h.V("C16", "vested-ahead-of-schedule", fmt.Sprintf("pool %s dest %d: vested %d of %d at elapsed %d/%d s (after %s)", short(key), i, d.Vested, d.Amount, el, p.Expire-p.Start, o.Call.Name), o)
			}
			if q != nil {
				// same destination (by id and position among equal ids) must not lose vested tokens
				if pd := matchDest(q, p, i); pd != nil && pd.Vested > d.Vested {
					h.V("C16", "vested-decreased", fmt.Sprintf("pool %s dest %s: vested %d -> %d", short(key), h.name(d.ID), pd.Vested, d.Vested), o)
				}
			}
			if r != nil {
				r.Eval(1)
			}
		}
		if p.Balance < need {
			h.V("C16", "pool-below-unvested-remainder", fmt.Sprintf("pool %s balance %d < unvested remainder %d (after %s)", short(key), p.Balance, need, o.Call.Name), o)
		}
	}
	if o.Txn.ToClientID != vestingsc.ADDRESS {
		return
	}
	if r != nil {
		r.Distinct(fmt.Sprintf("%s|%s|%s|pools=%d", o.Call.Name, o.Call.Mut, o.Outcome, len(post)))
	}
	poolID, _ := o.Call.Meta["pool"].(string)
	q := pre[poolID]
	if q == nil {
		return
	}
	p := post[poolID]
	sender := o.Txn.ClientID
	deltas := h.deltas(o)
	credit := func(id string) int64 {
		d := deltas[id]
		if id == sender {
			d += int64(o.Txn.Fee)
		}
		return d
	}
	var qNeed uint64
	for _, d := range q.Dests {
		if d.Amount >= d.Vested {
			qNeed += d.Amount - d.Vested
		}
	}
	switch o.Call.Name {
	case "vesting.unlock":
		if sender == q.Owner {
			h.C("C16", "owner_unlocks_checked")
			excess := int64(q.Balance) - int64(qNeed)
			if o.Outcome == "success" {
				if credit(sender) != excess {
					h.V("C16", "owner-unlock-not-exact-excess", fmt.Sprintf("owner unlock paid %d, excess was %d", credit(sender), excess), o)
				}
			} else if o.Outcome == "failed" && excess > 0 && q.Balance >= qNeed {
				h.V("C16", "owner-cannot-withdraw-excess", fmt.Sprintf("owner unlock failed (%s) with excess %d", trunc(o.Txn.TransactionOutput, 100), excess), o)
			}
		} else if o.Outcome == "success" && p != nil && now >= q.Expire {
			h.C("C16", "dest_unlock_at_expiry_checked")
			for _, d := range p.Dests {
				if d.ID != sender {
					continue
				}
				if d.Vested != d.Amount {
					h.V("C16", "not-fully-vested-at-expiry", fmt.Sprintf("destination %s unlocked at/after expiry but vested %d of %d", h.name(sender), d.Vested, d.Amount), o)
				}
				break // with duplicate ids a destination's own unlock serves the first entry; the others are paid by the owner's trigger
			}
		}
	case "vesting.trigger":
		if o.Outcome == "success" && p != nil && now >= q.Expire {
			h.C("C16", "trigger_at_expiry_checked")
			for i, d := range p.Dests {
				if d.Vested != d.Amount {
					h.V("C16", "not-fully-vested-at-expiry", fmt.Sprintf("trigger at/after expiry left dest %d vested %d of %d", i, d.Vested, d.Amount), o)
				}
			}
		}
	case "vesting.delete":
		if sender == q.Owner {
			h.C("C16", "owner_deletes_checked")
			if o.Outcome == "failed" {
				h.V("C16", "owner-cannot-delete-pool", fmt.Sprintf("owner delete failed: %s", trunc(o.Txn.TransactionOutput, 160)), o)
			}
			if o.Outcome == "success" && p != nil {
				h.V("C16", "deleted-pool-still-present", "pool node still in state after successful delete", o)
			}
		} else if o.Outcome == "success" {
			h.V("C16", "non-owner-deleted-pool", fmt.Sprintf("%s deleted the pool of %s", h.name(sender), h.name(q.Owner)), o)
		}
	}
	// bookkeeping == tokens actually paid: sum of vested increments + owner drain == tokens that left the contract wallet
	if o.Outcome == "success" && o.Call.Name != "vesting.add" {
		var dv int64
		if p != nil {
			for i, d := range p.Dests {
				if pd := matchDest(q, p, i); pd != nil {
					dv += int64(d.Vested) - int64(pd.Vested)
				}
			}
			out := -deltas[vestingsc.ADDRESS]
			balDrop := int64(q.Balance) - int64(p.Balance)
			h.C("C16", "payout_bookkeeping_checked")
			if out != balDrop {
				h.V("C16", "pool-balance-vs-wallet-mismatch", fmt.Sprintf("contract wallet paid %d but pool balance dropped %d", out, balDrop), o)
			}
			if o.Call.Name == "vesting.trigger" && dv != out {
				h.V("C16", "vested-bookkeeping-vs-paid-mismatch", fmt.Sprintf("vested counters rose %d but %d tokens were paid", dv, out), o)
			}
		}
	}
}

func matchDest(q, p *poolView, i int) *destView {
	// the k-th occurrence of an id in post corresponds to the k-th occurrence in pre unless a stop removed one of them
	id := p.Dests[i].ID
	k := 0
	for j := 0; j < i; j++ {
		if p.Dests[j].ID == id {
			k++
		}
	}
	n := 0
	for j := range q.Dests {
		if q.Dests[j].ID == id {
			n++
		}
	}
	m := 0
	for j := range p.Dests {
		if p.Dests[j].ID == id {
			m++
		}
	}
	if n != m {
		return nil // a duplicate was removed: correspondence ambiguous, skip
	}
	for j := range q.Dests {
		if q.Dests[j].ID == id {
			if k == 0 {
				return &q.Dests[j]
			}
			k--
		}
	}
	return nil
}

func short(k string) string {
	if len(k) > 24 {
		return "…" + k[len(k)-12:]
	}
	return k
}

// ---- C16 reference model -------------------------------------------------------------------------------------------------
//
// Every pool is modelled from what an outside observer sees: the request of the successful `add` (destination ids and
// amounts, start time, duration), the tokens the `add` moved into the contract wallet and every later transfer out of the
// contract wallet in a successful call that names the pool. Nothing the contract records (Vested, Last, Move, pool
// balance) is read. Judged per destination id (an id may be listed more than once in a pool; the bounds are then the sums
// over its entries): received <= assigned, received <= sum floor(amount * elapsed / duration) at the latest time any applied
// transaction asserted, and per pool: funded - paid out >= sum of the unvested remainders of the destinations still in it.

type vsDest struct {
	entries  []uint64 // amounts of the entries carrying this id
	assigned uint64
	received uint64
	stopped  bool
	zero     bool // an owner's call once paid this id nothing although the schedule had started and tokens were unvested
}

type vsPool struct {
	id, owner     string
	start, expire int64
	funded, out   uint64
	order         []string
	dest          map[string]*vsDest
	deleted       bool
}

type vsModel struct {
	now   int64
	pools map[string]*vsPool
}

type vsAddInput struct {
	StartTime    json.Number `json:"start_time"`
	Duration     json.Number `json:"duration"`
	Destinations []struct {
		ID     string      `json:"id"`
		Amount json.Number `json:"amount"`
	} `json:"destinations"`
}

type vsPoolInput struct {
	PoolID      string `json:"pool_id"`
	Destination string `json:"destination"`
}

// vsBound is the linear schedule: sum over the entries of floor(amount * elapsed / duration), elapsed clipped to [0, duration].
func vsBound(p *vsPool, d *vsDest, now int64) uint64 {
	dur := p.expire - p.start
	el := now
	if el > p.expire {
		el = p.expire
	}
	el -= p.start
	if el < 0 {
		el = 0
	}
	if dur <= 0 || el >= dur {
		return d.assigned
	}
	var sum uint64
	for _, a := range d.entries {
		v := new(big.Int).SetUint64(a)
		v.Mul(v, big.NewInt(el))
		v.Quo(v, big.NewInt(dur))
		sum += v.Uint64()
	}
	return sum
}

func vsPhase(p *vsPool, t int64) string {
	dur := p.expire - p.start
	switch {
	case t < p.start:
		return "before-start"
	case t > p.expire:
		return "after-expiry"
	case t == p.expire:
		return "at-expiry"
	case p.expire-t <= 5:
		return "last-5s"
	case (t-p.start)*10 < dur:
		return "first-tenth"
	}
	return "mid"
}

func vsModelC16(h *Hist, o *TxnObs) {
	m, _ := h.Vars["c16model"].(*vsModel)
	if m == nil {
		m = &vsModel{pools: map[string]*vsPool{}}
		h.Vars["c16model"] = m
	}
	t := o.Txn
	if o.Outcome == "rejected" || t == nil {
		return
	}
	own := int64(t.CreationDate)
	if own > m.now {
		m.now = own
	}
	if t.TransactionType != transaction.TxnTypeSmartContract || t.ToClientID != vestingsc.ADDRESS || t.SmartContractData == nil {
		return
	}
	fn := t.FunctionName
	run := h.Runs["C16"]
	if fn == "add" {
		if o.Outcome != "success" {
			return
		}
		var in vsAddInput
		if err := json.Unmarshal(t.InputData, &in); err != nil {
			h.C("C16", "model_add_request_not_understood")
			return
		}
		p := &vsPool{id: vestingsc.ADDRESS + ":vestingpool:" + t.Hash, owner: t.ClientID, dest: map[string]*vsDest{}}
		st, _ := in.StartTime.Int64()
		if in.StartTime == "" || st == 0 {
			st = own
		}
		du, err := in.Duration.Int64()
		if err != nil {
			h.C("C16", "model_add_request_not_understood")
			return
		}
		p.start, p.expire = st, st+du/int64(time.Second)
		for _, d := range in.Destinations {
			a, err := parseU64(d.Amount)
			if err != nil {
				h.C("C16", "model_add_request_not_understood")
				return
			}
			e := p.dest[d.ID]
			if e == nil {
				e = &vsDest{}
				p.dest[d.ID] = e
				p.order = append(p.order, d.ID)
			}
			e.entries = append(e.entries, a)
			e.assigned += a
		}
		for _, tr := range o.Tr {
			if tr.ToClientID == vestingsc.ADDRESS && tr.ClientID == t.ClientID {
				p.funded += uint64(tr.Amount)
			}
		}
		m.pools[p.id] = p
		h.C("C16", "model_pools_created")
		var owed uint64
		for _, id := range p.order {
			owed += p.dest[id].assigned
		}
		if p.funded < owed {
			h.V("C16", "model:pool-holds-less-than-unvested-remainder", fmt.Sprintf("pool %s created with %d tokens for destinations that are assigned %d", short(p.id), p.funded, owed), o)
		}
		return
	}
	if fn != "trigger" && fn != "unlock" && fn != "stop" && fn != "delete" {
		return
	}
	var in vsPoolInput
	if err := json.Unmarshal(t.InputData, &in); err != nil {
		return
	}
	p := m.pools[in.PoolID]
	if p == nil || p.deleted {
		return
	}
	sender := t.ClientID
	unpaid := func() (n int) {
		for _, id := range p.order {
			if d := p.dest[id]; !d.stopped && d.received < d.assigned {
				n++
			}
		}
		return
	}
	if o.Outcome != "success" {
		// "by expiry the destination can receive exactly its amount"
		if own >= p.expire {
			if d := p.dest[sender]; fn == "unlock" && sender != p.owner && d != nil && !d.stopped && len(d.entries) == 1 && d.received < d.assigned {
				h.C("C16", "model_refused_unlock_at_expiry_judged")
				h.V("C16", "model:destination-cannot-receive-amount-at-expiry", fmt.Sprintf("pool %s: unlock of destination %s at/after expiry failed (%s) with %d of %d received", short(p.id), h.name(sender), trunc(t.TransactionOutput, 120), d.received, d.assigned), o)
			}
			if fn == "trigger" && sender == p.owner && unpaid() > 0 {
				h.C("C16", "model_refused_trigger_at_expiry_judged")
				h.V("C16", "model:trigger-cannot-pay-amounts-at-expiry", fmt.Sprintf("pool %s: owner's trigger at/after expiry failed (%s) with %d destinations not fully paid", short(p.id), trunc(t.TransactionOutput, 120), unpaid()), o)
			}
		}
		return
	}
	got := map[string]uint64{}
	for _, tr := range o.Tr {
		if tr.ClientID == vestingsc.ADDRESS {
			p.out += uint64(tr.Amount)
			got[tr.ToClientID] += uint64(tr.Amount)
		}
	}
	credit := func(id string) {
		d := p.dest[id]
		if d == nil || d.stopped || got[id] == 0 {
			return
		}
		d.received += got[id]
		if d.zero {
			h.C("C16", "model_paid_after_zero_yield")
			if own < p.expire {
				h.C("C16", "model_paid_after_zero_yield_before_expiry")
			}
			if p.expire-own <= 5 {
				h.C("C16", "model_paid_after_zero_yield_last_5s_or_later")
			}
		}
	}
	zeroSeen := false
	switch fn {
	case "trigger":
		for _, id := range p.order {
			credit(id)
			if d := p.dest[id]; !d.stopped && got[id] == 0 && d.received < d.assigned && own > p.start && own < p.expire {
				if !d.zero {
					h.C("C16", "model_zero_yield_by_trigger")
				}
				d.zero = true
			}
		}
	case "unlock":
		if sender != p.owner {
			credit(sender)
		}
	case "stop":
		credit(in.Destination)
	case "delete":
		for _, id := range p.order {
			if id != p.owner {
				credit(id)
			}
		}
	}
	for _, id := range p.order {
		d := p.dest[id]
		if d.zero {
			zeroSeen = true
		}
		if d.stopped {
			continue
		}
		h.C("C16", "model_destination_bounds_checked")
		if run != nil {
			run.Eval(1)
		}
		if d.received > d.assigned {
			h.V("C16", "model:received-exceeds-assigned-amount", fmt.Sprintf("pool %s destination %s received %d, assigned %d (after %s at %d, pool %d..%d)", short(p.id), h.name(id), d.received, d.assigned, fn, own, p.start, p.expire), o)
		} else if b := vsBound(p, d, m.now); d.received > b {
			h.V("C16", "model:received-ahead-of-linear-schedule", fmt.Sprintf("pool %s destination %s received %d of %d by %d (pool %d..%d): linear schedule allows %d (after %s)", short(p.id), h.name(id), d.received, d.assigned, m.now, p.start, p.expire, b, fn), o)
		}
	}
	if fn == "stop" {
		if d := p.dest[in.Destination]; d != nil {
			d.stopped = true
		}
	}
	if fn == "delete" {
		p.deleted = true
	}
	if p.out > p.funded {
		h.V("C16", "model:pool-paid-out-more-than-funded", fmt.Sprintf("pool %s funded with %d paid out %d", short(p.id), p.funded, p.out), o)
	} else if !p.deleted {
		var owed uint64
		for _, id := range p.order {
			if d := p.dest[id]; !d.stopped && d.received < d.assigned {
				owed += d.assigned - d.received
			}
		}
		h.C("C16", "model_pool_solvency_checked")
		if p.funded-p.out < owed {
			h.V("C16", "model:pool-holds-less-than-unvested-remainder", fmt.Sprintf("pool %s holds %d (funded %d, paid out %d) but its destinations are still owed %d (after %s)", short(p.id), p.funded-p.out, p.funded, p.out, owed, fn), o)
		}
	}
	// success at/after expiry: everybody served by the call has exactly its amount
	if own >= p.expire && !p.deleted {
		switch {
		case fn == "trigger":
			h.C("C16", "model_trigger_at_expiry_judged")
			if n := unpaid(); n > 0 {
				h.V("C16", "model:not-fully-received-at-expiry", fmt.Sprintf("pool %s: trigger at/after expiry left %d destinations short of their amount", short(p.id), n), o)
			}
		case fn == "unlock" && sender != p.owner:
			if d := p.dest[sender]; d != nil && !d.stopped && len(d.entries) == 1 {
				h.C("C16", "model_unlock_at_expiry_judged")
				if d.received != d.assigned {
					h.V("C16", "model:not-fully-received-at-expiry", fmt.Sprintf("pool %s: destination %s unlocked at/after expiry and has %d of %d", short(p.id), h.name(sender), d.received, d.assigned), o)
				}
			}
		}
	}
	if run != nil {
		run.Distinct(fmt.Sprintf("model|%s|%s|dests=%d|zero=%v|paid=%d", fn, vsPhase(p, own), len(p.order), zeroSeen, len(got)))
	}
}

func parseU64(n json.Number) (uint64, error) {
	var v uint64
	_, err := fmt.Sscanf(n.String(), "%d", &v)
	return v, err
}

// ---- directed scenario ---------------------------------------------------------------------------------------------------

func init() {
	RegisterScenario(Scenario{Prop: "C16", Name: "unequal-destinations", Fn: vsScenarioC16})
}

// vsScenarioC16: pools whose destinations are assigned very unequal amounts (a handful of units next to 1e10..1e13), short
// durations, and many trigger / unlock / stop calls: first every few seconds (the small share rounds to zero tokens),
// then at larger steps, then right before, at and after the expiry of every pool.
func vsScenarioC16(h *Hist, mons []Monitor) {
	r := h.R.Fork("c16-unequal")
	sc := vestingsc.ADDRESS
	T := transaction.TxnTypeSmartContract
	type sp struct {
		id            string
		owner         *world.Wallet
		dests         []*world.Wallet
		start, expire int64
		gone          bool
	}
	var pools []*sp
	submit := func(c *Call) *TxnObs {
		o := h.Submit(c, mons)
		h.C("C16", "scenario_txns")
		if h.TxInBlk >= 1+r.Intn(4) {
			h.EndBlock()
		}
		return o
	}
	goTo := func(t int64) {
		if t > int64(h.W.Now) {
			h.EndBlock()
			h.W.Advance(time.Duration(t-int64(h.W.Now)) * time.Second)
		}
	}
	np := 2 + r.Intn(2)
	for i := 0; i < np; i++ {
		perm := make([]int, len(h.W.Clients))
		for k := range perm {
			perm[k] = k
		}
		r.Shuffle(len(perm), func(a, b int) { perm[a], perm[b] = perm[b], perm[a] })
		owner := h.W.Clients[perm[0]]
		nd := 2 + r.Intn(2)
		tiny := uint64(1 + r.Intn(12))
		if r.Chance(0.3) {
			tiny = 10
		}
		big := []uint64{1e12, 1e10, 1e13, 300000000007, 1e12 + 1}[r.Intn(5)]
		amounts := []uint64{tiny, big, []uint64{uint64(1 + r.Intn(40)), uint64(1000 + r.Intn(1e6)), 3}[r.Intn(3)]}[:nd]
		r.Shuffle(len(amounts), func(a, b int) { amounts[a], amounts[b] = amounts[b], amounts[a] })
		var dests []map[string]interface{}
		var dw []*world.Wallet
		var total uint64
		for k := 0; k < nd; k++ {
			d := h.W.Clients[perm[1+k]]
			dw = append(dw, d)
			dests = append(dests, map[string]interface{}{"id": d.ID, "amount": amounts[k]})
			total += amounts[k]
		}
		dur := []int64{120, 150, 180, 240, 300, 600, 1000}[r.Intn(7)]
		start := int64(0)
		if r.Chance(0.3) {
			start = int64(h.W.Now) + int64(1+r.Intn(20))
		}
		val := total + []uint64{0, 0, 1, uint64(r.Intn(1000))}[r.Intn(4)]
		in := map[string]interface{}{"description": "s", "start_time": start, "duration": dur * int64(time.Second), "destinations": dests}
		o := submit(&Call{Name: "vesting.add", Mut: "scenario", Spec: world.TxnSpec{From: owner, To: sc, Value: Coin(val), Fee: Coin(r.Intn(500)), Type: T, Func: "add", Input: in}})
		if o.Outcome != "success" {
			h.C("C16", "scenario_add_refused")
			continue
		}
		if start == 0 {
			start = int64(o.Txn.CreationDate)
		}
		p := &sp{id: sc + ":vestingpool:" + o.Txn.Hash, owner: owner, dests: dw, start: start, expire: start + dur}
		pools = append(pools, p)
		h.S.Vs.Pools = append(h.S.Vs.Pools, &vpShadow{ID: p.id, Owner: owner, Dests: dw})
		if r.Chance(0.5) {
			goTo(int64(h.W.Now) + int64(1+r.Intn(5)))
		}
	}
	if len(pools) == 0 {
		return
	}
	h.C("C16", "scenario_runs")
	call := func(p *sp, fn string, from *world.Wallet, in map[string]string) *TxnObs {
		return submit(&Call{Name: "vesting." + fn, Mut: "scenario", Meta: map[string]interface{}{"pool": p.id}, Spec: world.TxnSpec{From: from, To: sc, Fee: Coin(r.Intn(500)), Type: T, Func: fn, Input: in}})
	}
	act := func(p *sp, late bool) {
		if p.gone {
			return
		}
		pid := map[string]string{"pool_id": p.id}
		switch k := r.Intn(20); {
		case k < 8:
			call(p, "trigger", p.owner, pid)
		case k < 16:
			call(p, "unlock", p.dests[r.Intn(len(p.dests))], pid)
		case k < 18:
			call(p, "unlock", p.owner, pid)
		case k < 19 && late && len(p.dests) > 1:
			i := r.Intn(len(p.dests))
			if o := call(p, "stop", p.owner, map[string]string{"pool_id": p.id, "destination": p.dests[i].ID}); o.Outcome == "success" {
				p.dests = append(append([]*world.Wallet{}, p.dests[:i]...), p.dests[i+1:]...)
			}
		default:
			call(p, "trigger", p.owner, pid)
		}
	}
	// moments every pool must be visited at: shortly before, at and after its expiry
	type ev struct {
		t int64
		p *sp
	}
	var evs []ev
	for _, p := range pools {
		evs = append(evs, ev{p.expire - int64(1+r.Intn(5)), p}, ev{p.expire, p}, ev{p.expire + int64(1+r.Intn(20)), p})
	}
	sort.SliceStable(evs, func(i, j int) bool { return evs[i].t < evs[j].t })
	visit := func(e ev) {
		goTo(e.t)
		p := e.p
		if p.gone {
			return
		}
		pid := map[string]string{"pool_id": p.id}
		if r.Chance(0.5) {
			call(p, "trigger", p.owner, pid)
		}
		for _, d := range p.dests {
			if r.Chance(0.7) {
				call(p, "unlock", d, pid)
			}
		}
		if int64(h.W.Now) >= p.expire {
			if r.Chance(0.6) {
				call(p, "trigger", p.owner, pid)
			}
			if r.Chance(0.4) {
				call(p, "unlock", p.owner, pid)
			}
			if int64(h.W.Now) > p.expire && r.Chance(0.6) {
				if o := call(p, "delete", p.owner, pid); o.Outcome == "success" {
					p.gone = true
					for i, q := range h.S.Vs.Pools {
						if q.ID == p.id {
							h.S.Vs.Pools = append(h.S.Vs.Pools[:i], h.S.Vs.Pools[i+1:]...)
							break
						}
					}
				}
			}
		}
	}
	steps := 30 + r.Intn(12)
	for i := 0; i < steps; i++ {
		now := int64(h.W.Now)
		p := pools[r.Intn(len(pools))]
		var want int64
		switch k := r.Intn(20); {
		case i < 10 || k < 9:
			want = now + int64(1+r.Intn(9))
		case k < 10:
			want = now
		case k < 16:
			d := p.expire - p.start
			want = now + d/10 + int64(r.Intn(int(d/6)+1))
		default:
			want = now + int64(10+r.Intn(50))
		}
		for len(evs) > 0 && evs[0].t <= want {
			visit(evs[0])
			evs = evs[1:]
		}
		goTo(want)
		act(p, i > steps/2)
	}
	for _, e := range evs {
		visit(e)
	}
	h.EndBlock()
}
