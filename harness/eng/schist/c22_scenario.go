package schist

import (
	"fmt"
)

// Directed start of the C22 histories: the owner raises the number of rewarded sharders to the number of registered ones (the
// shipped value is 1, with which a fee part can never be smaller than the number of recipients). Together with the tiny fees of
// the C22 focus (ops_basic.go fee) the sharder part of a block's fees is then often 1..n-1 units: only the remainder handling
// decides where those units go, and monC22 requires that everything is credited when every recipient can be rewarded.
func init() {
	RegisterScenario(Scenario{Prop: "C22", Name: "many-rewarded-sharders", Every: 1, Fn: func(h *Hist, mons []Monitor) {
		n := len(h.W.Sharders)
		if n < 2 {
			return
		}
		r := h.R.Fork("c22-scenario")
		want := 2 + r.Intn(n-1) // 2..n
		c := mnCall("miner.update_settings", "scenario", h.W.Owner, "update_settings", 0, 0,
			map[string]interface{}{"fields": map[string]string{"num_sharders_rewarded": fmt.Sprint(want)}},
			map[string]interface{}{"settings": map[string]interface{}{"num_sharders_rewarded": fmt.Sprint(want)}, "owner_call": true}, nil)
		if o := h.Submit(c, mons); o.Outcome == "success" {
			h.S.Mn.Settings["num_sharders_rewarded"] = fmt.Sprint(want)
			h.C("C22", "histories_with_several_rewarded_sharders")
		}
	}})
}
