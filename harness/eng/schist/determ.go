package schist

import (
	"crypto/sha256"
	"encoding/hex"
	"encoding/json"
	"flag"
	"fmt"
	"os"
	"runtime"
	"runtime/debug"
	"sort"
	"strings"
	"time"

	"0chain.net/chaincore/block"
	"0chain.net/chaincore/transaction"
	"0chain.net/smartcontract/dbs/event"

	"verifh/mon"
	"verifh/obs"
	"verifh/world"
)

// C06 — deterministic block execution.
//
// Every block of a generated history is executed once (recording root, change count, per-txn status/output, event list) and
// then re-executed N times in the same process from the serialised transactions under different runtime conditions
// (state cache cold / warm, GOMAXPROCS 1/4/16, GC between runs); the tuples must be identical. In addition the parent
// runs every child twice in fresh processes (different GOMAXPROCS / hash seeds) and compares the per-history digests.

type execTuple struct {
	Root    string   `json:"root"`
	Changes int      `json:"changes"`
	Txns    []string `json:"txns"` // status|output hash|output
	Events  string   `json:"events"`
	Err     string   `json:"err"`
	evList  []string
	fns     []string
}

func eventStrings(evs []event.Event) []string {
	var out []string
	for _, e := range evs {
		d, err := json.Marshal(e.Data)
		if err != nil {
			d = []byte(fmt.Sprintf("%v", e.Data))
		}
		out = append(out, fmt.Sprintf("tag=%d type=%d index=%s txn=%s data=%s", e.Tag, e.Type, e.Index, e.TxHash, d))
	}
	return out
}

func canonEvents(evs []event.Event) string {
	h := sha256.New()
	for _, e := range evs {
		d, err := json.Marshal(e.Data)
		if err != nil {
			d = []byte(fmt.Sprintf("%v", e.Data))
		}
		fmt.Fprintf(h, "%d|%s|%d|%d|%s|%s|%s\n", e.BlockNumber, e.TxHash, e.Type, e.Tag, e.Index, e.Version, d)
	}
	return hex.EncodeToString(h.Sum(nil)[:12]) + fmt.Sprintf("#%d", len(evs))
}

func cloneTxn(t *transaction.Transaction) *transaction.Transaction {
	c := t.Clone()
	c.Status = 0
	c.TransactionOutput = ""
	c.OutputHash = ""
	_ = c.ComputeProperties()
	return c
}

func execBlock(w *world.World, orig *block.Block, txns []*transaction.Transaction) execTuple {
	bc := w.Reopen(orig)
	var t execTuple
	var evs []event.Event
	for _, tx := range txns {
		c := cloneTxn(tx)
		ev, err := bc.Exec(c)
		if err != nil {
			t.Txns = append(t.Txns, "rejected|"+err.Error())
			continue
		}
		evs = append(evs, ev...)
		t.Txns = append(t.Txns, fmt.Sprintf("%d|%s|%s", c.Status, c.ComputeOutputHash(), c.TransactionOutput))
	}
	b := bc.Seal()
	t.Root = hex.EncodeToString(b.ClientStateHash)
	t.Changes = int(b.StateChangesCount)
	t.Events = canonEvents(evs)
	t.evList = eventStrings(evs)
	return t
}

// diffTuple names the first difference: class, the function of the txn concerned, and a short description.
func diffTuple(a, b execTuple) (class, where, what string) {
	fn := func(i int) string {
		if i < len(a.fns) {
			return a.fns[i]
		}
		return "?"
	}
	if len(a.Txns) != len(b.Txns) {
		return "txn-count", "", fmt.Sprintf("%d vs %d txns", len(a.Txns), len(b.Txns))
	}
	for i := range a.Txns {
		if a.Txns[i] != b.Txns[i] {
			sa, sb := strings.SplitN(a.Txns[i], "|", 2)[0], strings.SplitN(b.Txns[i], "|", 2)[0]
			if sa != sb {
				return "txn-status", fn(i), fmt.Sprintf("%s vs %s", trunc(a.Txns[i], 200), trunc(b.Txns[i], 200))
			}
			return "txn-output", fn(i), fmt.Sprintf("%s vs %s", trunc(a.Txns[i], 260), trunc(b.Txns[i], 260))
		}
	}
	switch {
	case a.Root != b.Root:
		return "state-root", "", a.Root + " vs " + b.Root
	case a.Changes != b.Changes:
		return "change-count", "", fmt.Sprintf("%d vs %d", a.Changes, b.Changes)
	}
	if a.Events != b.Events {
		for i := range a.evList {
			if i >= len(b.evList) || a.evList[i] != b.evList[i] {
				tag := strings.SplitN(a.evList[i], " ", 2)[0]
				other := "<missing>"
				if i < len(b.evList) {
					other = b.evList[i]
				}
				// show the neighbourhood of the first differing byte
				x, y := a.evList[i], other
				k := 0
				for k < len(x) && k < len(y) && x[k] == y[k] {
					k++
				}
				lo := k - 160
				if lo < 0 {
					lo = 0
				}
				return "event-list", tag, fmt.Sprintf("event %d differs at byte %d: …%s  VS  …%s", i, k, trunc(x[lo:], 420), trunc(y[lo:], 420))
			}
		}
		return "event-list", "extra-events", fmt.Sprintf("%d vs %d events", len(a.evList), len(b.evList))
	}
	return "", "", ""
}

// DetermMain is the entry point of the determ engine.
func DetermMain(args []string) int {
	fs := flag.NewFlagSet("determ", flag.ExitOnError)
	prop := fs.String("prop", "C06", "property id")
	tier := fs.String("tier", "quick", "quick|thorough")
	child := fs.Int("child", -1, "child index (internal)")
	hists := fs.Int("hists", 0, "histories per child")
	hlen := fs.Int("len", 0, "transactions per history")
	children := fs.Int("children", 0, "children")
	_ = fs.Parse(args)
	if *child >= 0 {
		return determChild(*prop, *tier, *child, *hists, *hlen)
	}
	defer mon.CleanScratch()
	run := mon.NewRun(*prop, *tier, "exploration", "every block of generated histories (all contracts, failing and governance calls with several invalid fields) is executed, then re-executed from the serialised transactions 6 times in-process (state cache cold/warm, GOMAXPROCS 1/4/16) and once more in a second fresh process; tuples (state root, change count, per-txn status+output, event list) must be identical; distinct = (operation set of the block) hashes")
	nc, nh, nl := 6, 3, 60
	if *tier == "thorough" {
		nc, nh, nl = 24, 8, 200
	}
	if *children > 0 {
		nc = *children
	}
	if *hists > 0 {
		nh = *hists
	}
	if *hlen > 0 {
		nl = *hlen
	}
	var specs []mon.ChildSpec
	for i := 0; i < nc; i++ {
		for v, env := range [][]string{{"GOMAXPROCS=16", "VERIF_VARIANT=a"}, {"GOMAXPROCS=2", "GOGC=20", "VERIF_VARIANT=b"}} {
			to := 6 * time.Minute
			if *tier == "thorough" {
				to = 30 * time.Minute
			}
			specs = append(specs, mon.ChildSpec{Name: fmt.Sprintf("c%d%c", i, 'a'+v), Timeout: to, Env: env,
				Args: []string{"determ", "-prop", *prop, "-tier", *tier, "-child", fmt.Sprint(i), "-hists", fmt.Sprint(nh), "-len", fmt.Sprint(nl)}})
		}
	}
	res := mon.RunChildren(run, specs, 14)
	// cross-process comparison of per-block tuples
	digests := map[string]map[string]string{} // block key -> variant -> digest
	for _, cr := range res {
		if cr.Crashed && !cr.TimedOut {
			p := mon.KeepLog(cr, fmt.Sprintf("%s-crash-%s-seed%d.log", *prop, cr.Spec.Name, run.SeedV))
			run.Inconclusive(fmt.Sprintf("child %s crashed (log %s): %s", cr.Spec.Name, p, firstPanicLine(cr.LogTail)))
		}
		if cr.Partial == nil {
			continue
		}
		for k, v := range cr.Partial.Extra {
			if !strings.HasPrefix(k, "blk|") {
				continue
			}
			parts := strings.SplitN(k, "|", 3) // blk|variant|blockkey
			if digests[parts[2]] == nil {
				digests[parts[2]] = map[string]string{}
			}
			digests[parts[2]][parts[1]] = fmt.Sprint(v)
		}
	}
	cross := 0
	var keys []string
	for k := range digests {
		keys = append(keys, k)
	}
	sort.Strings(keys)
	for _, k := range keys {
		d := digests[k]
		if len(d) < 2 {
			continue
		}
		cross++
		if d["a"] != d["b"] {
			run.Violate("cross-process-divergence:"+strings.SplitN(d["a"], "#", 2)[0][:0]+opClass(k), fmt.Sprintf("block %s executed in two fresh processes gave different results: %s vs %s", k, d["a"], d["b"]), map[string]string{"block": k})
		}
	}
	run.Count("blocks_compared_across_processes", int64(cross))
	run.Eval(int64(cross))
	run.Assume("blocks are executed through Chain.UpdateState transaction by transaction, exactly as Block.ComputeState does; the event database is off, so chain-level user events are not part of the compared event list")
	run.Assume("wall-clock dependence (stake unlock reads time.Now) is exercised only with the far-past logical epoch, where the comparison is constant")
	// the per-block digests are not coverage data
	return finishWithout(run, "blk|")
}

func opClass(k string) string { return "" }

func finishWithout(run *mon.Run, prefix string) int {
	run.DropExtra(prefix)
	return run.Finish()
}

func determChild(prop, tier string, idx, nh, nl int) int {
	seed := mon.Seed()
	run := mon.NewRun(prop, tier, "exploration", "")
	variant := os.Getenv("VERIF_VARIANT")
	defer func() {
		if e := recover(); e != nil {
			fmt.Printf("HARNESS-PANIC %v\n%s\n", e, debug.Stack())
			run.Checkpoint()
			os.Exit(3)
		}
	}()
	o := obs.Install()
	w := world.New(world.Options{Seed: seed*1000 + uint64(idx)})
	defer w.Close()
	runs := map[string]*mon.Run{}
	ops := catalogue()
	wts := weights(ops, "C06")
	for i, op := range ops {
		for _, t := range op.Tags {
			if t == "gov" {
				wts[i] = 12
			}
		}
	}
	for j := 0; j < nh; j++ {
		r := mon.NewRand(seed).Fork(fmt.Sprintf("child%d-hist%d", idx, j))
		h := NewHist(fmt.Sprintf("s%d-c%d-h%d", seed, idx, j), w, o, r, runs, prop)
		h.Vars["hostile"] = []float64{0.15, 0.3, 0.5}[r.Intn(3)]
		setupHistory(h, nil)
		h.EndBlock()
		blockNo := 0
		h.BlockEv = map[string][]event.Event{}
		h.BlockNames = map[string][]string{}
		lastJudged := h.Head.Round
		judgeBlock := func(b *block.Block) {
			if len(b.Txns) == 0 {
				return
			}
			blockNo++
			names := h.BlockNames[b.Hash]
			first := execTuple{Root: hex.EncodeToString(b.ClientStateHash), Changes: int(b.StateChangesCount)}
			evs := h.BlockEv[b.Hash]
			for _, t := range b.Txns {
				first.Txns = append(first.Txns, fmt.Sprintf("%d|%s|%s", t.Status, t.ComputeOutputHash(), t.TransactionOutput))
			}
			first.Events = canonEvents(evs)
			first.evList = eventStrings(evs)
			for _, t := range b.Txns {
				f := "send/data"
				if t.SmartContractData != nil && t.FunctionName != "" {
					f = h.name(t.ToClientID) + "." + t.FunctionName
				}
				first.fns = append(first.fns, f)
			}
			txns := append([]*transaction.Transaction{}, b.Txns...)
			conds := []struct {
				name  string
				procs int
				cold  bool
			}{{"warm-16", 16, false}, {"warm-1", 1, false}, {"cold-4", 4, true}, {"warm-4", 4, false}, {"cold-1", 1, true}, {"cold-16", 16, true}}
			for _, c := range conds {
				runtime.GOMAXPROCS(c.procs)
				if c.cold {
					w.Chain.SetupStateCache()
				}
				got := execBlock(w, b, txns)
				run.Eval(1)
				run.Count("reexecutions", 1)
				run.Count("reexec_"+c.name, 1)
				if cls, where, what := diffTuple(first, got); cls != "" {
					run.Violate("reexecution-differs:"+cls+":"+where, fmt.Sprintf("block %s (round %d, ops %v) re-executed under %s differs in %s at %s: %s", b.Hash[:8], b.Round, names, c.name, cls, where, what), map[string]interface{}{"history": h.ID, "ops": names, "condition": c.name})
				}
			}
			runtime.GOMAXPROCS(16)
			run.Distinct(strings.Join(uniq(names), ","))
			bj, _ := json.Marshal(first)
			dg := sha256.Sum256(bj)
			run.Set(fmt.Sprintf("blk|%s|%s-b%d", variant, h.ID, blockNo), hex.EncodeToString(dg[:10]))
			if blockNo == 1 && j == 0 && idx == 0 {
				run.Sample(map[string]interface{}{"history": h.ID, "block_ops": names, "root": first.Root, "events": first.Events})
			}
			delete(h.BlockEv, b.Hash)
			delete(h.BlockNames, b.Hash)
		}
		// judge every sealed block above the last judged one, oldest first
		judge := func() {
			if h.BC != nil {
				return
			}
			var pend []*block.Block
			for b := h.Head; b != nil && b.Round > lastJudged; b = b.PrevBlock {
				pend = append([]*block.Block{b}, pend...)
			}
			for _, b := range pend {
				judgeBlock(b)
				lastJudged = b.Round
			}
		}
		if j%2 == 1 {
			// a burst of calls on the probe contract's partition lists: adds past the partition size, updates and removals, a
			// third of them failing after their writes. What a failed call wrote must not influence any later block, whichever
			// caches the executing node happens to hold (the re-executions below start from a cold state cache).
			for _, op := range ops {
				if op.Name != "probe.parts" {
					continue
				}
				for k := 0; k < 36; k++ {
					if c := op.Build(h, r); c != nil {
						h.Submit(c, nil)
						run.Count("parts_burst_calls", 1)
					}
					if h.TxInBlk >= 1+r.Intn(3) {
						h.EndBlock()
						judge()
					}
				}
				h.EndBlock()
				judge()
				break
			}
		}
		govBurstC06(h, r, run, func() {
			h.EndBlock()
			judge()
		})
		for k := 0; k < nl; k++ {
			op := ops[r.Pick(wts)]
			c := op.Build(h, r)
			if c == nil {
				continue
			}
			mutateNonce(h, r, c, 0.02)
			ob := h.Submit(c, nil)
			if ob.Outcome != "rejected" {
				h.S.Accepted = append(h.S.Accepted, ob.Txn)
				if len(h.S.Accepted) > 64 {
					h.S.Accepted = h.S.Accepted[1:]
				}
			}
			if h.TxInBlk >= 1+r.Intn(6) {
				h.EndBlock()
				judge()
				h.advanceTime(r)
			}
		}
		h.EndBlock()
		judge()
		run.Count("histories", 1)
		run.Checkpoint()
	}
	run.Checkpoint()
	return 0
}

func uniq(in []string) []string {
	m := map[string]bool{}
	for _, s := range in {
		m[s] = true
	}
	var out []string
	for s := range m {
		out = append(out, s)
	}
	sort.Strings(out)
	return out
}

func brief(t execTuple) string {
	return fmt.Sprintf("{root %s changes %d events %s txns %v}", t.Root[:12], t.Changes, t.Events, trunc(fmt.Sprint(t.Txns), 300))
}
