package schist

import (
	"encoding/json"
	"fmt"
	"time"

	"verifh/mon"
)

// Directed scenario (C12): delete markers that are worth more than the blobber has outstanding.
//
// A write marker is priced at ITS OWN date (write price x size x rest of the allocation's duration at the marker's timestamp), and
// nothing but [allocation start, expiration] bounds that date: the owner signs a marker at one time, the blobber redeems it later.
// What a blobber has outstanding in the challenge pool, on the other hand, shrinks with every passed challenge and is capped by the
// write pool at upload time. So a delete marker can be worth more than the blobber's own outstanding value while the shared
// challenge pool (other blobbers' tokens) could still pay it. Each history runs two or three of these families on fresh allocations
// with data on several blobbers:
//
//	old-delete-after-passed-challenge   uploads; the owner signs delete markers for all blobbers; hours/days later a challenge is
//	                                    generated and passed (the blobber's value shrinks to the rest from the challenge's time);
//	                                    then the blobbers redeem the old delete markers
//	old-partial-deletes-then-rest       time passes, uploads; a partial delete dated before the upload, then the rest (dated then or now)
//	tiny-deletes                        small uploads; several deletes below the pricing unit, all in time order
//	delete-of-capped-upload             allocation funded with exactly its cost; sub-unit uploads use up the write pool, the last blobber's
//	                                    upload is capped by what is left; that data is deleted again
//	delete-dated-before-upload          time passes, uploads; the data is deleted by a marker dated before the upload
//
// Every step is an ordinary commit_connection / generate_challenge / challenge_response transaction through h.Submit; the C12
// monitor (stored challenge pool == sum of the blobbers' stored values) judges each of them. The scenario itself only counts,
// from the pre-state and the allocation's terms, how often a delete marker above the blobber's outstanding value was applied.

func init() {
	RegisterScenario(Scenario{Prop: "C12", Name: "delete-markers-above-outstanding-value", Every: 1, Fn: dmcScenario})
}

func dmcCount(h *Hist, k string) { h.C("C12", "dmc:"+k) }

func dmcScenario(h *Hist, mons []Monitor) {
	st := h.S.St
	if st.mons == nil {
		st.mons = mons
	}
	r := h.R.Fork("dmc-delete-markers-above-outstanding-value")
	st.NoHostile = true
	defer func() { st.NoHostile = false }()
	rest := []string{"old-partial-deletes-then-rest", "tiny-deletes", "delete-of-capped-upload", "delete-dated-before-upload"}
	r.Shuffle(len(rest), func(i, j int) { rest[i], rest[j] = rest[j], rest[i] })
	plan := []string{"old-delete-after-passed-challenge", rest[0]}
	if r.Chance(0.3) {
		plan[0] = rest[1]
	}
	if r.Chance(0.4) {
		plan = append(plan, rest[2])
	}
	r.Shuffle(len(plan), func(i, j int) { plan[i], plan[j] = plan[j], plan[i] })
	for _, variant := range plan {
		above := dmcRound(h, r, variant)
		dmcCount(h, fmt.Sprintf("round:%s|above-outstanding=%v", variant, above > 0))
		h.stNextBlock(r, 30)
	}
}

// dmcNewAlloc: an allocation over n blobbers (data shards n-1, or n-2 with two parity shards) of per-blobber size bsize; exact = the
// owner locks exactly the allocation's cost (the minimum the contract accepts), otherwise a multiple of it
func dmcNewAlloc(h *Hist, r *mon.Rand, n int, bsize int64, exact bool, variant string) *stAlloc {
	st := h.S.St
	conf := h.stConf()
	var usable []*stProv
	for _, p := range stShuffled(r, st.live(st.Blobbers)) {
		if h.stUsable(p, bsize) {
			usable = append(usable, p)
		}
	}
	if n > len(usable) {
		n = len(usable)
	}
	if n < 2 {
		dmcCount(h, "no-usable-blobbers")
		return nil
	}
	d, par := n-1, 1
	if n >= 3 && r.Chance(0.4) {
		d, par = n-2, 2
	}
	size := bsize * int64(d)
	if size < conf.MinAllocSize {
		dmcCount(h, "below-min-alloc-size")
		return nil
	}
	chosen := usable[:n]
	owner := h.stClient(r)
	in := map[string]interface{}{
		"data_shards": d, "parity_shards": par, "size": size,
		"read_price_range":       map[string]uint64{"min": 0, "max": conf.MaxReadPrice},
		"write_price_range":      map[string]uint64{"min": 0, "max": conf.MaxWritePrice},
		"third_party_extendable": r.Chance(0.5),
		"blobbers":               stIDs(chosen), "blobber_auth_tickets": h.stAuthTickets(chosen, owner.ID),
	}
	cost := h.stCost(chosen, stBSize(size, d))
	val := cost*uint64(2+r.Intn(3)) + 1e9
	if exact {
		val = cost + 1 // float rounding of the contract's own sum may differ by a unit
	}
	c := stCall(h, r, "new_allocation_request", owner, in, val)
	c.Meta["blobbers"], c.Meta["owner"], c.Meta["size"], c.Meta["scenario"], c.Meta["variant"] = stIDs(chosen), owner.ID, size, "dmc", variant
	var a *stAlloc
	c.After = func(h *Hist, o *TxnObs) {
		if o.Outcome != "success" {
			return
		}
		var out struct {
			ID string `json:"id"`
		}
		id := o.Txn.Hash
		if json.Unmarshal([]byte(o.Txn.TransactionOutput), &out) == nil && out.ID != "" {
			id = out.ID
		}
		o.Call.Meta["alloc"] = id
		a = h.stRegisterAlloc(id, owner, false)
	}
	h.stInner(c)
	return a
}

// dmcWait moves the logical clock: seconds, minutes, hours or days (the time unit is 30 days unless the settings were changed)
func dmcWait(h *Hist, r *mon.Rand, kinds ...string) string {
	k := kinds[r.Intn(len(kinds))]
	h.EndBlock()
	switch k {
	case "seconds":
		h.W.Advance(time.Duration(1+r.Intn(30)) * time.Second)
	case "minutes":
		h.W.Advance(time.Duration(1+r.Intn(120)) * time.Minute)
	case "hours":
		h.W.Advance(time.Duration(1+r.Intn(48)) * time.Hour)
	case "days":
		h.W.Advance(time.Duration(1+r.Intn(10)) * 24 * time.Hour)
	}
	return k
}

type dmcRun struct {
	h       *Hist
	r       *mon.Rand
	a       *stAlloc
	variant string
	above   int
}

// commit submits one marker of the given size change and date for the blobber and counts, from the pre-state view and the
// allocation's terms, whether a delete was worth more than the blobber had outstanding (and whether the other blobbers' tokens in
// the pool could have paid the difference)
func (d *dmcRun) commit(blobber string, size, ts int64, kind string) *TxnObs {
	h := d.h
	v := h.stGetAlloc(d.a.ID)
	if v == nil {
		return nil
	}
	ba := v.ba(blobber)
	if ba == nil {
		return nil
	}
	c := dmcCommitAt(h, d.r, d.a, v, ba, size, ts, kind, "dmc")
	if c == nil {
		return nil
	}
	c.Meta["variant"] = d.variant
	conf := h.stConf()
	msize, _ := c.Meta["marker"].(map[string]interface{})["size"].(int64)
	mts, _ := c.Meta["marker"].(map[string]interface{})["timestamp"].(int64)
	worth := uint64(dmcMarkerValue(conf, v, ba, msize, mts))
	above := dmcAbove(conf, v, ba, msize, mts)
	var others uint64
	holders := 0
	for _, b := range v.BlobberAllocs {
		if b.BlobberID != blobber {
			others += b.CPIntegral
		}
		if b.CPIntegral > 0 {
			holders++
		}
	}
	c.Meta["marker_worth"], c.Meta["outstanding_before"], c.Meta["above_outstanding"] = worth, ba.CPIntegral, above
	o := h.stInner(c)
	dated := "now"
	if mts < int64(h.W.Now) {
		dated = "earlier"
	}
	if msize < 0 {
		key := fmt.Sprintf("delete|%s|%s|dated=%s|above-outstanding=%v|%s", d.variant, kind, dated, above, o.Outcome)
		dmcCount(h, key)
		if run := h.Runs["C12"]; run != nil {
			run.Distinct(fmt.Sprintf("dmc|%s|holders=%d|v2=%v", key, holders, c.Meta["marker"].(map[string]interface{})["v2"]))
		}
	}
	if above && o.Outcome == "success" {
		d.above++
		h.C("C12", "delete_marker_above_outstanding_value")
		if worth-ba.CPIntegral <= others {
			h.C("C12", "delete_marker_above_outstanding_value_payable_by_other_blobbers")
		}
		fmt.Printf("SCENARIO-STEP %s dmc variant=%s kind=%s blobber=%s size=%d marker_ts=%d now=%d worth=%d outstanding=%d others=%d\n",
			h.ID, d.variant, kind, h.name(blobber), msize, mts, int64(h.W.Now), worth, ba.CPIntegral, others)
	}
	return o
}

func (d *dmcRun) view() *stAllocView { return d.h.stGetAlloc(d.a.ID) }

func (d *dmcRun) used(blobber string) int64 {
	if v := d.view(); v != nil {
		if ba := v.ba(blobber); ba != nil && ba.Stats != nil {
			return ba.Stats.UsedSize
		}
	}
	return 0
}

func (d *dmcRun) value(blobber string) uint64 {
	if v := d.view(); v != nil {
		if ba := v.ba(blobber); ba != nil {
			return ba.CPIntegral
		}
	}
	return 0
}

// dmcRound runs one family on a fresh allocation; returns how many delete markers above the outstanding value were applied
func dmcRound(h *Hist, r *mon.Rand, variant string) int {
	st := h.S.St
	n := 2 + r.Intn(3)
	bsize := []int64{16 * stMB, 64 * stMB, 256 * stMB}[r.Intn(3)]
	exact := false
	switch variant {
	case "delete-of-capped-upload":
		bsize, exact = stMB, true
		n = 2 + r.Intn(2)
	case "tiny-deletes":
		bsize = []int64{stMB, 16 * stMB}[r.Intn(2)]
	}
	a := dmcNewAlloc(h, r, n, bsize, exact, variant)
	if a == nil {
		return 0
	}
	d := &dmcRun{h: h, r: r, a: a, variant: variant}
	v := d.view()
	if v == nil || h.W.Wallets[v.Owner] == nil || len(v.BlobberAllocs) < 2 {
		return 0
	}
	var ids []string
	for _, ba := range v.BlobberAllocs {
		ids = append(ids, ba.BlobberID)
	}
	now := func() int64 { return int64(h.W.Now) }
	uploadAll := func(sizes []int64) int {
		ok := 0
		for _, id := range ids {
			if o := d.commit(id, sizes[r.Intn(len(sizes))], now(), "upload"); o != nil && o.Outcome == "success" {
				ok++
			}
		}
		return ok
	}

	switch variant {
	case "old-delete-after-passed-challenge":
		if r.Chance(0.5) {
			dmcWait(h, r, "seconds", "minutes", "hours")
		}
		if uploadAll([]int64{stMB, 16 * stMB, bsize / 4, bsize / 2, bsize}) < 2 {
			return d.above
		}
		// the owner deletes a file: a delete marker per blobber, signed now
		dmcWait(h, r, "seconds", "seconds", "minutes")
		signedAt := now()
		part := map[string]int64{}
		for _, id := range ids {
			u := d.used(id)
			part[id] = []int64{u, u, u / 2, u - u/4}[r.Intn(4)]
		}
		// hours or days later a challenge is generated for one of the blobbers and passed
		wait := dmcWait(h, r, "hours", "days", "days")
		conf := h.stConf()
		if rd := h.stExecRound(); rd < conf.trigger() { // passing needs the blobber in the ongoing reward partition (round >= trigger period)
			h.stSkipRounds(int(conf.trigger() - rd + 1))
		}
		passed := map[string]bool{}
		for try := 0; try < 6 && len(passed) < 1+r.Intn(2); try++ {
			h.stInner(stGenChallenge(h, r))
			h.stNextBlock(r, 20)
			h.stSyncChallenges(h.Cur)
			for _, ch := range st.Chals {
				if ch.Done || ch.Alloc != a.ID {
					continue
				}
				before := d.value(ch.Blobber)
				if c := stRespond(h, r, ch, true); c != nil {
					c.Meta["scenario"], c.Meta["variant"] = "dmc", variant
					if o := h.stInner(c); o.Outcome == "success" && d.value(ch.Blobber) < before {
						passed[ch.Blobber] = true
						dmcCount(h, "challenge-passed-value-shrunk|wait="+wait)
					} else {
						dmcCount(h, "challenge-response|"+o.Outcome+"|value-not-shrunk")
					}
				}
			}
		}
		if len(passed) == 0 {
			dmcCount(h, "no-challenge-passed")
		}
		h.stNextBlock(r, 60)
		// the blobbers redeem the old delete markers: the challenged ones first or last
		order := append([]string{}, ids...)
		r.Shuffle(len(order), func(i, j int) { order[i], order[j] = order[j], order[i] })
		for _, id := range order {
			if !passed[id] && r.Chance(0.3) {
				continue // this blobber keeps its marker for later
			}
			d.commit(id, -part[id], signedAt, "delete-signed-before-challenge")
			if r.Chance(0.3) {
				h.stNextBlock(r, 30)
			}
		}

	case "old-partial-deletes-then-rest":
		wait := dmcWait(h, r, "minutes", "hours", "days")
		if uploadAll([]int64{16 * stMB, bsize / 4, bsize / 2, bsize}) < 2 {
			return d.above
		}
		uploadedAt := now()
		old := v.StartTime + int64(r.U64()%uint64(uploadedAt-v.StartTime+1))
		if r.Chance(0.3) {
			old = v.StartTime
		}
		dmcWait(h, r, "seconds", "seconds", "minutes", "hours")
		for i, id := range ids {
			if i > 0 && r.Chance(0.35) {
				continue
			}
			u := d.used(id)
			d.commit(id, -[]int64{u / 2, u / 3, u - u/4}[r.Intn(3)], old, "partial-delete-dated-before-upload")
			if r.Chance(0.5) {
				dmcWait(h, r, "seconds", "minutes")
			}
			ts := now()
			kind := "rest-deleted-dated-now"
			if r.Chance(0.5) {
				ts, kind = old, "rest-deleted-dated-before-upload"
			}
			d.commit(id, -d.used(id), ts, kind)
		}
		dmcCount(h, "old-partial-deletes|wait="+wait)

	case "tiny-deletes":
		if r.Chance(0.5) {
			dmcWait(h, r, "seconds", "minutes", "hours")
		}
		if uploadAll([]int64{dmcChunk + 1, 100 * stKB, 150 * stKB, 200 * stKB}) < 2 {
			return d.above
		}
		for i, id := range ids {
			if i > 1 && r.Chance(0.5) {
				continue
			}
			for k := 2 + r.Intn(3); k > 0 && d.used(id) > 0; k-- {
				if r.Chance(0.4) {
					dmcWait(h, r, "seconds", "seconds", "minutes")
				}
				d.commit(id, -[]int64{1, 1, 1024, 10 * stKB}[r.Intn(4)], now(), "delete-below-pricing-unit")
			}
		}

	case "delete-of-capped-upload":
		// everything in the block of the allocation or seconds later: the write pool holds exactly the allocation's cost
		if r.Chance(0.3) {
			h.stNextBlock(r, 5)
		}
		last := ids[0]
		k := int64(5 + r.Intn(5))
		for i, id := range ids[1:] {
			if i > 0 {
				d.commit(id, bsize, now(), "upload") // the other blobbers fill their share
				continue
			}
			d.commit(id, bsize-k, now(), "upload")
			for j := int64(0); j < k; j++ {
				d.commit(id, 1, now(), "upload-below-pricing-unit") // one byte is priced as a whole unit
			}
		}
		pre := d.view()
		if pre == nil {
			return d.above
		}
		conf := h.stConf()
		o := d.commit(last, bsize, now(), "upload-capped-by-write-pool")
		if post := d.view(); o != nil && o.Outcome == "success" && post != nil {
			if got, nominal := post.ba(last).CPIntegral, uint64(dmcMarkerValue(conf, pre, pre.ba(last), bsize, now())); got < nominal {
				dmcCount(h, "upload-capped-by-write-pool")
			} else {
				dmcCount(h, "upload-not-capped")
			}
		}
		if r.Chance(0.5) {
			dmcWait(h, r, "seconds", "seconds", "minutes")
		}
		u := d.used(last)
		d.commit(last, -[]int64{u, u, u - u/8}[r.Intn(3)], now(), "delete-of-capped-upload")

	case "delete-dated-before-upload":
		wait := dmcWait(h, r, "minutes", "hours", "days")
		if uploadAll([]int64{stMB, 16 * stMB, bsize / 2, bsize}) < 2 {
			return d.above
		}
		uploadedAt := now()
		if r.Chance(0.6) {
			dmcWait(h, r, "seconds", "minutes", "hours")
		}
		for i, id := range ids {
			if i > 0 && r.Chance(0.4) {
				continue
			}
			old := v.StartTime + int64(r.U64()%uint64(uploadedAt-v.StartTime+1))
			u := d.used(id)
			d.commit(id, -[]int64{u, u, u - u/16}[r.Intn(3)], old, "delete-dated-before-upload")
		}
		dmcCount(h, "delete-dated-before-upload|wait="+wait)
	}

	// ordinary traffic in time order on the same allocation afterwards
	h.stNextBlock(r, 30)
	for _, id := range ids {
		switch u := d.used(id); {
		case u > 0 && r.Chance(0.5):
			d.commit(id, -[]int64{u, u / 2, dmcChunk}[r.Intn(3)], now(), "delete")
		case r.Chance(0.6):
			d.commit(id, []int64{stMB, 256 * stKB, bsize / 8}[r.Intn(3)], now(), "upload")
		}
	}
	if v = d.view(); v != nil && r.Chance(0.3) {
		if owner := h.W.Wallets[v.Owner]; owner != nil {
			c := stCall(h, r, "cancel_allocation", owner, map[string]string{"allocation_id": a.ID}, 0)
			c.Meta["alloc"], c.Meta["closes"], c.Meta["scenario"], c.Meta["variant"] = a.ID, "cancel", "dmc", variant
			c.After = stCloseAfter(a, "cancel")
			o := h.stInner(c)
			dmcCount(h, "close:cancel|"+o.Outcome)
		}
	}
	return d.above
}
