package schist

import (
	"fmt"

	"0chain.net/core/config"

	"verifh/mon"
	"verifh/obs"
	"verifh/snap"
	"verifh/world"
)

// genesisSupplyC01 judges the first half of the statement at its source: the balances the real genesis distribution
// (mustInitGBState, driven through GenerateGenesisBlock by the world) wrote add up to the maximum supply, for the
// genesis shape of this world. The per-transaction monitor only reports the transaction that changes the sum, so a
// genesis that is already short or long has to be reported here.
func genesisSupplyC01(w *world.World, o *obs.Observer, run *mon.Run, shape int) {
	cur, err := snap.Take(w.GB.ClientState)
	if err != nil {
		panic(fmt.Sprintf("genesis snapshot: %v", err))
	}
	var sum uint64
	wrap := false
	n := 0
	for p, raw := range cur {
		if o.Lookup(p) != nil {
			continue
		}
		if cl, ok := snap.DecodeClient(raw); ok {
			ns := sum + cl.Balance
			if ns < sum {
				wrap = true
			}
			sum = ns
			n++
		}
	}
	run.Count("genesis_supply_checked", 1)
	run.Count(fmt.Sprintf("genesis_shape[%d]", shape), 1)
	run.Eval(1)
	run.Distinct(fmt.Sprintf("genesis|shape%d", shape))
	if wrap || sum != config.MaxTokenSupply {
		run.Violate("genesis-supply-differs", fmt.Sprintf("genesis (distribution shape %d, %d accounts): balances add up to %d, max supply is %d [delta %+d]", shape, n, sum, uint64(config.MaxTokenSupply), int64(sum)-int64(config.MaxTokenSupply)),
			map[string]interface{}{"seed": run.SeedV, "genesis_shape": shape})
	}
}
