package schist

import (
	"encoding/json"
	"fmt"
	"math"
	"strconv"
	"strings"
	"unicode"

	"0chain.net/chaincore/transaction"
	"0chain.net/core/encryption"
	"0chain.net/smartcontract/zcnsc"
	"github.com/herumi/bls-go-binary/bls"

	"verifh/mon"
	"verifh/snap"
	"verifh/world"
)

type authShadow struct {
	W        *world.Wallet
	Delegate *world.Wallet
	Deleted  bool
	Stakers  []*world.Wallet
}

type zcnShadow struct {
	Auths     []*authShadow
	NextNonce int64
	Minted    []int64
	MintedEth map[int64]string // burn reference of every successful mint (generator memory)
	EthAddrs  []string
	n         int
}

func newZcnShadow() *zcnShadow {
	return &zcnShadow{NextNonce: 1, EthAddrs: []string{"0xAAA1", "0xBBB2", "0xCCC3", "8ba1f109551bd432803012645ac136ddd64dba72", "ddd4", "0x5aAeb6053F3E94C9b9A09f33669435E7Ef1BeAed"}}
}

func mintStringToSign(ethTxn string, amount uint64, nonce int64, recv string) string {
	return encryption.Hash(fmt.Sprintf("%v:%v:%v:%v", ethTxn, amount, nonce, recv))
}

func zcnOps() []OpDef {
	sc := zcnsc.ADDRESS
	T := transaction.TxnTypeSmartContract
	live := func(h *Hist) []*authShadow {
		var out []*authShadow
		for _, a := range h.S.Zc.Auths {
			if !a.Deleted {
				out = append(out, a)
			}
		}
		return out
	}
	return []OpDef{
		{Name: "zcn.add-authorizer", Tags: []string{"zcn", "setup", "C18"}, Build: func(h *Hist, r *mon.Rand) *Call {
			z := h.S.Zc
			if len(live(h)) >= 5 && r.Chance(0.8) {
				return nil
			}
			z.n++
			a := &authShadow{W: h.W.AddWallet(fmt.Sprintf("%s-auth%d", h.ID, z.n)), Delegate: h.anyClient(r)}
			h.Names[a.W.ID] = fmt.Sprintf("auth%d", z.n)
			from := h.W.Owner
			mut := ""
			hostile := h.Vars["hostile"].(float64)
			if r.Chance(hostile * 0.3) {
				from = h.anyClient(r)
				mut = "not-owner"
			}
			in := map[string]interface{}{"public_key": a.W.PubKey, "url": fmt.Sprintf("https://auth%d", z.n),
				"stake_pool_settings": map[string]interface{}{"delegate_wallet": a.Delegate.ID, "num_delegates": 1 + r.Intn(5), "service_charge": []float64{0, 0.1, 0.25}[r.Intn(3)]}}
			if r.Chance(hostile*0.2) && len(z.Auths) > 0 {
				in["public_key"] = z.Auths[0].W.PubKey
				mut = "duplicate"
			}
			c := &Call{Name: "zcn.add-authorizer", Mut: mut, Spec: world.TxnSpec{From: from, To: sc, Fee: Coin(h.fee(r) % 1000), Type: T, Func: "add-authorizer", Input: in}}
			c.After = func(h *Hist, o *TxnObs) {
				if o.Outcome == "success" && mut != "duplicate" {
					z.Auths = append(z.Auths, a)
				}
			}
			return c
		}},
		{Name: "zcn.delete-authorizer", Tags: []string{"zcn", "C18"}, Build: func(h *Hist, r *mon.Rand) *Call {
			l := live(h)
			if len(l) < 2 || r.Chance(0.7) {
				return nil
			}
			a := l[r.Intn(len(l))]
			from := h.W.Owner
			mut := ""
			switch {
			case r.Chance(0.3):
				from = a.Delegate
			case r.Chance(h.Vars["hostile"].(float64) * 0.5):
				from = h.anyWallet(r)
				mut = "any-caller"
			}
			c := &Call{Name: "zcn.delete-authorizer", Mut: mut, Meta: map[string]interface{}{"provider_type": "authorizer", "provider_id": a.W.ID}, Spec: world.TxnSpec{From: from, To: sc, Fee: Coin(h.fee(r) % 1000), Type: T, Func: "delete-authorizer", Input: map[string]string{"id": a.W.ID}}}
			c.After = func(h *Hist, o *TxnObs) {
				if o.Outcome == "success" {
					a.Deleted = true
				}
			}
			return c
		}},
		{Name: "zcn.burn", Tags: []string{"zcn", "C19"}, Build: func(h *Hist, r *mon.Rand) *Call {
			from := h.anyWallet(r)
			z := h.S.Zc
			addr := z.EthAddrs[r.Intn(len(z.EthAddrs))]
			mut := ""
			if r.Chance(0.1) {
				addr = fmt.Sprintf("0xNEW%d", r.Intn(1000))
				if r.Chance(0.4) {
					addr = fmt.Sprintf("%040x", r.Intn(1000)) // an address written without the 0x prefix
				}
			}
			bal, _ := h.Bal(h.Cur, from.ID)
			v := []uint64{1, 5, 1e10 - 1, 1e10, 1e10 + 1, 7e10, bal, bal + 1, 0}[r.Intn(9)]
			if r.Chance(0.45) {
				// around the two bridge minimums as currently configured (they may differ after a settings update)
				mm, mb := zbMinimums(h)
				v = zbAround(r, mm, mb)
			}
			if r.Chance(0.15 + h.hostile()*0.3) {
				// another spelling of a known target address (Ethereum addresses are hex: case, blanks)
				k := r.Intn(5)
				addr = []string{strings.ToLower(addr), "0x" + strings.ToUpper(addr[2:]), addr + " ", " " + addr, "0X" + addr[2:]}[k]
				mut = "address-respelled"
			}
			in := map[string]interface{}{"ethereum_address": addr}
			pNoAddr := h.Vars["hostile"].(float64) * 0.3
			if h.Focus == "C19" && pNoAddr < 0.15 {
				pNoAddr = 0.15
			}
			if r.Chance(pNoAddr) {
				in["ethereum_address"] = []string{"", "", " "}[r.Intn(3)]
				mut = "no-address"
				if in["ethereum_address"] != "" {
					mut = "blank-address"
				} else if r.Chance(0.6) {
					// no target address because the payload does not carry the key at all (or carries null): whatever an
					// earlier burn's payload held must not be picked up
					in = []map[string]interface{}{{}, {"nonce": 7}, {"ethereum_address": nil}, {"ethereum_addres": addr}, {"amount": 5, "hash": "x"}}[r.Intn(5)]
					mut = "address-key-absent"
				}
			}
			ethMeta, _ := in["ethereum_address"].(string)
			return &Call{Name: "zcn.burn", Mut: mut, Meta: map[string]interface{}{"eth": ethMeta}, Spec: world.TxnSpec{From: from, To: sc, Value: Coin(v), Fee: Coin(h.fee(r) % 1000), Type: T, Func: "burn", Input: in}}
		}},
		{Name: "zcn.mint", Tags: []string{"zcn", "C18"}, Build: func(h *Hist, r *mon.Rand) *Call { return zcBuildMint(h, r, "") }},
		{Name: "zcn.stake", Tags: []string{"zcn", "stake", "C11"}, Build: func(h *Hist, r *mon.Rand) *Call {
			l := h.S.Zc.Auths
			if len(l) == 0 {
				return nil
			}
			a := l[r.Intn(len(l))]
			from := h.anyClient(r)
			if r.Chance(0.3) {
				from = a.Delegate
			}
			v := []uint64{1e10, 5e10, 1e10 - 1, 0, 20000e10, 20000e10 + 1, 3e12}[r.Intn(7)]
			c := &Call{Name: "zcn.stake", Meta: map[string]interface{}{"provider_type": "authorizer", "provider_id": a.W.ID, "stake": "lock"}, Spec: world.TxnSpec{From: from, To: sc, Value: Coin(v), Fee: Coin(h.fee(r) % 1000), Type: T, Func: "add-to-delegate-pool", Input: map[string]interface{}{"provider_type": 5, "provider_id": a.W.ID}}}
			c.After = func(h *Hist, o *TxnObs) {
				if o.Outcome == "success" {
					a.Stakers = append(a.Stakers, from)
				}
			}
			return c
		}},
		{Name: "zcn.unstake", Tags: []string{"zcn", "stake", "C11"}, Build: func(h *Hist, r *mon.Rand) *Call {
			l := h.S.Zc.Auths
			if len(l) == 0 {
				return nil
			}
			a := l[r.Intn(len(l))]
			from := h.anyClient(r)
			if len(a.Stakers) > 0 && r.Chance(0.75) {
				from = a.Stakers[r.Intn(len(a.Stakers))]
			}
			return &Call{Name: "zcn.unstake", Meta: map[string]interface{}{"provider_type": "authorizer", "provider_id": a.W.ID, "stake": "unlock"}, Spec: world.TxnSpec{From: from, To: sc, Fee: Coin(h.fee(r) % 1000), Type: T, Func: "delete-from-delegate-pool", Input: map[string]interface{}{"provider_type": 5, "provider_id": a.W.ID}}}
		}},
		{Name: "zcn.collect-rewards", Tags: []string{"zcn", "stake", "C11"}, Build: func(h *Hist, r *mon.Rand) *Call {
			l := h.S.Zc.Auths
			if len(l) == 0 {
				return nil
			}
			a := l[r.Intn(len(l))]
			from := h.anyClient(r)
			if r.Chance(0.4) {
				from = a.Delegate
			} else if len(a.Stakers) > 0 && r.Chance(0.7) {
				from = a.Stakers[r.Intn(len(a.Stakers))]
			}
			return &Call{Name: "zcn.collect-rewards", Meta: map[string]interface{}{"provider_type": "authorizer", "provider_id": a.W.ID, "stake": "collect"}, Spec: world.TxnSpec{From: from, To: sc, Fee: Coin(h.fee(r) % 1000), Type: T, Func: "collect-rewards", Input: map[string]interface{}{"provider_type": 5, "provider_id": a.W.ID}}}
		}},
	}
}

// ---- mint payload generator -------------------------------------------------------------------------------------------------

func zcLive(h *Hist) []*authShadow {
	var out []*authShadow
	for _, a := range h.S.Zc.Auths {
		if !a.Deleted {
			out = append(out, a)
		}
	}
	return out
}

// zcPercent reads the configured signer fraction of the current state (generator side: used to aim at the threshold only).
func zcPercent(h *Hist) float64 {
	p := 0.7
	for _, n := range h.NodesOfType(h.Cur, "*zcnsc.GlobalNode") {
		if f := F(n.Val, "ZCNSConfig.PercentAuthorizers"); f.IsValid() {
			p = f.Float()
		}
	}
	return p
}

// zcPoint returns the affine coordinates (hex) of a compressed hex signature.
func zcPoint(sig string) (x, y string, ok bool) {
	defer func() {
		if e := recover(); e != nil {
			ok = false
		}
	}()
	if len(sig) < 2 || len(sig)%2 == 1 {
		return "", "", false
	}
	var s bls.Sign
	if err := s.DeserializeHexStr(sig); err != nil {
		return "", "", false
	}
	p := strings.Fields(s.GetHexString())
	if len(p) != 3 {
		return "", "", false
	}
	return p[1], p[2], true
}

// signature spellings: the first group decodes to the same signature as the lower-case compressed hex the wallets produce
// (hex digits in either case; the "(x,y)" affine form the signature scheme also accepts), the second group does not decode.
var zcSpellOK = []string{"upper", "mixed", "affine", "affine-upper", "affine-0x", "affine-spaced"}
var zcSpellBad = []string{"0x", "0X-upper", "space-lead", "space-trail", "newline-trail", "tab-inner"}

func zcRespell(sig, kind string, r *mon.Rand) string {
	affine := func(f func(x, y string) string) string {
		x, y, ok := zcPoint(sig)
		if !ok {
			return strings.ToUpper(sig)
		}
		return f(x, y)
	}
	switch kind {
	case "upper":
		return strings.ToUpper(sig)
	case "mixed":
		b := []byte(sig)
		up, low := 0, 0
		for i, c := range b {
			if c >= 'a' && c <= 'f' {
				if r.Chance(0.5) {
					b[i] = c - 'a' + 'A'
					up++
				} else {
					low++
				}
			}
		}
		if up == 0 || low == 0 {
			for i, c := range b {
				if c >= 'a' && c <= 'f' {
					b[i] = c - 'a' + 'A'
					break
				}
				if c >= 'A' && c <= 'F' {
					b[i] = c - 'A' + 'a'
					break
				}
			}
		}
		return string(b)
	case "affine":
		return affine(func(x, y string) string { return "(" + x + "," + y + ")" })
	case "affine-upper":
		return affine(func(x, y string) string { return "(" + strings.ToUpper(x) + "," + strings.ToUpper(y) + ")" })
	case "affine-0x":
		return affine(func(x, y string) string { return "(0x" + x + ",0x" + y + ")" })
	case "affine-spaced":
		return affine(func(x, y string) string { return "( " + x + " , " + y + " )" })
	case "0x":
		return "0x" + sig
	case "0X-upper":
		return "0X" + strings.ToUpper(sig)
	case "space-lead":
		return " " + sig
	case "space-trail":
		return sig + " "
	case "newline-trail":
		return sig + "\n"
	case "tab-inner":
		return sig[:len(sig)/2] + "\t" + sig[len(sig)/2:]
	}
	return sig
}

// zcBuildMint builds one mint call. family "" = the random operation (hostile mutations with the history's probability);
// "dup", "respell", "pad-foreign", "plain" = directed payload families used by the C18 scenario.
func zcBuildMint(h *Hist, r *mon.Rand, family string) *Call {
	sc := zcnsc.ADDRESS
	z := h.S.Zc
	l := zcLive(h)
	if len(z.Auths) == 0 {
		return nil
	}
	hostile := h.hostile()
	directed := family != ""
	recv := h.anyWallet(r)
	if directed {
		recv = h.anyClient(r)
	}
	from := recv
	mut := ""
	nonce := z.NextNonce
	eth := fmt.Sprintf("0xeth%d", r.Intn(100000))
	reuse := 0.15 + hostile*0.3
	if directed {
		reuse = 0.08
	}
	if len(z.Minted) > 0 && r.Chance(reuse) {
		nonce = z.Minted[r.Intn(len(z.Minted))]
		mut = "nonce-reuse"
		if old := z.MintedEth[nonce]; old != "" && r.Chance(0.5) {
			// the same burn reference again, possibly in another spelling
			eth = []string{old, strings.ToUpper(old), old + " "}[r.Intn(3)]
			mut = "nonce-reuse-same-burn-ref"
		}
	}
	amount := []uint64{1e10, 1e12, 100e10, 100e10 - 1, 100e10 + 1, 5, 3e12}[r.Intn(7)]
	if directed {
		amount = []uint64{1e12, 100e10, 100e10 + 1, 3e12, 2e10}[r.Intn(5)]
	}
	recvID := recv.ID
	toSign := mintStringToSign(eth, amount, nonce, recvID)
	thr := int(math.RoundToEven(zcPercent(h) * float64(len(l))))
	type ent = map[string]string
	var sigs []ent
	entry := func(a *authShadow) ent { return ent{"authorizer_id": a.W.ID, "signature": a.W.Sign(toSign)} }
	// how many distinct live authorizers sign
	k := len(l)
	if len(l) > 0 {
		switch r.Intn(7) {
		case 0:
			k = 1 + r.Intn(len(l))
		case 1:
			k = thr // exactly the threshold
		case 2:
			k = thr - 1
		case 3:
			k = thr + 1
		}
		if family == "dup" || family == "pad-foreign" {
			// mostly one signer short of the quorum: the padding decides
			switch {
			case thr >= 2 && r.Chance(0.65):
				k = thr - 1
			case r.Chance(0.5):
				k = thr
			default:
				k = 1 + r.Intn(len(l))
			}
		}
		if k < 0 {
			k = 0
		}
		if k > len(l) {
			k = len(l)
		}
		if directed && k == 0 {
			k = 1
		}
	}
	perm := make([]int, len(l))
	for i := range perm {
		perm[i] = i
	}
	r.Shuffle(len(perm), func(i, j int) { perm[i], perm[j] = perm[j], perm[i] })
	for i := 0; i < k && i < len(perm); i++ {
		sigs = append(sigs, entry(l[perm[i]]))
	}
	base := len(sigs)
	// number of entries the padded payload shall have: at, above the threshold, the number of authorizers, beyond it
	target := func() int {
		t := []int{thr, thr + 1, len(l), len(l) + 2, base + 1, 2 * base}[r.Intn(6)]
		if t <= base {
			t = base + 1
		}
		return t
	}
	mutation := -1
	if !directed && r.Chance(hostile) && len(sigs) > 0 {
		mutation = r.Intn(12)
	}
	switch family {
	case "dup":
		mutation = []int{0, 6, 6, 6, 6, 7, 11}[r.Intn(7)]
	case "respell":
		mutation = 8
	case "pad-foreign":
		mutation = []int{2, 5, 9, 10}[r.Intn(4)]
	}
	if len(sigs) == 0 {
		mutation = -1
	}
	switch mutation {
	case 0: // identical duplicates pad the count
		for t := target(); len(sigs) < t; {
			sigs = append(sigs, sigs[r.Intn(base)])
		}
		mut = "duplicate-signatures"
	case 1: // forged signature
		sigs[0]["signature"] = h.anyClient(r).Sign(toSign)
		mut = "forged-signature"
	case 2: // signed by non-authorizers
		n := 1
		if t := target(); family != "" {
			n = t - base
		}
		for i := 0; i < n; i++ {
			st := h.anyClient(r)
			sigs = append(sigs, ent{"authorizer_id": st.ID, "signature": st.Sign(toSign)})
		}
		mut = "non-authorizer"
	case 3: // signed for another payload
		other := mintStringToSign(eth, amount+1, nonce, recvID)
		for _, s := range sigs {
			for _, a := range l {
				if a.W.ID == s["authorizer_id"] {
					s["signature"] = a.W.Sign(other)
				}
			}
		}
		mut = "other-payload"
	case 4: // submitted by someone else
		from = h.anyClient(r)
		if from != recv {
			mut = "foreign-submitter"
		}
	case 5: // deleted authorizers sign
		for _, a := range z.Auths {
			if a.Deleted {
				sigs = append(sigs, entry(a))
				mut = "deleted-authorizer"
				if !directed {
					break
				}
			}
		}
	case 6: // the same authorizers again, their signatures in other spellings that decode to the same signature
		kind := zcSpellOK[r.Intn(len(zcSpellOK))]
		many := r.Chance(0.3)
		for t := target(); len(sigs) < t; {
			if many {
				kind = zcSpellOK[r.Intn(len(zcSpellOK))]
			}
			b := sigs[r.Intn(base)]
			sigs = append(sigs, ent{"authorizer_id": b["authorizer_id"], "signature": zcRespell(b["signature"], kind, r)})
		}
		mut = "dup-signer-" + kind
		if many {
			mut = "dup-signer-many-spellings"
		}
	case 7: // the same authorizers again, signatures in spellings the decoder refuses
		kind := zcSpellBad[r.Intn(len(zcSpellBad))]
		for t := target(); len(sigs) < t; {
			b := sigs[r.Intn(base)]
			sigs = append(sigs, ent{"authorizer_id": b["authorizer_id"], "signature": zcRespell(b["signature"], kind, r)})
		}
		mut = "dup-signer-" + kind
	case 8: // no duplicates, every signature in another spelling
		kind := append(append([]string{}, zcSpellOK...), zcSpellBad...)[r.Intn(len(zcSpellOK)+len(zcSpellBad))]
		for _, s := range sigs {
			s["signature"] = zcRespell(s["signature"], kind, r)
		}
		mut = "spelled-" + kind
	case 9: // one signature filed under further registered authorizer ids
		for i := base; i < len(perm) && len(sigs) < target(); i++ {
			sigs = append(sigs, ent{"authorizer_id": l[perm[i]].W.ID, "signature": sigs[r.Intn(base)]["signature"]})
		}
		mut = "signature-under-other-id"
	case 10: // the same authorizers again under other spellings of their ids
		kind := r.Intn(4)
		for t := target(); len(sigs) < t; {
			b := sigs[r.Intn(base)]
			id := b["authorizer_id"]
			id = []string{strings.ToUpper(id), id + " ", " " + id, "0x" + id}[kind]
			sigs = append(sigs, ent{"authorizer_id": id, "signature": b["signature"]})
		}
		mut = "dup-signer-id-respelled"
	case 11: // duplicates first, the distinct signers at the end (beyond the number of authorizers)
		first := sigs[0]
		var pad []ent
		for i := 0; i < len(l)+r.Intn(2); i++ {
			pad = append(pad, ent{"authorizer_id": first["authorizer_id"], "signature": zcRespell(first["signature"], zcSpellOK[r.Intn(len(zcSpellOK))], r)})
		}
		sigs = append(pad, sigs...)
		mut = "dup-signer-flood-first"
	}
	if mutation != 11 && len(sigs) > base && r.Chance(0.5) {
		r.Shuffle(len(sigs), func(i, j int) { sigs[i], sigs[j] = sigs[j], sigs[i] })
	}
	if !directed && r.Chance(hostile*0.15) {
		// the receiving client in another spelling (signed as spelled)
		recvID = strings.ToUpper(recv.ID)
		toSign = mintStringToSign(eth, amount, nonce, recvID)
		for _, s := range sigs {
			for _, a := range l {
				if a.W.ID == s["authorizer_id"] {
					s["signature"] = a.W.Sign(toSign)
				}
			}
		}
		mut = "receiver-id-respelled"
	}
	in := map[string]interface{}{"ethereum_txn_id": eth, "amount": amount, "nonce": nonce, "receiving_client_id": recvID, "signatures": sigs}
	meta := map[string]interface{}{"mint": map[string]interface{}{"eth": eth, "amount": amount, "nonce": nonce, "recv": recvID, "sigs": sigs}}
	if directed {
		meta["c18_directed"] = family
	}
	c := &Call{Name: "zcn.mint", Mut: mut, Meta: meta, Spec: world.TxnSpec{From: from, To: sc, Fee: Coin(h.fee(r) % 1000), Type: transaction.TxnTypeSmartContract, Func: "mint", Input: in}}
	c.After = func(h *Hist, o *TxnObs) {
		if o.Outcome == "success" {
			z.Minted = append(z.Minted, nonce)
			if z.MintedEth == nil {
				z.MintedEth = map[int64]string{}
			}
			z.MintedEth[nonce] = eth
			if nonce == z.NextNonce {
				z.NextNonce++
			}
		}
	}
	return c
}

// zcScenarioC18 is the directed part of the C18 workload: it registers a few authorizers, sometimes changes the configured
// fraction, and submits mints whose signature lists repeat signers (identical entries, other spellings of the signature or of the
// id, foreign and removed signers) around the quorum threshold. The random operations follow.
func zcScenarioC18(h *Hist, mons []Monitor) {
	r := h.R.Fork("c18-dup-signers")
	byName := map[string]OpDef{}
	for _, op := range zcnOps() {
		byName[op.Name] = op
	}
	submit := func(c *Call) *TxnObs {
		if c == nil {
			return nil
		}
		o := h.Submit(c, mons)
		if o.Outcome != "rejected" {
			h.S.Accepted = append(h.S.Accepted, o.Txn)
			if len(h.S.Accepted) > 64 {
				h.S.Accepted = h.S.Accepted[1:]
			}
		}
		if h.TxInBlk >= 1+r.Intn(5) {
			h.EndBlock()
			h.advanceTime(r)
		}
		return o
	}
	want := 3 + r.Intn(3)
	for try := 0; len(zcLive(h)) < want && try < 14; try++ {
		submit(byName["zcn.add-authorizer"].Build(h, r))
	}
	if r.Chance(0.5) {
		fields := map[string]string{"percent_authorizers": []string{"0.5", "1", "0.34", "0.6", "0.7"}[r.Intn(5)], "min_stake": "1"}
		submit(&Call{Name: "zcn.update-settings", Meta: map[string]interface{}{"gov": "zcn", "settings": fields, "all_valid_syntax": true},
			Spec: world.TxnSpec{From: h.W.Owner, To: zcnsc.ADDRESS, Fee: Coin(h.fee(r) % 1000), Type: transaction.TxnTypeSmartContract, Func: "update-global-config", Input: map[string]interface{}{"fields": fields}}})
	}
	for i := 0; i < 2; i++ {
		submit(byName["zcn.stake"].Build(h, r))
	}
	for i := 0; i < 7; i++ {
		fam := []string{"dup", "dup", "dup", "dup", "dup", "dup", "respell", "pad-foreign", "pad-foreign", "plain"}[r.Intn(10)]
		submit(zcBuildMint(h, r, fam))
		if i == 3 {
			submit(byName["zcn.delete-authorizer"].Build(h, r))
		}
	}
	h.EndBlock()
}

func init() {
	RegisterScenario(Scenario{Prop: "C18", Name: "duplicated-signers", Every: 1, Fn: zcScenarioC18})
}

// ---- C18: mint quorum, once per nonce -------------------------------------------------------------------------------------

func roundHalfEven(x float64) int { return int(math.RoundToEven(x)) }

// zcMintView is the mint request as the monitor reads it from the submitted transaction.
type zcMintView struct {
	Eth    string
	Amount uint64
	Nonce  int64
	Recv   string
	Sigs   []zcSigEntry
}

type zcSigEntry struct {
	ID        string `json:"authorizer_id"`
	Signature string `json:"signature"`
}

// zcParseMint decodes the mint payload from the transaction data that was actually submitted.
func zcParseMint(data string) (*zcMintView, bool) {
	var env struct {
		Name  string          `json:"name"`
		Input json.RawMessage `json:"input"`
	}
	if json.Unmarshal([]byte(data), &env) != nil || env.Name != "mint" {
		return nil, false
	}
	var top map[string]json.RawMessage
	if json.Unmarshal(env.Input, &top) != nil {
		return nil, false
	}
	v := &zcMintView{}
	var amount, nonce json.Number
	if json.Unmarshal(top["ethereum_txn_id"], &v.Eth) != nil || json.Unmarshal(top["receiving_client_id"], &v.Recv) != nil ||
		json.Unmarshal(top["amount"], &amount) != nil || json.Unmarshal(top["nonce"], &nonce) != nil || json.Unmarshal(top["signatures"], &v.Sigs) != nil {
		return nil, false
	}
	a, err := strconv.ParseUint(amount.String(), 10, 64)
	if err != nil {
		return nil, false
	}
	n, err := strconv.ParseInt(nonce.String(), 10, 64)
	if err != nil {
		return nil, false
	}
	v.Amount, v.Nonce = a, n
	return v, true
}

// zcCanonID is the spelling-independent form of an id (hex digits in lower case, no surrounding blanks, no 0x).
func zcCanonID(id string) string {
	return strings.TrimPrefix(strings.ToLower(strings.TrimSpace(id)), "0x")
}

// zcCanonSig maps every spelling of a signature (hex digits in either case, blanks, 0x, compressed or "(x,y)" affine form) to the
// curve point it denotes; spellings that denote no point map to themselves.
func zcCanonSig(s string) string {
	s = strings.Map(func(c rune) rune {
		if unicode.IsSpace(c) {
			return -1
		}
		return unicode.ToLower(c)
	}, s)
	num := func(t string) string {
		t = strings.TrimLeft(strings.TrimPrefix(t, "0x"), "0")
		if t == "" {
			t = "0"
		}
		return t
	}
	if strings.HasPrefix(s, "(") && strings.HasSuffix(s, ")") {
		if p := strings.Split(s[1:len(s)-1], ","); len(p) == 2 {
			return "point:" + num(p[0]) + ":" + num(p[1])
		}
		return "text:" + s
	}
	s = strings.TrimPrefix(s, "0x")
	if x, y, ok := zcPoint(s); ok {
		return "point:" + num(x) + ":" + num(y)
	}
	return "text:" + s
}

// zcSchemeVerify asks the chain's signature scheme (not the bridge contract) whether sig verifies under the public key.
func zcSchemeVerify(pk, sig, msg string) (ok bool) {
	defer func() {
		if e := recover(); e != nil {
			ok = false
		}
	}()
	sch := encryption.NewBLS0ChainScheme()
	if sch.SetPublicKey(pk) != nil {
		return false
	}
	good, err := sch.Verify(sig, msg)
	return good && err == nil
}

func monC18(h *Hist, o *TxnObs) {
	isMint := o.Call.Name == "zcn.mint"
	view, parsed := zcParseMint(o.Txn.TransactionData)
	if !isMint && !(parsed && o.Txn.ToClientID == zcnsc.ADDRESS && o.Txn.TransactionType == transaction.TxnTypeSmartContract) {
		return
	}
	if !parsed {
		// not decodable by the monitor: judge what the generator meant to send
		m, ok := o.Call.Meta["mint"].(map[string]interface{})
		if !ok {
			h.C("C18", "mints_payload_unreadable")
			return
		}
		view = &zcMintView{Eth: m["eth"].(string), Amount: m["amount"].(uint64), Nonce: m["nonce"].(int64), Recv: m["recv"].(string)}
		for _, s := range m["sigs"].([]map[string]string) {
			view.Sigs = append(view.Sigs, zcSigEntry{ID: s["authorizer_id"], Signature: s["signature"]})
		}
		h.C("C18", "mints_judged_from_generator_meta")
	}
	amount, nonce, recv, eth := view.Amount, view.Nonce, view.Recv, view.Eth
	h.C("C18", "mints_judged")
	if !isMint {
		h.C("C18", "mints_judged_resubmitted")
	}
	r := h.Runs["C18"]
	// registered authorizers in the PRE state (counted from the authorizer nodes themselves, not from the contract's counter)
	reg := map[string]string{}
	for _, n := range h.NodesOfType(o.Pre, "*zcnsc.AuthorizerNode") {
		reg[zcCanonID(Str(n.Val, "ID"))] = Str(n.Val, "PublicKey")
	}
	toSign := mintStringToSign(eth, amount, nonce, recv)
	// distinct registered signers: keyed by the canonical authorizer id, whatever the spelling of the id or of the signature.
	// An entry counts when the listed signature denotes the signature the authorizer's key produces for this request (the
	// harness owns the authorizer keys; BLS signatures are deterministic) or when the chain's signature scheme verifies it
	// under the registered public key - the more generous of the two, so that a refusal is never demanded by a spelling.
	valid := map[string]bool{}
	listed := map[string]int{}
	texts := map[string]map[string]bool{}
	foreign := 0
	for _, s := range view.Sigs {
		id := zcCanonID(s.ID)
		pk, ok := reg[id]
		if !ok {
			foreign++
			continue
		}
		listed[id]++
		own := false
		if w := h.W.Wallets[id]; w != nil && zcCanonID(w.PubKey) == zcCanonID(pk) {
			c := zcCanonSig(s.Signature)
			own = strings.HasPrefix(c, "point:") && c == zcCanonSig(w.Sign(toSign))
		}
		scheme := zcSchemeVerify(pk, s.Signature, toSign)
		if own != scheme {
			h.C("C18", fmt.Sprintf("obs_signature_spelling_own=%v_scheme=%v", own, scheme))
		}
		if own || scheme {
			valid[id] = true
			if texts[id] == nil {
				texts[id] = map[string]bool{}
			}
			texts[id][s.Signature] = true
		}
	}
	var percent float64
	for _, n := range h.NodesOfType(o.Pre, "*zcnsc.GlobalNode") {
		if f := F(n.Val, "ZCNSConfig.PercentAuthorizers"); f.IsValid() {
			percent = f.Float()
		}
	}
	threshold := roundHalfEven(percent * float64(len(reg)))
	minted, _ := h.Vars["c18minted"].(map[int64]bool)
	if minted == nil {
		minted = map[int64]bool{}
		h.Vars["c18minted"] = minted
	}
	// classification of the signature list (evidence that repeated signers around the threshold were exercised)
	dup, respelled := false, false
	for id, n := range listed {
		if n > 1 {
			dup = true
		}
		if len(texts[id]) > 1 {
			respelled = true
		}
	}
	class := "no-repeat"
	switch {
	case respelled:
		class = "repeat-respelled"
	case dup:
		class = "repeat"
	}
	rel := func(a, b int) string {
		switch {
		case a < b:
			return "<"
		case a == b:
			return "="
		}
		return ">"
	}
	if dup {
		h.C("C18", "mints_with_repeated_signer")
		if respelled {
			h.C("C18", "mints_with_repeated_signer_in_other_spelling")
		}
		if len(valid) < threshold && len(view.Sigs) >= threshold {
			// only the distinct count stands between this payload and a mint
			h.C("C18", "mints_repeated_signer_entries_reach_threshold_distinct_below")
			if respelled {
				h.C("C18", "mints_respelled_signer_entries_reach_threshold_distinct_below")
			}
		}
		if o.Outcome == "success" {
			h.C("C18", "mints_with_repeated_signer_succeeded")
		}
	}
	if foreign > 0 {
		h.C("C18", "mints_with_unregistered_signer")
	}
	if r != nil {
		r.Eval(1)
		r.Distinct(fmt.Sprintf("auth=%d|valid%sthr|entries%sthr|thr=%d|%s|foreign=%v|mut=%s|reuse=%v|%s", len(reg), rel(len(valid), threshold), rel(len(view.Sigs), threshold), threshold, class, foreign > 0, o.Call.Mut, minted[nonce], o.Outcome))
	}
	if o.Outcome != "success" {
		return
	}
	if len(valid) < threshold || len(reg) == 0 {
		h.V("C18", "mint-below-quorum", fmt.Sprintf("mint succeeded with %d valid distinct registered authorizer signatures, threshold %d of %d (mutation %q)", len(valid), threshold, len(reg), o.Call.Mut), o)
	}
	if recv != o.Txn.ClientID {
		h.V("C18", "mint-by-foreign-submitter", "mint succeeded although the submitter is not the receiving client", o)
	}
	if minted[nonce] {
		h.V("C18", "mint-nonce-reused", fmt.Sprintf("mint nonce %d succeeded twice", nonce), o)
	}
	minted[nonce] = true
	// receiver gets amount - fee; the fee is credited to exactly one authorizer's stake pool
	d := h.deltas(o)
	got := d[o.Txn.ClientID] + int64(o.Txn.Fee)
	var fee int64
	changed := 0
	for id := range reg {
		a := h.stakePoolRewards(o.Pre, "authorizer", id)
		b := h.stakePoolRewards(o.Post, "authorizer", id)
		if a != b {
			changed++
			fee += int64(b) - int64(a)
		}
	}
	var maxFee uint64
	for _, n := range h.NodesOfType(o.Pre, "*zcnsc.GlobalNode") {
		maxFee = U(n.Val, "ZCNSConfig.MaxFee")
	}
	withheld := int64(amount) - got
	// the withheld fee is credited to one authorizer; an authorizer that may not be rewarded (no / too little stake: C10) gets nothing
	// and the fee then simply stays in the bridge wallet. Anything else (receiver short-changed beyond the fee, fee created) is a violation.
	if got < 0 || withheld < 0 || uint64(withheld) > maxFee || (fee != withheld && fee != 0) {
		h.V("C18", "mint-amount-split-wrong", fmt.Sprintf("requested %d, receiver got %d, authorizer rewards rose %d (max fee %d)", amount, got, fee, maxFee), o)
	}
	if fee == withheld && fee > 0 {
		h.C("C18", "mint_fee_credited_to_authorizer")
	} else if withheld > 0 {
		h.C("C18", "mint_fee_uncredited_unstaked_authorizer")
	}
	if changed > 1 {
		h.V("C18", "mint-fee-to-several-authorizers", fmt.Sprintf("%d authorizer stake pools were credited", changed), o)
	}
}

// ---- C19: burn ------------------------------------------------------------------------------------------------------------

func (h *Hist) burnNonce(s map[string][]byte, eth string) int64 {
	for _, n := range h.NodesOfType(s, "*zcnsc.UserNode") {
		if Str(n.Val, "ID") == eth {
			return I(n.Val, "BurnNonce")
		}
	}
	return 0
}

// zbMinimums reads the two bridge minimums of the current state (generator side: used to aim values only).
func zbMinimums(h *Hist) (minMint, minBurn uint64) {
	minMint, minBurn = 1e10, 1e10
	for _, n := range h.NodesOfType(h.Cur, "*zcnsc.GlobalNode") {
		minMint, minBurn = U(n.Val, "ZCNSConfig.MinMintAmount"), U(n.Val, "ZCNSConfig.MinBurnAmount")
	}
	return
}

// zbAround picks a value below, at, between or above two thresholds.
func zbAround(r *mon.Rand, a, b uint64) uint64 {
	lo, hi := a, b
	if lo > hi {
		lo, hi = hi, lo
	}
	if lo == 0 {
		lo = 1
	}
	if hi < lo {
		hi = lo
	}
	c := []uint64{lo - 1, lo, lo + 1, lo + (hi-lo)/2, hi - 1, hi, hi + 1, lo / 2, 2 * hi}
	return c[r.Intn(len(c))]
}

// zbModel is the reference model of the burn rule: the minimum burn amount as configured (genesis value, then every successfully
// applied settings update as read from the submitted transaction) and the number of successful burns per target address.
type zbModel struct {
	minBurn, minMint uint64
	updates          int
	counts           map[string]int64
	spell            map[string]map[string]bool
}

func zbGetModel(h *Hist, o *TxnObs) *zbModel {
	m, _ := h.Vars["zbC19"].(*zbModel)
	if m == nil {
		m = &zbModel{counts: map[string]int64{}, spell: map[string]map[string]bool{}}
		for _, n := range h.NodesOfType(o.Pre, "*zcnsc.GlobalNode") {
			m.minBurn, m.minMint = U(n.Val, "ZCNSConfig.MinBurnAmount"), U(n.Val, "ZCNSConfig.MinMintAmount")
		}
		h.Vars["zbC19"] = m
	}
	return m
}

// zbZCN converts a settings value given in ZCN (decimal text) into coins (1 ZCN = 1e10).
func zbZCN(v string) (uint64, bool) {
	f, err := strconv.ParseFloat(v, 64)
	if err != nil || f < 0 || math.IsNaN(f) || math.IsInf(f, 0) {
		return 0, false
	}
	return uint64(math.Round(f * 1e10)), true
}

// zbObserveConfig follows a successfully applied update-global-config: the minimums named in the request are in force afterwards.
func zbObserveConfig(h *Hist, m *zbModel, o *TxnObs) {
	if o.Outcome != "success" {
		return
	}
	var env struct {
		Input struct {
			Fields map[string]string `json:"fields"`
		} `json:"input"`
	}
	if json.Unmarshal([]byte(o.Txn.TransactionData), &env) != nil {
		return
	}
	if v, ok := env.Input.Fields["min_burn"]; ok {
		if c, ok := zbZCN(v); ok {
			m.minBurn = c
			m.updates++
			h.C("C19", "min_burn_updates_observed")
		}
	}
	if v, ok := env.Input.Fields["min_mint"]; ok {
		if c, ok := zbZCN(v); ok {
			m.minMint = c
			h.C("C19", "min_mint_updates_observed")
		}
	}
}

// zbBurnAddress is the target address of a burn as submitted.
func zbBurnAddress(o *TxnObs) (string, bool) {
	var env struct {
		Name  string `json:"name"`
		Input struct {
			Eth *string `json:"ethereum_address"`
		} `json:"input"`
	}
	if json.Unmarshal([]byte(o.Txn.TransactionData), &env) == nil && env.Name == "burn" {
		if env.Input.Eth == nil {
			return "", true
		}
		return *env.Input.Eth, true
	}
	eth, ok := o.Call.Meta["eth"].(string)
	return eth, ok
}

// zbUserNodes lists the target addresses whose bridge user record differs between the two states of the transaction.
func zbUserNodes(h *Hist, o *TxnObs) []string {
	var out []string
	for _, p := range o.Delta.All() {
		ki := h.Obs.Lookup(p)
		if ki == nil || ki.Type == nil || ki.Type.String() != "*zcnsc.UserNode" {
			continue
		}
		id := ""
		for _, s := range []snap.Snapshot{o.Post, o.Pre} {
			if raw, ok := s[p]; ok && id == "" {
				if v, err := Decode(ki, raw); err == nil {
					id = Str(v, "ID")
				}
			}
		}
		out = append(out, id)
	}
	return out
}

// monC19 judges every burn against the reference model: from the minimum burn amount in force before the transaction, the value
// and the target address it decides whether the burn may succeed at all; a successful burn must be one that may succeed and must
// move exactly the value to the bridge wallet and advance exactly the target's nonce by one; any other burn must change nothing.
func monC19(h *Hist, o *TxnObs) {
	m := zbGetModel(h, o)
	isSC := o.Txn.TransactionType == transaction.TxnTypeSmartContract && o.Txn.ToClientID == zcnsc.ADDRESS && o.Txn.SmartContractData != nil
	if isSC && o.Txn.FunctionName == "update-global-config" {
		zbObserveConfig(h, m, o)
		return
	}
	if o.Call.Name != "zcn.burn" && !(isSC && o.Txn.FunctionName == "burn") {
		return
	}
	eth, ok := zbBurnAddress(o)
	if !ok {
		h.C("C19", "burns_payload_unreadable")
		return
	}
	h.C("C19", "burns_judged")
	if o.Call.Name != "zcn.burn" {
		h.C("C19", "burns_judged_resubmitted")
	}
	if o.Call.Mut != "" {
		h.C("C19", "burns_"+o.Call.Mut+"|"+o.Outcome)
	}
	value, fee := uint64(o.Txn.Value), uint64(o.Txn.Fee)
	minBurn, minMint := m.minBurn, m.minMint
	// the configured minimum as the state holds it before the transaction: must be what the settings updates put there
	var stateMin uint64
	for _, n := range h.NodesOfType(o.Pre, "*zcnsc.GlobalNode") {
		stateMin = U(n.Val, "ZCNSConfig.MinBurnAmount")
	}
	if stateMin != minBurn {
		h.C("C19", "obs_state_min_burn_differs_from_configured_value")
	}
	may := value >= minBurn && eth != ""
	// where the value lies relative to the two bridge minimums (they are independent settings)
	class := "at-or-above-both"
	switch {
	case value < minBurn && value < minMint:
		class = "below-both"
	case value < minBurn:
		class = "between:mint<=v<burn"
	case value < minMint:
		class = "between:burn<=v<mint"
	}
	cfg := "burn=mint"
	switch {
	case minBurn > minMint:
		cfg = "burn>mint"
	case minBurn < minMint:
		cfg = "burn<mint"
	}
	h.C("C19", "burn_value_"+class+"|cfg:"+cfg+"|"+o.Outcome)
	pre, post := h.burnNonce(o.Pre, eth), h.burnNonce(o.Post, eth)
	if r := h.Runs["C19"]; r != nil {
		r.Eval(1)
		r.Distinct(fmt.Sprintf("v<min=%v|%s|cfg=%s|addr=%v|%s|n=%d|mut=%s", value < minBurn, class, cfg, eth != "", o.Outcome, pre, o.Call.Mut))
	}
	d := h.deltas(o)
	touched := zbUserNodes(h, o)
	if o.Outcome != "success" {
		// a refused burn (below the minimum, no address, or refused for any other reason) changes nothing
		if post != pre || len(touched) > 0 {
			h.V("C19", "failed-burn-advanced-nonce", fmt.Sprintf("burn nonce moved on a %s burn (%d -> %d, %d user records touched)", o.Outcome, pre, post, len(touched)), o)
		}
		if d[zcnsc.ADDRESS] != 0 || d[o.Txn.ClientID] < -int64(fee) {
			h.V("C19", "refused-burn-moved-tokens", fmt.Sprintf("%s burn of %d (min %d): burner delta %d (fee %d), bridge wallet delta %d", o.Outcome, value, minBurn, d[o.Txn.ClientID], fee, d[zcnsc.ADDRESS]), o)
		}
		if !may {
			h.C("C19", "refused_burns_that_may_not_succeed_changed_nothing")
		} else if bal, _ := h.Bal(o.Pre, o.Txn.ClientID); o.Outcome == "failed" && bal >= value+fee && bal >= value {
			// not judged: the statement does not say that every admissible burn must be accepted
			h.C("C19", "obs_admissible_funded_burn_refused|"+class)
		}
		return
	}
	if !may {
		why := "below-minimum"
		if eth == "" {
			why = "no-address"
		}
		h.V("C19", "invalid-burn-accepted", fmt.Sprintf("%s: burn of %d (configured min burn %d, min mint %d) to address %q succeeded", why, value, minBurn, minMint, eth), o)
	}
	if eth != "" && strings.TrimSpace(eth) == "" {
		h.C("C19", "obs_burn_to_blank_address_accepted")
	}
	if d[o.Txn.ClientID]+int64(fee) != -int64(value) {
		h.V("C19", "burner-not-debited-value", fmt.Sprintf("burner delta %d, value %d fee %d", d[o.Txn.ClientID], value, fee), o)
	}
	if d[zcnsc.ADDRESS] != int64(value) {
		h.V("C19", "bridge-wallet-not-credited-value", fmt.Sprintf("bridge wallet delta %d, value %d", d[zcnsc.ADDRESS], value), o)
	}
	m.counts[eth]++
	// observation (not judged: the statement keys the nonce by the target address as given): one hex address burnt to under
	// several spellings keeps one nonce sequence per spelling
	canon := strings.ToLower(strings.TrimSpace(eth))
	if m.spell[canon] == nil {
		m.spell[canon] = map[string]bool{}
	}
	m.spell[canon][eth] = true
	if len(m.spell[canon]) > 1 {
		h.C("C19", "obs_burn_to_address_known_under_other_spelling_has_own_nonce_sequence")
	}
	if post != pre+1 {
		h.V("C19", "burn-nonce-not-plus-one", fmt.Sprintf("burn nonce of %s went %d -> %d", eth, pre, post), o)
	}
	if post != m.counts[eth] {
		h.V("C19", "burn-nonce-not-per-address-count", fmt.Sprintf("address %s: %d successful burns but nonce %d", eth, m.counts[eth], post), o)
	}
	for _, id := range touched {
		if id != eth {
			h.V("C19", "burn-touched-other-address-record", fmt.Sprintf("burn to %q altered the user record of %q", eth, id), o)
		}
	}
}

// zbScenarioC19 is the directed part of the C19 workload. The bridge has two independent minimums (min_mint, min_burn); the owner
// sets them to different values in both orders and clients burn values below both, between them and above both (to known and new
// target addresses, sometimes without an address). The random operations follow.
func zbScenarioC19(h *Hist, mons []Monitor) {
	r := h.R.Fork("c19-minimums-apart")
	submit := func(c *Call) *TxnObs {
		o := h.Submit(c, mons)
		if o.Outcome != "rejected" {
			h.S.Accepted = append(h.S.Accepted, o.Txn)
			if len(h.S.Accepted) > 64 {
				h.S.Accepted = h.S.Accepted[1:]
			}
		}
		if h.TxInBlk >= 1+r.Intn(5) {
			h.EndBlock()
			h.advanceTime(r)
		}
		return o
	}
	update := func(fields map[string]string) {
		// the shipped configuration has min_stake 0, which the contract's own validation of an updated configuration refuses:
		// an update only goes through when it also names a valid min_stake
		if ms, _ := h.Vars["zbMinStakeSet"].(bool); !ms || r.Chance(0.2) {
			fields["min_stake"] = []string{"1", "0.5", "2"}[r.Intn(3)]
		}
		o := submit(&Call{Name: "zcn.update-settings", Meta: map[string]interface{}{"gov": "zcn", "settings": fields, "all_valid_syntax": true},
			Spec: world.TxnSpec{From: h.W.Owner, To: zcnsc.ADDRESS, Fee: Coin(h.fee(r) % 1000), Type: transaction.TxnTypeSmartContract, Func: "update-global-config", Input: map[string]interface{}{"fields": fields}}})
		if o.Outcome == "success" {
			h.Vars["zbMinStakeSet"] = true
		}
	}
	// {min_mint, min_burn} in ZCN
	up := [][2]string{{"1", "3"}, {"0.5", "2"}, {"2", "5"}, {"1", "1.5"}, {"0.25", "1"}}
	down := [][2]string{{"2", "0.25"}, {"3", "1"}, {"5", "2"}, {"1.5", "0.5"}, {"1", "0.5"}}
	phases := [][2]string{up[r.Intn(len(up))], down[r.Intn(len(down))]}
	if r.Chance(0.5) {
		phases[0], phases[1] = phases[1], phases[0]
	}
	if r.Chance(0.3) {
		phases = append(phases, [2]string{"2", "2"})
	}
	z := h.S.Zc
	for _, ph := range phases {
		if r.Chance(0.3) {
			// one setting per call, in either order
			f := []map[string]string{{"min_mint": ph[0]}, {"min_burn": ph[1]}}
			if r.Chance(0.5) {
				f[0], f[1] = f[1], f[0]
			}
			update(f[0])
			update(f[1])
		} else {
			update(map[string]string{"min_mint": ph[0], "min_burn": ph[1]})
		}
		mm, mb := zbMinimums(h)
		lo, hi := mm, mb
		if lo > hi {
			lo, hi = hi, lo
		}
		if lo == 0 {
			lo = 1
		}
		vals := []uint64{lo - 1, lo, lo + (hi-lo)/2, hi - 1, hi}
		extra := []uint64{1, lo + 1, hi + 1, 2 * hi, lo / 2, lo + (hi-lo)/3}
		for i := 0; i < 2; i++ {
			vals = append(vals, extra[r.Intn(len(extra))])
		}
		r.Shuffle(len(vals), func(i, j int) { vals[i], vals[j] = vals[j], vals[i] })
		for _, v := range vals {
			from := h.anyClient(r)
			for try := 0; try < 6; try++ {
				if bal, _ := h.Bal(h.Cur, from.ID); bal >= v+1000 {
					break
				}
				from = h.anyClient(r)
			}
			addr := z.EthAddrs[r.Intn(len(z.EthAddrs))]
			if r.Chance(0.2) {
				addr = fmt.Sprintf("0xC19n%d", r.Intn(1000))
				if r.Chance(0.4) {
					addr = fmt.Sprintf("%040x", 5000+r.Intn(1000)) // an address written without the 0x prefix
				}
			}
			mut := ""
			if r.Chance(0.15) {
				addr, mut = "", "no-address"
			}
			in := map[string]interface{}{"ethereum_address": addr}
			if mut == "no-address" && r.Chance(0.6) {
				// the payload does not carry the key at all (or carries null / a misspelt key): nothing an earlier burn's payload
				// held may be picked up
				in = []map[string]interface{}{{}, {"nonce": 7}, {"ethereum_address": nil}, {"ethereum_addres": z.EthAddrs[0]}, {"amount": 5, "hash": "x"}}[r.Intn(5)]
				mut = "address-key-absent"
			}
			submit(&Call{Name: "zcn.burn", Mut: mut, Meta: map[string]interface{}{"eth": addr, "c19_directed": true},
				Spec: world.TxnSpec{From: from, To: zcnsc.ADDRESS, Value: Coin(v), Fee: Coin(h.fee(r) % 1000), Type: transaction.TxnTypeSmartContract, Func: "burn", Input: in}})
		}
	}
	h.EndBlock()
}

func init() {
	RegisterScenario(Scenario{Prop: "C19", Name: "minimums-apart", Every: 1, Fn: zbScenarioC19})
}
