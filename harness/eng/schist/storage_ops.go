package schist

// storageShadow is the generator's memory of storage-contract entities (filled in by storageOps).
type storageShadow struct{}

func newStorageShadow() *storageShadow { return &storageShadow{} }

func storageOps() []OpDef { return nil }

// storageSetup registers the initial storage providers of a history.
func storageSetup(h *Hist, mons []Monitor) {}
