package schist

import (
	"encoding/json"
	"fmt"
	"strings"

	"0chain.net/chaincore/transaction"
	"0chain.net/core/encryption"
	"0chain.net/smartcontract/storagesc"

	"verifh/mon"
	"verifh/world"
)

// Workload generator for the storage smart contract. Identities (wallets, keys), counters and raw markers are kept in
// the shadow; the *current* contract view of an entity (expiration, blobber list, last allocation root, stake, ...) is
// read back from the state snapshot only to construct valid inputs. No oracle reads the shadow.

const (
	stSC = storagesc.ADDRESS
	stT  = transaction.TxnTypeSmartContract
	stGB = 1024 * 1024 * 1024
	stMB = 1024 * 1024
	stKB = 1024
)

// ---- shadow --------------------------------------------------------------------------------------------------------------

type stProv struct {
	Kind       string // "blobber" | "validator"
	W, Del     *world.Wallet
	URL        string
	Reg        bool   // registration was applied
	Dead       string // "" | "killed" | "shutdown" (as far as the generator knows)
	Restricted bool
	Stakers    []*world.Wallet
	// generator's copy of what it registered / last set
	Capacity   int64
	ReadPrice  uint64
	WritePrice uint64
}

func (p *stProv) ptype() int {
	if p.Kind == "validator" {
		return 4
	}
	return 3
}

// write-marker chain state of one (allocation, blobber) as the generator constructed it
type stWM struct {
	Root, Prev string
	Ts         int64
	Size       int64 // size field of the last accepted marker
	Used       int64 // sum of accepted size changes
	ChainHash  string
	ChainSize  int64
	V2         bool
	LastRaw    []byte // raw input of the last accepted commit (replays)
	Count      int
}

type stAlloc struct {
	ID      string
	Owner   *world.Wallet
	Free    bool
	Closed  string            // "" | "finalize" | "cancel" | "gone"
	WM      map[string]*stWM  // blobber id -> chain state
	RC      map[string]int64  // blobber|client -> last accepted read counter
	RMRaw   map[string][]byte // blobber|client -> raw input of last accepted read marker
	Readers map[string]*world.Wallet
}

type stAssigner struct {
	W        *world.Wallet // key pair; the assigner name is the wallet id
	Reg      bool
	Indiv    uint64 // limits in tokens as last *successfully* registered
	Total    uint64
	Redeemed uint64
	Used     map[int64]bool
	Next     int64
	LastRaw  []byte // raw input of last accepted free_allocation_request
	LastBy   *world.Wallet
}

type stChal struct {
	ID, Blobber, Alloc string
	Validators         []string
	Round              int64
	Created            int64
	Done               bool
}

type storageShadow struct {
	mons       []Monitor
	Blobbers   []*stProv
	Validators []*stProv
	Allocs     []*stAlloc
	Assigners  []*stAssigner
	ReadPools  map[string]*world.Wallet // clients that (probably) own a read pool
	Chals      []*stChal
	seq        int
	Jumps      int
	RewardRnd  int64
	Pending    map[string]string // settings staged through update_settings
	SinceJump  int               // storage transactions built since the last big time jump
	NoHostile  bool              // set while a composite scenario builds its (valid) steps
	Scenarios  int               // composite scenarios run in this history
	ScenJumps  int               // ... of which jumped past an expiration
	Clients    []*world.Wallet   // extra funded clients of the storage workload
}

func newStorageShadow() *storageShadow {
	return &storageShadow{ReadPools: map[string]*world.Wallet{}, Pending: map[string]string{}}
}

// ---- state views (decoded through the contract types' own JSON encoding) ----------------------------------------------------

type stTerms struct {
	ReadPrice  uint64 `json:"read_price"`
	WritePrice uint64 `json:"write_price"`
}

type stStats struct {
	UsedSize          int64 `json:"used_size"`
	NumWrites         int64 `json:"num_of_writes"`
	TotalChallenges   int64 `json:"total_challenges"`
	OpenChallenges    int64 `json:"num_open_challenges"`
	SuccessChallenges int64 `json:"num_success_challenges"`
	FailedChallenges  int64 `json:"num_failed_challenges"`
}

type stWMView struct {
	Version   string `json:"version"`
	Root      string `json:"allocation_root"`
	Prev      string `json:"prev_allocation_root"`
	Size      int64  `json:"size"`
	ChainSize int64  `json:"chain_size"`
	ChainHash string `json:"chain_hash"`
	Timestamp int64  `json:"timestamp"`
}

type stBAView struct {
	BlobberID       string    `json:"blobber_id"`
	Size            int64     `json:"size"`
	AllocationRoot  string    `json:"allocation_root"`
	LastWriteMarker *stWMView `json:"write_marker"`
	Stats           *stStats  `json:"stats"`
	Terms           stTerms   `json:"terms"`
	CPIntegral      uint64    `json:"challenge_pool_integral_value"`
	LatestFinalized int64     `json:"latest_finalized_chall_created_att"`
}

type stAllocView struct {
	ID                   string      `json:"id"`
	DataShards           int         `json:"data_shards"`
	ParityShards         int         `json:"parity_shards"`
	Size                 int64       `json:"size"`
	Expiration           int64       `json:"expiration_date"`
	Owner                string      `json:"owner_id"`
	OwnerPublicKey       string      `json:"owner_public_key"`
	Stats                *stStats    `json:"stats"`
	BlobberAllocs        []*stBAView `json:"blobber_details"`
	ThirdPartyExtendable bool        `json:"third_party_extendable"`
	FileOptions          uint16      `json:"file_options"`
	WritePool            uint64      `json:"write_pool"`
	StartTime            int64       `json:"start_time"`
	Finalized            bool        `json:"finalized"`
	Canceled             bool        `json:"canceled"`
}

func (a *stAllocView) ba(blobber string) *stBAView {
	for _, b := range a.BlobberAllocs {
		if b.BlobberID == blobber {
			return b
		}
	}
	return nil
}

type stSPSettings struct {
	DelegateWallet string  `json:"delegate_wallet"`
	NumDelegates   int     `json:"num_delegates"`
	ServiceCharge  float64 `json:"service_charge"`
}

type stNodeView struct {
	ID              string       `json:"id"`
	LastHealthCheck int64        `json:"last_health_check"`
	IsShutDown      bool         `json:"is_shut_down"`
	IsKilled        bool         `json:"is_killed"`
	ProviderType    int          `json:"provider_type"`
	URL             string       `json:"url"`
	Terms           stTerms      `json:"terms"`
	Capacity        int64        `json:"capacity"`
	Allocated       int64        `json:"allocated"`
	SavedData       int64        `json:"saved_data"`
	NotAvailable    bool         `json:"not_available"`
	SPS             stSPSettings `json:"stake_pool_settings"`
	IsRestricted    *bool        `json:"is_restricted"`
}

type stDPView struct {
	Balance    uint64 `json:"balance"`
	Reward     uint64 `json:"reward"`
	DelegateID string `json:"delegate_id"`
}

type stSPView struct {
	Pools       map[string]*stDPView `json:"pools"`
	Rewards     uint64               `json:"rewards"`
	Settings    stSPSettings         `json:"settings"`
	TotalOffers uint64               `json:"total_offers"`
	IsDead      bool                 `json:"is_dead"`
}

func (sp *stSPView) stake() uint64 {
	var t uint64
	for _, p := range sp.Pools {
		t += p.Balance
	}
	return t
}

type stRange struct {
	Min uint64 `json:"min"`
	Max uint64 `json:"max"`
}

type stConfView struct {
	TimeUnit      int64  `json:"time_unit"`
	MinAllocSize  int64  `json:"min_alloc_size"`
	MaxCCR        int64  `json:"max_challenge_completion_rounds"`
	MinBlobberCap int64  `json:"min_blobber_capacity"`
	MaxReadPrice  uint64 `json:"max_read_price"`
	MaxWritePrice uint64 `json:"max_write_price"`
	MinWritePrice uint64 `json:"min_write_price"`
	ReadPool      *struct {
		MinLock uint64 `json:"min_lock"`
	} `json:"readpool"`
	WritePool *struct {
		MinLock uint64 `json:"min_lock"`
	} `json:"write_pool"`
	MaxTotalFree uint64 `json:"max_total_free_allocation"`
	MaxIndivFree uint64 `json:"max_individual_free_allocation"`
	Free         struct {
		DataShards   int     `json:"data_shards"`
		ParityShards int     `json:"parity_shards"`
		Size         int64   `json:"size"`
		Read         stRange `json:"read_price_range"`
		Write        stRange `json:"write_price_range"`
	} `json:"free_allocation_settings"`
	ValidatorsPerChallenge int     `json:"validators_per_challenge"`
	MinStake               uint64  `json:"min_stake"`
	MaxStake               uint64  `json:"max_stake"`
	MaxDelegates           int     `json:"max_delegates"`
	MaxCharge              float64 `json:"max_charge"`
	BlockReward            *struct {
		TriggerPeriod int64 `json:"trigger_period"`
	} `json:"block_reward"`
}

// stJSON decodes the node stored under a contract key of the current state into out.
func (h *Hist) stJSON(key string, out interface{}) bool {
	n := h.NodeByKey(h.Cur, key)
	if n == nil {
		return false
	}
	b, err := json.Marshal(n.Val)
	if err != nil {
		return false
	}
	return json.Unmarshal(b, out) == nil
}

func (h *Hist) stGetAlloc(id string) *stAllocView {
	v := &stAllocView{}
	if !h.stJSON(stSC+id, v) || v.ID == "" {
		return nil
	}
	return v
}

func (h *Hist) stNode(id string) *stNodeView {
	v := &stNodeView{}
	if !h.stJSON("provider:"+id, v) || v.ID == "" {
		return nil
	}
	return v
}

func (h *Hist) stSP(kind, id string) *stSPView {
	v := &stSPView{}
	if !h.stJSON(kind+":stakepool:"+id, v) {
		return nil
	}
	return v
}

// stConf returns the contract configuration of the current state (defaults of sc.yaml if it cannot be decoded).
func (h *Hist) stConf() *stConfView {
	v := &stConfView{}
	if h.stJSON(stSC+encryption.Hash("storagesc_config"), v) && v.TimeUnit > 0 {
		return v
	}
	d := &stConfView{TimeUnit: int64(720 * 3600 * 1e9), MinAllocSize: 1048576, MaxCCR: 1200, MinBlobberCap: 10737418240, MaxReadPrice: 7e10,
		MaxWritePrice: 7e10, MinWritePrice: 1e7, MaxTotalFree: 1e14, MaxIndivFree: 1e12, ValidatorsPerChallenge: 3, MinStake: 1e8, MaxStake: 2e14,
		MaxDelegates: 200, MaxCharge: 0.5}
	d.Free.DataShards, d.Free.ParityShards, d.Free.Size = 4, 2, 10000000
	d.Free.Write.Max = 1e10
	return d
}

func (c *stConfView) timeUnitSec() int64 { return c.TimeUnit / 1e9 }

func (c *stConfView) trigger() int64 {
	if c.BlockReward != nil && c.BlockReward.TriggerPeriod > 0 {
		return c.BlockReward.TriggerPeriod
	}
	return 30
}

func (c *stConfView) writeMinLock() uint64 {
	if c.WritePool != nil {
		return c.WritePool.MinLock
	}
	return 1e9
}

// ---- small helpers -------------------------------------------------------------------------------------------------------

func (h *Hist) stHostile(r *mon.Rand, scale float64) bool {
	if h.S.St.NoHostile {
		return false // inside a composite scenario every step is built valid
	}
	p, _ := h.Vars["hostile"].(float64)
	return r.Chance(p * scale)
}

// stExecRound is the round of the block the next submitted transaction will execute in.
func (h *Hist) stExecRound() int64 {
	if h.BC != nil {
		return h.Round
	}
	return h.Round + 1
}

func (h *Hist) stWallet(label string) *world.Wallet {
	w := h.W.AddWallet(label)
	h.Names[w.ID] = w.Name
	return w
}

func stCall(h *Hist, r *mon.Rand, fn string, from *world.Wallet, in interface{}, val uint64) *Call {
	return &Call{Name: "storage." + fn, Meta: map[string]interface{}{},
		Spec: world.TxnSpec{From: from, To: stSC, Value: Coin(val), Fee: Coin(h.fee(r) % 1000), Type: stT, Func: fn, Input: in}}
}

func stRaw(c *Call) []byte {
	if c.Spec.RawInput != nil {
		return c.Spec.RawInput
	}
	b, _ := json.Marshal(c.Spec.Input)
	return b
}

// freeze turns Input into RawInput so that the exact bytes can be replayed later.
func stFreeze(c *Call) []byte {
	b := stRaw(c)
	c.Spec.RawInput = b
	return b
}

func stHash(s string) string { return encryption.Hash(s) }

func (s *storageShadow) next() int { s.seq++; return s.seq }

// a client that owns/reads allocations and stakes
func (h *Hist) stClient(r *mon.Rand) *world.Wallet {
	n := len(h.W.Clients)
	if n > 1 && r.Chance(0.85) {
		return h.W.Clients[1+r.Intn(n-1)]
	}
	return h.W.Clients[0]
}

func (h *Hist) stStranger(r *mon.Rand) *world.Wallet {
	switch r.Intn(4) {
	case 0:
		return h.S.Extra[r.Intn(len(h.S.Extra))] // unfunded
	case 1:
		return h.W.Miners[r.Intn(len(h.W.Miners))]
	default:
		return h.anyClient(r)
	}
}

// stMinerNode tells whether a miner/sharder node is stored under the provider key of id. storagesc reads "provider:"+id
// into types that are not statecache.Copyable while minersc caches a MinerNode under the same key: naming a miner where
// a blobber/validator is expected once killed the process ("get trie node not copyable"); the workload keeps probing it.
func (h *Hist) stMinerNode(id string) bool {
	n := h.NodeByKey(h.Cur, "provider:"+id)
	return n != nil && strings.Contains(n.Type, "minersc")
}

func (h *Hist) stAnyMinerID(r *mon.Rand) *world.Wallet {
	var c []*world.Wallet
	for _, m := range append(append([]*world.Wallet{}, h.W.Miners...), h.W.Sharders...) {
		if h.stMinerNode(m.ID) {
			c = append(c, m)
		}
	}
	if len(c) == 0 {
		return nil
	}
	return c[r.Intn(len(c))]
}

func (s *storageShadow) live(list []*stProv) []*stProv {
	var out []*stProv
	for _, p := range list {
		if p.Reg && p.Dead == "" {
			out = append(out, p)
		}
	}
	return out
}

func (s *storageShadow) registered(list []*stProv) []*stProv {
	var out []*stProv
	for _, p := range list {
		if p.Reg {
			out = append(out, p)
		}
	}
	return out
}

func (s *storageShadow) dead(list []*stProv) []*stProv {
	var out []*stProv
	for _, p := range list {
		if p.Reg && p.Dead != "" {
			out = append(out, p)
		}
	}
	return out
}

func (s *storageShadow) blobberByID(id string) *stProv {
	for _, p := range s.Blobbers {
		if p.W.ID == id {
			return p
		}
	}
	return nil
}

func (s *storageShadow) validatorByID(id string) *stProv {
	for _, p := range s.Validators {
		if p.W.ID == id {
			return p
		}
	}
	return nil
}

func (s *storageShadow) open() []*stAlloc {
	var out []*stAlloc
	for _, a := range s.Allocs {
		if a.Closed == "" {
			out = append(out, a)
		}
	}
	return out
}

func (s *storageShadow) closed() []*stAlloc {
	var out []*stAlloc
	for _, a := range s.Allocs {
		if a.Closed != "" {
			out = append(out, a)
		}
	}
	return out
}

// pickAlloc returns an open allocation together with its current state view, preferring allocations that have not
// expired yet; allocations that vanished from the state (closed by a replayed transaction, ...) are marked.
func (h *Hist) stPickAlloc(r *mon.Rand) (*stAlloc, *stAllocView) {
	expired, running, views := h.stExpiredSplit()
	pool := running
	if len(expired) > 0 && (len(running) == 0 || r.Chance(0.06)) {
		if len(running) == 0 && r.Chance(0.75) {
			return nil, nil // callers fall back to creating a fresh allocation
		}
		pool = expired
	}
	if len(pool) == 0 {
		return nil, nil
	}
	a := pool[r.Intn(len(pool))]
	return a, views[a.ID]
}

func stUnknownID(r *mon.Rand) string {
	ids := []string{"", "nope", stHash("no-such-entity"), stSC, "00", stHash("x") + "ff"}
	return ids[r.Intn(len(ids))]
}

// count an inner (prerequisite) transaction in the same histogram the engine writes
func (h *Hist) stInner(c *Call) *TxnObs {
	o := h.Submit(c, h.S.St.mons)
	if r := h.Runs[h.Focus]; r != nil {
		r.Count("op:"+c.Name+"|"+o.Outcome, 1)
	}
	return o
}

// ---- set-up ---------------------------------------------------------------------------------------------------------------

func (h *Hist) stSend(from *world.Wallet, to string, amount uint64) *TxnObs {
	return h.Submit(&Call{Name: "send", Spec: world.TxnSpec{From: from, To: to, Value: Coin(amount), Type: transaction.TxnTypeSend}}, h.S.St.mons)
}

func stBlobberInput(p *stProv, numDelegates int, charge float64) map[string]interface{} {
	in := map[string]interface{}{
		"id": p.W.ID, "url": p.URL, "capacity": p.Capacity,
		"terms":               map[string]interface{}{"read_price": p.ReadPrice, "write_price": p.WritePrice},
		"stake_pool_settings": map[string]interface{}{"delegate_wallet": p.Del.ID, "num_delegates": numDelegates, "service_charge": charge},
	}
	if p.Restricted {
		in["is_restricted"] = true
	}
	return in
}

func stValidatorInput(p *stProv, numDelegates int, charge float64) map[string]interface{} {
	return map[string]interface{}{
		"id": p.W.ID, "url": p.URL,
		"stake_pool_settings": map[string]interface{}{"delegate_wallet": p.Del.ID, "num_delegates": numDelegates, "service_charge": charge},
	}
}

func (h *Hist) stNewProv(r *mon.Rand, kind string) *stProv {
	st := h.S.St
	n := st.next()
	p := &stProv{Kind: kind}
	p.W = h.stWallet(fmt.Sprintf("%s%d", kind, n))
	p.Del = h.stWallet(fmt.Sprintf("%s%d-del", kind, n))
	p.URL = fmt.Sprintf("http://%s%d.verif:5051", kind, n)
	if kind == "blobber" {
		p.Capacity = []int64{20 * stGB, 64 * stGB, 200 * stGB, 1024 * stGB}[r.Intn(4)]
		p.WritePrice = []uint64{1e7, 1e8, 1e9, 1e9, 5e9, 1e10}[r.Intn(6)]
		p.ReadPrice = []uint64{0, 0, 1e8, 1e9, 1e10}[r.Intn(5)]
	}
	return p
}

func stStakeInput(p *stProv) map[string]interface{} {
	return map[string]interface{}{"provider_type": p.ptype(), "provider_id": p.W.ID}
}

// storageSetup registers the initial providers of a history through the normal Submit path.
func storageSetup(h *Hist, mons []Monitor) {
	st := h.S.St
	st.mons = mons
	r := h.R.Fork("storage-setup")
	rich := h.W.Clients[0]
	nb := 5 + r.Intn(2)
	nv := 3 + r.Intn(2)
	reg := func(p *stProv) {
		h.stSend(rich, p.W.ID, 2e11)
		h.stSend(rich, p.Del.ID, 3e13)
		var c *Call
		if p.Kind == "blobber" {
			c = stCall(h, r, "add_blobber", p.W, stBlobberInput(p, 10+r.Intn(20), 0.05*float64(r.Intn(6))), 0)
		} else {
			c = stCall(h, r, "add_validator", p.W, stValidatorInput(p, 10+r.Intn(20), 0.05*float64(r.Intn(6))), 0)
		}
		c.Spec.Fee = 0
		c.Meta["provider_type"], c.Meta["provider_id"], c.Meta[p.Kind] = p.Kind, p.W.ID, p.W.ID
		if o := h.Submit(c, mons); o.Outcome == "success" {
			p.Reg = true
		}
		// stake: the delegate wallet and one ordinary client
		stakers := []*world.Wallet{p.Del, h.W.Clients[1+r.Intn(len(h.W.Clients)-1)]}
		for i, sw := range stakers {
			amt := uint64(1e12) * uint64(1+r.Intn(8))
			if p.Kind == "validator" {
				amt = uint64(1e10) * uint64(1+r.Intn(50))
			}
			if i == 1 && r.Chance(0.3) {
				continue
			}
			c := stCall(h, r, "stake_pool_lock", sw, stStakeInput(p), amt)
			c.Spec.Fee = 0
			c.Meta["provider_type"], c.Meta["provider_id"], c.Meta[p.Kind] = p.Kind, p.W.ID, p.W.ID
			if o := h.Submit(c, mons); o.Outcome == "success" {
				p.Stakers = append(p.Stakers, sw)
			}
		}
	}
	for i := 0; i < nb; i++ {
		p := h.stNewProv(r, "blobber")
		if i < 3 {
			p.WritePrice = []uint64{1e8, 1e9, 1e9}[i] // at least three blobbers inside the free-allocation price range
		}
		st.Blobbers = append(st.Blobbers, p)
		reg(p)
	}
	for i := 0; i < nv; i++ {
		p := h.stNewProv(r, "validator")
		st.Validators = append(st.Validators, p)
		reg(p)
	}
	// free storage: by default a free allocation wants 4+2 blobbers with read price 0; most histories let the owner
	// lower the requirement through the contract's own settings path (update_settings + commit_settings_changes)
	if r.Chance(0.9) {
		f := map[string]string{"free_allocation_settings.data_shards": "2", "free_allocation_settings.parity_shards": "1",
			"free_allocation_settings.read_price_range.max": "1"}
		c := stCall(h, r, "update_settings", h.W.Owner, map[string]interface{}{"fields": f}, 0)
		c.Spec.Fee = 0
		if o := h.Submit(c, mons); o.Outcome == "success" {
			for k, v := range f {
				st.Pending[k] = v
			}
		}
		c = stCall(h, r, "commit_settings_changes", h.W.Miners[0], map[string]interface{}{}, 0)
		c.Spec.Fee = 0
		h.Submit(c, mons)
	}
	as := &stAssigner{W: h.stWallet(fmt.Sprintf("assigner%d", st.next())), Used: map[int64]bool{}, Next: 1}
	st.Assigners = append(st.Assigners, as)
	c := stCall(h, r, "add_free_storage_assigner", h.W.Owner, map[string]interface{}{"name": as.W.ID, "public_key": as.W.PubKey, "individual_limit": 20.0, "total_limit": 500.0}, 0)
	c.Spec.Fee = 0
	if o := h.Submit(c, mons); o.Outcome == "success" {
		as.Reg, as.Indiv, as.Total = true, 20e10, 500e10
	}
	h.EndBlock()
}

// ---- catalogue --------------------------------------------------------------------------------------------------------------

// urgent returns a call that is only possible in this very round (block rewards fire when round % trigger_period == 0).
func (h *Hist) stUrgent(r *mon.Rand) *Call {
	st := h.S.St
	rd := h.stExecRound()
	if rd%h.stConf().trigger() == 0 && st.RewardRnd != rd && r.Chance(0.8) {
		st.RewardRnd = rd
		return stBlockRewards(h, r)
	}
	// pace the big clock jumps: without them no allocation ever expires
	if st.SinceJump >= 60 && st.Jumps < 4 && r.Chance(0.1) {
		stTimeJump(h, r)
	}
	return nil
}

func storageOps() []OpDef {
	var ops []OpDef
	ops = append(ops, stAllocOps()...)
	ops = append(ops, stMarkerOps()...)
	ops = append(ops, stProviderOps()...)
	ops = append(ops, stGovOps()...)
	ops = append(ops, stScenarioOps()...)
	for i := range ops {
		inner := ops[i].Build
		ops[i].Build = func(h *Hist, r *mon.Rand) *Call {
			if c := h.stUrgent(r); c != nil {
				return c
			}
			c := inner(h, r)
			if c != nil {
				h.S.St.SinceJump++
			}
			return c
		}
	}
	return ops
}
