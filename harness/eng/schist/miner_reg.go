package schist

import (
	"verifh/mon"
	"verifh/world"
)

// registration, settings, health checks, delete_* (disabled in the contract but still in the function table)

func minerRegOps() []OpDef {
	add := func(typ string) func(h *Hist, r *mon.Rand) *Call {
		return func(h *Hist, r *mon.Rand) *Call {
			m := h.S.Mn
			cfg := h.mnCfg()
			hp := h.hostile()
			fn := "add_" + typ
			// prefer a node that is not registered yet; otherwise a duplicate registration (returns success, changes nothing)
			n := m.anyNode(r, func(n *mnNode) bool { return n.Type == typ && !n.Registered })
			mut := ""
			if n == nil {
				if !r.Chance(0.35 + hp) {
					return nil
				}
				n = m.anyNode(r, func(n *mnNode) bool { return n.Type == typ })
				mut = "duplicate"
			}
			from := n.W
			id, pub, host, port := n.ID, n.W.PubKey, n.Host, n.Port
			charge := []float64{0, 0.05, 0.1, 0.2, cfg.MaxCharge}[r.Intn(5)]
			nd := []int{1, 2, 3, 10, cfg.MaxDelegates}[r.Intn(5)]
			st := mnSettings(n.Delegate.ID, charge, nd)
			var raw []byte
			if r.Chance(hp * 0.8) {
				switch r.Intn(14) {
				case 0: // somebody else registers the node and names himself delegate wallet (the contract does not look at the sender)
					from = h.anyWallet(r)
					if from != n.W {
						st["delegate_wallet"] = from.ID
						mut = "stranger-registers"
					}
				case 1: // public key does not hash to the id
					other := h.anyClient(r)
					pub = other.PubKey
					mut = "pubkey-mismatch"
				case 2: // an id that is not in the magic block (a client's own id and key)
					s := h.anyWallet(r)
					if m.ByID[s.ID] == nil {
						id, pub, from = s.ID, s.PubKey, s
						host = "stranger.verif.test"
						mut = "not-in-magic-block"
					}
				case 3:
					st["delegate_wallet"] = id
					mut = "delegate-is-node"
				case 4:
					st["service_charge"] = []float64{cfg.MaxCharge + 0.01, 1.5, 1e9}[r.Intn(3)]
					mut = "charge-above-max"
				case 5:
					st["service_charge"] = -0.1
					mut = "charge-negative"
				case 6:
					st["num_delegates"] = []int{0, -1}[r.Intn(2)]
					mut = "num-delegates-nonpositive"
				case 7:
					st["num_delegates"] = cfg.MaxDelegates + 1
					mut = "num-delegates-above-max"
				case 8:
					host = []string{"localhost", "127.0.0.1", "http://localhost:7071", ""}[r.Intn(4)]
					mut = "n2n-localhost"
				case 9: // host:port of another node
					o := m.anyNode(r, func(o *mnNode) bool { return o != n })
					host, port = o.Host, o.Port
					mut = "host-port-taken"
				case 10:
					id = []string{"", "zz", id[:63], id + "0", "g" + id[1:]}[r.Intn(5)]
					mut = "bad-id"
				case 11:
					pub = []string{"", "nothex", pub[:20]}[r.Intn(3)]
					mut = "bad-pubkey"
				case 12: // register under the other provider type
					if typ == "miner" {
						fn = "add_sharder"
					} else {
						fn = "add_miner"
					}
					mut = "wrong-type"
				case 13:
					raw = [][]byte{[]byte(`null`), []byte(`[]`), []byte(`"x"`), []byte(`{"simple_miner":{"id":7}}`), []byte(`{"stake_pool":{"settings":null}}`), []byte(`7`), []byte(`{"simple_miner":null}`)}[r.Intn(7)]
					mut = "garbage-input"
				}
			}
			meta := map[string]interface{}{"provider_type": typ, "provider_id": id, "settings": st, "registered_before": n.Registered, "public_key": pub}
			var in interface{} = mnPayload(id, pub, host, port, st)
			if raw != nil {
				in = raw
			}
			return mnCall("miner."+fn, mut, from, fn, uint64(r.Intn(2)), h.fee(r)%1000, in, meta, nil)
		}
	}
	update := func(typ string) func(h *Hist, r *mon.Rand) *Call {
		return func(h *Hist, r *mon.Rand) *Call {
			m := h.S.Mn
			cfg := h.mnCfg()
			hp := h.hostile()
			fn := "update_" + typ + "_settings"
			n := m.anyNode(r, func(n *mnNode) bool { return n.Type == typ && n.Registered && h.W.Wallets[n.DelegateID] != nil })
			if n == nil {
				n = m.anyNode(r, func(n *mnNode) bool { return n.Type == typ })
			}
			from := h.W.Wallets[n.DelegateID]
			if from == nil {
				from = n.Delegate
			}
			id := n.ID
			st := map[string]interface{}{}
			switch r.Intn(4) {
			case 0:
				st["service_charge"] = []float64{0, 0.01, 0.15, 0.3, cfg.MaxCharge}[r.Intn(5)]
			case 1:
				st["num_delegates"] = []int{1, 2, 4, 20, cfg.MaxDelegates}[r.Intn(5)]
			case 2:
				st["service_charge"] = float64(r.Intn(1000)) / 1000 * cfg.MaxCharge
				st["num_delegates"] = 1 + r.Intn(12)
			case 3: // empty update
			}
			mut := ""
			var raw []byte
			if r.Chance(hp * 0.7) {
				switch r.Intn(9) {
				case 0:
					from = h.anyWallet(r)
					if from.ID != n.DelegateID {
						mut = "not-delegate"
					}
				case 1:
					from = n.W
					mut = "node-wallet-not-delegate"
				case 2:
					st["service_charge"] = []float64{cfg.MaxCharge + 0.001, 2, -0.5}[r.Intn(3)]
					mut = "charge-out-of-range"
				case 3:
					st["num_delegates"] = []int{0, -3, cfg.MaxDelegates + 1}[r.Intn(3)]
					mut = "num-delegates-out-of-range"
				case 4:
					id = h.anyClient(r).ID
					mut = "unknown-provider"
					if f := h.mnForeign(r); f != nil && r.Chance(0.5) {
						id = f.ID
						mut = "foreign-provider-id"
					}
				case 5: // a node of the other type
					if o := m.anyNode(r, func(o *mnNode) bool { return o.Type != typ && o.Registered }); o != nil {
						id = o.ID
						if w := h.W.Wallets[o.DelegateID]; w != nil {
							from = w
						}
						mut = "wrong-type"
					}
				case 6: // try to move the delegate wallet (field is ignored by the contract)
					st["delegate_wallet"] = h.anyClient(r).ID
					mut = "delegate-wallet-change"
				case 7: // fewer delegates than pools already present
					st["num_delegates"] = 1
					mut = "num-delegates-below-pools"
				case 8:
					raw = [][]byte{[]byte(`{}`), []byte(`[]`), []byte(`{"simple_miner":{"id":1}}`), []byte(`{"stake_pool":{"settings":{"num_delegates":"x"}}}`)}[r.Intn(4)]
					mut = "garbage-input"
				}
			}
			meta := map[string]interface{}{"provider_type": typ, "provider_id": id, "settings": st, "delegate_before": n.DelegateID}
			var in interface{} = map[string]interface{}{"simple_miner": map[string]interface{}{"id": id}, "stake_pool": map[string]interface{}{"settings": st}}
			if raw != nil {
				in = raw
			}
			return mnCall("miner."+fn, mut, from, fn, 0, h.fee(r)%1000, in, meta, nil)
		}
	}
	health := func(typ string) func(h *Hist, r *mon.Rand) *Call {
		return func(h *Hist, r *mon.Rand) *Call {
			m := h.S.Mn
			fn := typ + "_health_check"
			n := m.anyNode(r, func(n *mnNode) bool { return n.Type == typ && n.Registered })
			mut := ""
			if n == nil || r.Chance(h.hostile()*0.1) {
				n = m.anyNode(r, func(n *mnNode) bool { return n.Type == typ })
				if !n.Registered {
					mut = "unregistered-node"
				}
			}
			from := n.W
			if r.Chance(h.hostile() * 0.5) {
				switch r.Intn(3) {
				case 0:
					from = h.anyClient(r)
					mut = "not-a-node"
					if f := h.mnForeign(r); f != nil && r.Chance(0.5) {
						from = f // a blobber / validator / authorizer wallet: getMinerNode(sender) finds a node of another type
						mut = "foreign-provider-sender"
					}
				case 1:
					if o := m.anyNode(r, func(o *mnNode) bool { return o.Type != typ }); o != nil {
						from = o.W
						mut = "wrong-type"
					}
				case 2:
					from = n.Delegate
					mut = "delegate-wallet"
				}
			}
			meta := map[string]interface{}{"provider_type": typ, "provider_id": from.ID}
			return mnCall("miner."+fn, mut, from, fn, 0, h.fee(r)%1000, map[string]interface{}{}, meta, nil)
		}
	}
	del := func(typ string) func(h *Hist, r *mon.Rand) *Call {
		return func(h *Hist, r *mon.Rand) *Call {
			if !r.Chance(0.5) {
				return nil
			}
			m := h.S.Mn
			fn := "delete_" + typ
			n := m.anyNode(r, func(n *mnNode) bool { return n.Type == typ })
			var from *world.Wallet
			mut := ""
			switch r.Intn(4) {
			case 0:
				from = n.W
			case 1:
				from = n.Delegate
			case 2:
				from = h.mnOwner()
			}
			if from == nil {
				from = h.anyWallet(r)
				mut = "stranger"
			}
			in := mnPayload(n.ID, n.W.PubKey, n.Host, n.Port, mnSettings(n.Delegate.ID, 0.1, 10))
			return mnCall("miner."+fn, mut, from, fn, 0, h.fee(r)%1000, in, n.meta(), nil)
		}
	}
	return []OpDef{
		{Name: "miner.add_miner", Tags: []string{"miner"}, Build: add("miner")},
		{Name: "miner.add_sharder", Tags: []string{"miner"}, Build: add("sharder")},
		{Name: "miner.update_miner_settings", Tags: []string{"miner", "C11"}, Build: update("miner")},
		{Name: "miner.update_sharder_settings", Tags: []string{"miner", "C11"}, Build: update("sharder")},
		{Name: "miner.miner_health_check", Tags: []string{"miner"}, Build: health("miner")},
		{Name: "miner.sharder_health_check", Tags: []string{"miner"}, Build: health("sharder")},
		{Name: "miner.delete_miner", Tags: []string{"miner", "kill"}, Build: del("miner")},
		{Name: "miner.delete_sharder", Tags: []string{"miner", "kill"}, Build: del("sharder")},
	}
}
