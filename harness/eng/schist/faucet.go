package schist

import (
	"fmt"
	"math"
	"time"

	"0chain.net/chaincore/transaction"
	"0chain.net/smartcontract/faucetsc"

	"verifh/world"
)

// C17: faucet limits.
//
// The oracle is a reference model of the reset windows that is built only from what can be observed from outside the
// contract: the creation date of every successful faucet transaction, the tokens that left the faucet wallet (balance
// deltas) and the configuration (limits, reset lengths) stored in the PRE state of the transaction. Nothing the contract
// records about its own windows (StartTime, Used of the global node and of the user nodes) is read.
//
//   - a client's window starts at its first successful pour; a later pour restarts it only when it arrives at least
//     individual_reset (or global_reset) after the start of the client's current window;
//   - the global window starts at the first successful faucet transaction (pour, refill, update-settings: each of them
//     stores the global node) and restarts only when such a transaction arrives at least global_reset after its start;
//   - within one window the tokens poured to the client stay within periodic_limit, the tokens poured to everybody
//     within global_limit; a pour never exceeds the balance the faucet had before it.
type fcWin struct {
	set   bool
	start int64 // seconds (txn creation date)
	sum   uint64
}

type fcModel struct {
	g     fcWin
	users map[string]*fcWin
}

// fcElapsed is time.Time.Sub on whole seconds: saturating, in nanoseconds.
func fcElapsed(now, start int64) time.Duration {
	d := now - start
	if d > math.MaxInt64/int64(time.Second) {
		return time.Duration(math.MaxInt64)
	}
	if d < math.MinInt64/int64(time.Second) {
		return time.Duration(math.MinInt64)
	}
	return time.Duration(d) * time.Second
}

func fcReqClass(req, pourAmount, maxPour uint64) string {
	switch {
	case req == 0:
		return "zero"
	case req < pourAmount:
		return "below-default"
	case req == pourAmount:
		return "default"
	case req < maxPour:
		return "between-default-and-max"
	case req == maxPour:
		return "max"
	}
	return "above-max"
}

func monC17(h *Hist, o *TxnObs) {
	t := o.Txn
	if t == nil || t.TransactionType != transaction.TxnTypeSmartContract || t.ToClientID != faucetsc.ADDRESS {
		return
	}
	fn := t.FunctionName
	if fn != "pour" && fn != "refill" && fn != "update-settings" {
		return
	}
	run := h.Runs["C17"]
	if o.Outcome != "success" {
		if fn == "pour" && o.Outcome == "failed" {
			h.C("C17", "pours_refused")
		}
		return
	}
	gnPre := h.NodesOfType(o.Pre, "*faucetsc.GlobalNode")
	if len(gnPre) != 1 {
		return
	}
	cfg := gnPre[0].Val
	periodic, global := U(cfg, "FaucetConfig.PeriodicLimit"), U(cfg, "FaucetConfig.GlobalLimit")
	iReset, gReset := time.Duration(I(cfg, "FaucetConfig.IndividualReset")), time.Duration(I(cfg, "FaucetConfig.GlobalReset"))
	pourAmount, maxPour := U(cfg, "FaucetConfig.PourAmount"), U(cfg, "FaucetConfig.MaxPourAmount")
	m, _ := h.Vars["c17model"].(*fcModel)
	if m == nil {
		m = &fcModel{users: map[string]*fcWin{}}
		h.Vars["c17model"] = m
	}
	now := int64(t.CreationDate)
	// global window: every successful faucet transaction is an occasion to start a new one
	gRestart := false
	if !m.g.set || fcElapsed(now, m.g.start) >= gReset {
		gRestart = m.g.set
		m.g = fcWin{set: true, start: now}
		h.C("C17", "global_windows_started")
	}
	if fn != "pour" {
		h.C("C17", "faucet_"+fn+"_observed")
		return
	}
	d := h.deltas(o)
	poured := -d[faucetsc.ADDRESS]
	if poured <= 0 {
		return
	}
	h.C("C17", "pours_checked")
	if run != nil {
		run.Eval(1)
	}
	fpre, _ := h.Bal(o.Pre, faucetsc.ADDRESS)
	if uint64(poured) > fpre {
		h.V("C17", "pour-exceeds-faucet-balance", fmt.Sprintf("poured %d with faucet balance %d", poured, fpre), o)
	}
	client := t.ClientID
	u := m.users[client]
	if u == nil {
		u = &fcWin{}
		m.users[client] = u
	}
	uRestart := false
	if !u.set || fcElapsed(now, u.start) >= iReset || fcElapsed(now, u.start) >= gReset {
		uRestart = u.set
		*u = fcWin{set: true, start: now}
		h.C("C17", "client_windows_started")
	}
	u.sum += uint64(poured)
	m.g.sum += uint64(poured)
	straddle := u.start < m.g.start // the client's window was opened in an earlier global window and is still running
	if straddle {
		h.C("C17", "pours_in_client_window_straddling_global_restart")
	}
	class := fcReqClass(uint64(t.Value), pourAmount, maxPour)
	h.C("C17", "pours_requested_"+class)
	// how close to the end of the windows did the pour arrive (buckets, for the evidence)
	edge := func(start int64, reset time.Duration) string {
		left := reset - fcElapsed(now, start)
		switch {
		case fcElapsed(now, start) == 0:
			return "at-start"
		case left <= 2*time.Minute:
			return "last-2m"
		case fcElapsed(now, start) <= 2*time.Minute:
			return "first-2m"
		}
		return "mid"
	}
	if run != nil {
		run.Distinct(fmt.Sprintf("req=%s|urestart=%v|grestart=%v|straddle=%v|uedge=%s|gedge=%s|ufull=%v|gfull=%v|uover=%v|gover=%v", class, uRestart, gRestart, straddle,
			edge(u.start, iReset), edge(m.g.start, gReset), u.sum == periodic, m.g.sum == global, u.sum > periodic, m.g.sum > global))
	}
	// the signature says which kind of request crossed the limit: the default amount (requested 0 or >= max_pour_amount)
	// or an amount chosen by the caller
	kind := "default-amount"
	if class != "zero" && class != "max" && class != "above-max" {
		kind = "requested-amount"
	}
	if u.sum > periodic {
		h.V("C17", "periodic-limit-exceeded:"+kind, fmt.Sprintf("client %s received %d within one individual window (opened at %d, now %d, individual_reset %s, global_reset %s), periodic limit %d (this pour: requested %d, got %d, pour_amount %d, max_pour_amount %d)",
			h.name(client), u.sum, u.start, now, iReset, gReset, periodic, t.Value, poured, pourAmount, maxPour), o)
	}
	if m.g.sum > global {
		h.V("C17", "global-limit-exceeded:"+kind, fmt.Sprintf("faucet poured %d within one global window (opened at %d, now %d, global_reset %s), global limit %d (this pour: requested %d, got %d, pour_amount %d, max_pour_amount %d)",
			m.g.sum, m.g.start, now, gReset, global, t.Value, poured, pourAmount, maxPour), o)
	}
}

// ---- directed scenario -------------------------------------------------------------------------------------------------

func init() {
	RegisterScenario(Scenario{Prop: "C17", Name: "faucet-windows", Fn: fcScenarioC17})
}

// fcScenarioC17: the owner sets small limits and short reset lengths; a few clients then pour with requested values of every
// class (0, below pour_amount, pour_amount, between pour_amount and max_pour_amount, max and above) while the clock is moved
// to shortly before / at / shortly after the ends of the clients' windows and of the global window, including a client
// window that is opened late in one global window and is still running when the next global window starts.
func fcScenarioC17(h *Hist, mons []Monitor) {
	r := h.R.Fork("c17-windows")
	T := transaction.TxnTypeSmartContract
	zcn := func(n int) uint64 { return uint64(n) * 1e10 }
	pourAmt := 1 + r.Intn(2)
	maxPour := pourAmt + 3 + r.Intn(4)
	periodic := maxPour + 2 + r.Intn(6)
	global := 2*periodic + 3 + r.Intn(12)
	ir := []time.Duration{time.Hour, 90 * time.Minute, 2 * time.Hour}[r.Intn(3)]
	gr := ir + time.Duration(r.Intn(4))*20*time.Minute // ir <= gr < 2*ir
	fields := map[string]string{
		"pour_amount": fmt.Sprint(pourAmt), "max_pour_amount": fmt.Sprint(maxPour), "periodic_limit": fmt.Sprint(periodic), "global_limit": fmt.Sprint(global),
		"individual_reset": ir.String(), "global_rest": gr.String(),
	}
	settings := func(f map[string]string) *TxnObs {
		return h.Submit(&Call{Name: "faucet.update-settings", Mut: "scenario", Meta: map[string]interface{}{"gov": "faucet", "settings": f, "all_valid_syntax": true},
			Spec: world.TxnSpec{From: h.W.Owner, To: faucetsc.ADDRESS, Fee: Coin(r.Intn(500)), Type: T, Func: "update-settings", Input: map[string]interface{}{"fields": f}}}, mons)
	}
	if o := settings(fields); o.Outcome != "success" {
		h.C("C17", "scenario_settings_refused")
		return
	}
	h.C("C17", "scenario_runs")
	nc := 2 + r.Intn(2)
	perm := make([]int, len(h.W.Clients))
	for i := range perm {
		perm[i] = i
	}
	r.Shuffle(len(perm), func(i, j int) { perm[i], perm[j] = perm[j], perm[i] })
	var clients []*world.Wallet
	for i := 0; i < nc; i++ {
		clients = append(clients, h.W.Clients[perm[i]])
	}
	// what the scenario believes about the windows (only used to aim the clock; the oracle keeps its own model)
	g0 := int64(h.W.Now)
	ustart := map[string]int64{}
	sec := func(d time.Duration) int64 { return int64(d / time.Second) }
	value := func() uint64 {
		switch r.Intn(8) {
		case 0, 1:
			return 0
		case 2:
			return 1 + r.U64()%zcn(pourAmt) // below pour_amount (down to single units)
		case 3:
			return zcn(pourAmt)
		case 4, 5:
			return zcn(pourAmt) + 1 + r.U64()%(zcn(maxPour)-zcn(pourAmt)-1) // between pour_amount and max_pour_amount
		case 6:
			return zcn(maxPour) - 1
		}
		return zcn(maxPour) + uint64(r.Intn(2))*zcn(3)
	}
	pour := func(c *world.Wallet, v uint64) *TxnObs {
		now := int64(h.W.Now)
		o := h.Submit(&Call{Name: "faucet.pour", Mut: "scenario", Spec: world.TxnSpec{From: c, To: faucetsc.ADDRESS, Value: Coin(v), Fee: Coin(r.Intn(500)), Type: T, Func: "pour", Input: map[string]string{}}}, mons)
		h.C("C17", "scenario_pours")
		if o.Outcome == "success" {
			if now-g0 >= sec(gr) {
				g0 = now
			}
			if s, ok := ustart[c.ID]; !ok || now-s >= sec(ir) {
				ustart[c.ID] = now
			}
		}
		if h.TxInBlk >= 1+r.Intn(4) {
			h.EndBlock()
		}
		return o
	}
	goTo := func(t int64) {
		if t > int64(h.W.Now) {
			h.EndBlock()
			h.W.Advance(time.Duration(t-int64(h.W.Now)) * time.Second)
		}
	}
	// fill a client's window: pour until the contract refuses (or a bound is reached)
	fill := func(c *world.Wallet) {
		for i := 0; i < 3*periodic; i++ {
			if pour(c, value()).Outcome != "success" {
				return
			}
			if r.Chance(0.3) {
				goTo(int64(h.W.Now) + int64(1+r.Intn(20)))
			}
		}
	}
	A, B := clients[0], clients[1]
	// 1. A pours early in the first global window
	goTo(int64(h.W.Now) + int64(r.Intn(30)))
	for i := 0; i < 1+r.Intn(3); i++ {
		pour(A, value())
	}
	// 2. B opens its window late in the global window, so that it outlives it, and uses up its limit
	late := 60 + int64(r.Intn(int(sec(ir))/2))
	goTo(g0 + sec(gr) - late)
	fill(B)
	bStart := ustart[B.ID]
	// 3. the global window ends while B's window is still open; another faucet transaction opens the next global window
	goTo(g0 + sec(gr) + int64(r.Intn(int(late)/2+1)))
	touch := func(o *TxnObs) { // a successful refill / update-settings stores the global node as well
		if o.Outcome == "success" && int64(o.Txn.CreationDate)-g0 >= sec(gr) {
			g0 = int64(o.Txn.CreationDate)
		}
	}
	switch r.Intn(3) {
	case 0:
		pour(clients[nc-1], value())
	case 1:
		touch(h.Submit(&Call{Name: "faucet.refill", Mut: "scenario", Spec: world.TxnSpec{From: A, To: faucetsc.ADDRESS, Value: Coin(1 + r.Intn(1000)), Fee: Coin(r.Intn(500)), Type: T, Func: "refill", Input: map[string]string{}}}, mons))
	case 2:
		touch(settings(map[string]string{"global_limit": fmt.Sprint(global)}))
	}
	// 4. B asks again inside its old window, right before its end, and at / after its end
	for i := 0; i < 2+r.Intn(2); i++ {
		pour(B, value())
	}
	if bStart != 0 {
		goTo(bStart + sec(ir) - int64(1+r.Intn(90)))
		pour(B, value())
		pour(B, 0)
		goTo(bStart + sec(ir) + int64(r.Intn(2)))
		fill(B)
	}
	// 5. random walk over the boundaries: every step aims the clock at the neighbourhood of the end of some window
	steps := 18 + r.Intn(10)
	for i := 0; i < steps; i++ {
		c := clients[r.Intn(nc)]
		now := int64(h.W.Now)
		var targets []int64
		for _, q := range clients {
			if s, ok := ustart[q.ID]; ok && s+sec(ir) > now {
				targets = append(targets, s+sec(ir))
			}
		}
		if g0+sec(gr) > now {
			targets = append(targets, g0+sec(gr))
		}
		switch k := r.Intn(10); {
		case k < 5 && len(targets) > 0:
			b := targets[r.Intn(len(targets))]
			off := []int64{-61, -2, -1, 0, 0, 1, 2, 45}[r.Intn(8)]
			goTo(b + off)
		case k < 8:
			goTo(now + int64(1+r.Intn(30)))
		default:
			goTo(now + int64(r.Intn(int(sec(ir)))))
		}
		if r.Chance(0.35) {
			fill(c)
		} else {
			pour(c, value())
		}
	}
	h.EndBlock()
}
