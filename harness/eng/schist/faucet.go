package schist

import (
	"fmt"
	"time"

	"0chain.net/smartcontract/faucetsc"
)

// C17: faucet limits. Windows are identified by the StartTime the contract records in state (the contract defines
// what a window is); the amounts are taken from balance deltas, never from the contract's own counters.
func monC17(h *Hist, o *TxnObs) {
	if o.Call.Name != "faucet.pour" || o.Outcome != "success" {
		return
	}
	gnPre := h.NodesOfType(o.Pre, "*faucetsc.GlobalNode")
	gnPost := h.NodesOfType(o.Post, "*faucetsc.GlobalNode")
	if len(gnPre) != 1 || len(gnPost) != 1 {
		return
	}
	cfg := gnPre[0].Val
	periodic, global := U(cfg, "FaucetConfig.PeriodicLimit"), U(cfg, "FaucetConfig.GlobalLimit")
	d := h.deltas(o)
	poured := -d[faucetsc.ADDRESS]
	if poured <= 0 {
		return
	}
	h.C("C17", "pours_checked")
	if r := h.Runs["C17"]; r != nil {
		r.Eval(1)
	}
	fpre, _ := h.Bal(o.Pre, faucetsc.ADDRESS)
	if uint64(poured) > fpre {
		h.V("C17", "pour-exceeds-faucet-balance", fmt.Sprintf("poured %d with faucet balance %d", poured, fpre), o)
	}
	client := o.Txn.ClientID
	var uStart string
	for _, n := range h.NodesOfType(o.Post, "*faucetsc.UserNode") {
		if Str(n.Val, "ID") == client {
			uStart = F(n.Val, "StartTime").Interface().(time.Time).UTC().String()
		}
	}
	gStart := F(gnPost[0].Val, "StartTime").Interface().(time.Time).UTC().String()
	type win struct{ sum uint64 }
	wins, _ := h.Vars["c17"].(map[string]*win)
	if wins == nil {
		wins = map[string]*win{}
		h.Vars["c17"] = wins
	}
	uk := "u|" + client + "|" + uStart
	gk := "g|" + gStart
	for _, k := range []string{uk, gk} {
		if wins[k] == nil {
			wins[k] = &win{}
		}
		wins[k].sum += uint64(poured)
	}
	if r := h.Runs["C17"]; r != nil {
		r.Distinct(fmt.Sprintf("req=%d|got=%d|over=%v", o.Txn.Value, poured, wins[uk].sum > periodic))
	}
	if wins[uk].sum > periodic {
		h.V("C17", "periodic-limit-exceeded", fmt.Sprintf("client %s received %d in one window, periodic limit %d (this pour: requested %d, got %d)", h.name(client), wins[uk].sum, periodic, o.Txn.Value, poured), o)
	}
	if wins[gk].sum > global {
		h.V("C17", "global-limit-exceeded", fmt.Sprintf("faucet poured %d in one global window, limit %d", wins[gk].sum, global), o)
	}
}
