package schist

import (
	"encoding/hex"
	"encoding/json"
	"fmt"
	"strings"
	"time"

	"0chain.net/chaincore/state"
	"0chain.net/chaincore/transaction"
	"0chain.net/core/encryption"
	"0chain.net/smartcontract/multisigsc"
	"github.com/herumi/bls-go-binary/bls"

	"verifh/mon"
	"verifh/world"
)

type msWallet struct {
	Group      *world.Wallet
	T, N       int
	Signers    []*world.Wallet // signer i holds threshold share i (its wallet key IS the share)
	ThreshIDs  []string
	Registered bool
	Proposals  []*msProposal
	// the last signature of signer i the contract accepted in a vote (on whatever transfer that vote was about)
	AcceptedSig map[int]string
}

type msProposal struct {
	ID       string
	To       string
	Amount   uint64
	Voted    map[int]bool
	Executed bool
}

type multisigShadow struct {
	Wallets []*msWallet
	n       int
}

func newMultisigShadow() *multisigShadow { return &multisigShadow{} }

// deterministic t-of-n shares of a group key (polynomial coefficients derived from the label)
func makeShares(group *world.Wallet, t, n int, label string) ([]*world.Wallet, []string) {
	var gsk bls.SecretKey
	b, _ := hex.DecodeString(group.SecHex)
	if err := gsk.SetLittleEndian(b); err != nil {
		panic(err)
	}
	msk := []bls.SecretKey{gsk}
	for j := 1; j < t; j++ {
		var c bls.SecretKey
		if err := c.SetLittleEndianMod(encryption.RawHash(fmt.Sprintf("poly:%s:%d", label, j))); err != nil {
			panic(err)
		}
		msk = append(msk, c)
	}
	var ws []*world.Wallet
	var ids []string
	for i := 1; i <= n; i++ {
		var id bls.ID
		if err := id.SetDecString(fmt.Sprint(i)); err != nil {
			panic(err)
		}
		var sk bls.SecretKey
		if err := sk.Set(msk, &id); err != nil {
			panic(err)
		}
		pub := sk.GetPublicKey().SerializeToHexStr()
		sec := hex.EncodeToString(sk.GetLittleEndian())
		sch := encryption.NewBLS0ChainScheme()
		if err := sch.ReadKeys(strings.NewReader(pub + "\n" + sec + "\n")); err != nil {
			panic(err)
		}
		pkb, _ := hex.DecodeString(sch.GetPublicKey())
		ws = append(ws, &world.Wallet{Name: fmt.Sprintf("%s-signer%d", label, i), ID: encryption.Hash(pkb), PubKey: sch.GetPublicKey(), Scheme: sch, SecHex: sec})
		ids = append(ids, id.GetHexString())
	}
	return ws, ids
}

func transferHash(from, to string, amount uint64) string {
	t := state.Transfer{ClientID: from, ToClientID: to, Amount: Coin(amount)}
	return encryption.Hash(t.Encode())
}

func multisigOps() []OpDef {
	sc := multisigsc.Address
	T := transaction.TxnTypeSmartContract
	return []OpDef{
		{Name: "multisig.register", Tags: []string{"multisig", "setup"}, Build: func(h *Hist, r *mon.Rand) *Call {
			m := h.S.Ms
			if len(m.Wallets) >= 3 {
				return nil
			}
			m.n++
			// the group wallet must hold funds: use a client wallet as the group key
			g := h.W.Clients[(m.n)%len(h.W.Clients)]
			for _, w := range m.Wallets {
				if w.Group == g {
					return nil
				}
			}
			n := 2 + r.Intn(4)
			t := 2 + r.Intn(n-1)
			label := fmt.Sprintf("%s-ms%d", h.ID, m.n)
			signers, ids := makeShares(g, t, n, label)
			for _, s := range signers {
				h.Names[s.ID] = s.Name
				h.W.Wallets[s.ID] = s
			}
			w := &msWallet{Group: g, T: t, N: n, Signers: signers, ThreshIDs: ids}
			var pubs []string
			for _, s := range signers {
				pubs = append(pubs, s.PubKey)
			}
			in := map[string]interface{}{"client_id": g.ID, "signature_scheme": "bls0chain", "public_key": g.PubKey, "signer_threshold_ids": ids, "signer_public_keys": pubs, "num_required": t}
			mut := ""
			if r.Chance(h.Vars["hostile"].(float64) * 0.4) {
				switch r.Intn(3) {
				case 0:
					in["num_required"] = 1
					mut = "t=1"
				case 1:
					in["num_required"] = n + 1
					mut = "t>n"
				case 2:
					in["client_id"] = h.anyClient(r).ID
					mut = "foreign-client-id"
				}
			}
			c := &Call{Name: "multisig.register", Mut: mut, Spec: world.TxnSpec{From: g, To: sc, Fee: Coin(h.fee(r) % 1000), Type: T, Func: "register", Input: in}}
			c.After = func(h *Hist, o *TxnObs) {
				if o.Outcome == "success" && mut == "" {
					w.Registered = true
					m.Wallets = append(m.Wallets, w)
				}
			}
			return c
		}},
		{Name: "multisig.vote", Tags: []string{"multisig", "C04"}, Build: func(h *Hist, r *mon.Rand) *Call {
			m := h.S.Ms
			if len(m.Wallets) == 0 {
				return nil
			}
			w := m.Wallets[r.Intn(len(m.Wallets))]
			var p *msProposal
			if len(w.Proposals) == 0 || r.Chance(0.25) {
				bal, _ := h.Bal(h.Cur, w.Group.ID)
				amt := []uint64{1, 1e10, 5e11, bal / 1000, bal + 1}[r.Intn(5)]
				if amt == 0 {
					amt = 1
				}
				p = &msProposal{ID: fmt.Sprintf("p%d-%d", len(w.Proposals), r.Intn(1000)), To: h.anyWallet(r).ID, Amount: amt, Voted: map[int]bool{}}
				w.Proposals = append(w.Proposals, p)
			} else {
				p = w.Proposals[r.Intn(len(w.Proposals))]
			}
			i := r.Intn(w.N)
			signer := w.Signers[i]
			to, amt := p.To, p.Amount
			sig := signer.Sign(transferHash(w.Group.ID, to, amt))
			from := signer
			mut := ""
			hostile := h.Vars["hostile"].(float64)
			if r.Chance(hostile) {
				switch r.Intn(7) {
				case 6: // the signer's own signature, but the one it gave (and the contract accepted) for ANOTHER transfer
					if old, ok := w.AcceptedSig[i]; ok && old != sig {
						sig = old
						mut = "signature-of-another-transfer"
					}
				case 0: // stranger votes with own signature
					from = h.anyClient(r)
					sig = from.Sign(transferHash(w.Group.ID, to, amt))
					mut = "stranger"
				case 1: // signer submits another signer's signature
					j := (i + 1) % w.N
					sig = w.Signers[j].Sign(transferHash(w.Group.ID, to, amt))
					mut = "others-share"
				case 2: // incompatible transfer under the same proposal id
					amt = amt + 1
					sig = signer.Sign(transferHash(w.Group.ID, to, amt))
					mut = "incompatible"
				case 3: // garbage signature
					sig = signer.Sign(transferHash(w.Group.ID, to, amt+7))
					mut = "bad-signature"
				case 4: // drains somebody else's wallet
					victim := h.anyClient(r)
					if victim != w.Group {
						sig = signer.Sign(transferHash(victim.ID, to, amt))
						mut = "foreign-source"
						in := map[string]interface{}{"proposal_id": p.ID + "x", "transfer": map[string]interface{}{"from": victim.ID, "to": to, "amount": amt}, "signature": sig}
						return &Call{Name: "multisig.vote", Mut: mut, Meta: map[string]interface{}{"ms": w, "prop": p, "signer": i}, Spec: world.TxnSpec{From: from, To: sc, Fee: 0, Type: T, Func: "vote", Input: in}}
					}
				case 5: // expired: vote a week later (in a block of its own: the contract's clock is the block's creation date)
					h.EndBlock()
					h.W.Advance(8 * 24 * 3600 * 1e9)
					mut = "after-expiry-window"
				}
			}
			in := map[string]interface{}{"proposal_id": p.ID, "transfer": map[string]interface{}{"from": w.Group.ID, "to": to, "amount": amt}, "signature": sig}
			c := &Call{Name: "multisig.vote", Mut: mut, Meta: map[string]interface{}{"ms": w, "prop": p, "signer": i}, Spec: world.TxnSpec{From: from, To: sc, Fee: 0, Type: T, Func: "vote", Input: in}}
			if mut == "" {
				usedSig := sig
				c.After = func(h *Hist, o *TxnObs) {
					if o.Outcome == "success" {
						if w.AcceptedSig == nil {
							w.AcceptedSig = map[int]string{}
						}
						w.AcceptedSig[i] = usedSig
					}
				}
			}
			return c
		}},
	}
}

// ---- C21 -------------------------------------------------------------------------------------------------------------------------

// The oracle is a reference model of every wallet and every proposal, built from the submitted transactions only (register and vote
// inputs, block time); the contract's stored proposals are never the source of truth.

// msModelWallet is a wallet as registered: who may sign and how many distinct signers a transfer needs.
type msModelWallet struct {
	ID, PubKey string
	SignerIDs  []string // client id of signer i (hash of its public key)
	SignerPubs []string
	Required   int
}

// msModelProposal is one generation of a proposal (wallet, proposal id): it starts with the first counted vote and ends one
// expiration period later; only votes cast inside that window by distinct registered signers on the identical transfer count.
type msModelProposal struct {
	Transfer state.Transfer
	First    int64
	Expiry   int64
	Voters   map[string]bool // signer client ids
	Executed int
	Gen      int
}

type msModel struct {
	Wallets map[string]*msModelWallet
	Props   map[string]*msModelProposal
	Expired map[string]*msModelProposal // last expired generation per key (evidence and the carry-over rule)
	Gens    map[string]int
}

func msGetModel(h *Hist) *msModel {
	m, _ := h.Vars["msC21"].(*msModel)
	if m == nil {
		m = &msModel{Wallets: map[string]*msModelWallet{}, Props: map[string]*msModelProposal{}, Expired: map[string]*msModelProposal{}, Gens: map[string]int{}}
		h.Vars["msC21"] = m
	}
	return m
}

// msExpirationPeriod is the configured life time of a proposal in seconds (a constant of the contract's configuration).
const msExpirationPeriod = int64(multisigsc.ExpirationTime)

func msClientIDOfKey(pub string) string {
	b, err := hex.DecodeString(pub)
	if err != nil {
		return ""
	}
	return encryption.Hash(b)
}

// msSchemeVerify asks the chain's signature scheme whether sig is pub's signature over msg.
func msSchemeVerify(pub, sig, msg string) (ok bool) {
	defer func() {
		if e := recover(); e != nil {
			ok = false
		}
	}()
	sch := encryption.NewBLS0ChainScheme()
	if sch.SetPublicKey(pub) != nil {
		return false
	}
	good, err := sch.Verify(sig, msg)
	return good && err == nil
}

type msEnvelope struct {
	Name  string          `json:"name"`
	Input json.RawMessage `json:"input"`
}

// msObserveRegister follows a successful registration.
func msObserveRegister(h *Hist, m *msModel, o *TxnObs, env msEnvelope) {
	if o.Outcome != "success" || !strings.HasPrefix(o.Txn.TransactionOutput, "success") {
		return
	}
	var in struct {
		ClientID  string   `json:"client_id"`
		PublicKey string   `json:"public_key"`
		IDs       []string `json:"signer_threshold_ids"`
		Keys      []string `json:"signer_public_keys"`
		Required  int      `json:"num_required"`
	}
	if json.Unmarshal(env.Input, &in) != nil {
		return
	}
	if m.Wallets[in.ClientID] != nil {
		h.C("C21", "obs_wallet_registered_again")
		return
	}
	w := &msModelWallet{ID: in.ClientID, PubKey: in.PublicKey, SignerPubs: in.Keys, Required: in.Required}
	for _, k := range in.Keys {
		w.SignerIDs = append(w.SignerIDs, msClientIDOfKey(k))
	}
	m.Wallets[w.ID] = w
	h.C("C21", fmt.Sprintf("wallets_registered_%d_of_%d", w.Required, len(w.SignerIDs)))
}

func monC21(h *Hist, o *TxnObs) {
	m := msGetModel(h)
	var env msEnvelope
	isMS := o.Txn.TransactionType == transaction.TxnTypeSmartContract && o.Txn.ToClientID == multisigsc.Address && json.Unmarshal([]byte(o.Txn.TransactionData), &env) == nil
	if isMS && env.Name == "register" {
		msObserveRegister(h, m, o, env)
	}
	if !isMS || env.Name != "vote" {
		// any signed transfer outside a vote is unexpected
		if len(o.STr) > 0 && o.Outcome == "success" {
			h.V("C21", "signed-transfer-outside-vote", fmt.Sprintf("%s queued %d signed transfers", o.Call.Name, len(o.STr)), o)
		}
		return
	}
	var v struct {
		ProposalID string         `json:"proposal_id"`
		Transfer   state.Transfer `json:"transfer"`
		Signature  string         `json:"signature"`
	}
	executed := 0
	if o.Outcome == "success" {
		executed = len(o.STr)
	}
	if json.Unmarshal(env.Input, &v) != nil {
		h.C("C21", "votes_payload_unreadable")
		if executed > 0 {
			h.V("C21", "executed-below-threshold", "a vote the monitor cannot read executed a transfer", o)
		}
		return
	}
	h.C("C21", "votes_judged")
	now := int64(o.Block.CreationDate)
	mut := o.Call.Mut
	w := m.Wallets[v.Transfer.ClientID]
	key := v.Transfer.ClientID + "|" + v.ProposalID
	ref := m.Props[key]
	late := ""
	if ref != nil && now >= ref.Expiry {
		// the proposal expired: its votes are void; a later valid vote starts a fresh proposal
		m.Expired[key] = ref
		delete(m.Props, key)
		late = fmt.Sprintf("late:votes=%d,exec=%d", len(ref.Voters), ref.Executed)
		ref = nil
	}
	old := m.Expired[key]
	// does the vote count by the statement? registered signer of the wallet, validly signed, same transfer as the proposal
	signer := -1
	if w != nil {
		for i, id := range w.SignerIDs {
			if id != "" && id == o.Txn.ClientID {
				signer = i
			}
		}
	}
	valid := signer >= 0 && v.Transfer.Amount > 0 && v.Signature != "" &&
		msSchemeVerify(w.SignerPubs[signer], v.Signature, transferHash(v.Transfer.ClientID, v.Transfer.ToClientID, uint64(v.Transfer.Amount)))
	compatible := ref == nil || ref.Transfer == v.Transfer
	cast := o.Outcome == "success" && strings.HasPrefix(o.Txn.TransactionOutput, "success")
	counts := cast && valid && compatible
	if cast && !counts {
		h.C("C21", fmt.Sprintf("obs_vote_answered_success_but_does_not_count|valid=%v|compatible=%v", valid, compatible))
	}
	fresh := false
	repeated := false
	if counts {
		if ref == nil {
			m.Gens[key]++
			ref = &msModelProposal{Transfer: v.Transfer, First: now, Expiry: now + msExpirationPeriod, Voters: map[string]bool{}, Gen: m.Gens[key]}
			m.Props[key] = ref
			fresh = true
		}
		repeated = ref.Voters[o.Txn.ClientID]
		if ref.Executed == 0 {
			ref.Voters[o.Txn.ClientID] = true
		}
	}
	nv, gen, t, n := 0, 0, 0, 0
	if ref != nil {
		nv, gen = len(ref.Voters), ref.Gen
	}
	if w != nil {
		t, n = w.Required, len(w.SignerIDs)
	}
	if r := h.Runs["C21"]; r != nil {
		r.Eval(1)
		if gen > 2 {
			gen = 2
		}
		r.Distinct(fmt.Sprintf("t=%d|n=%d|votes=%d|gen=%d|%s|valid=%v|compat=%v|repeat=%v|mut=%s|%s|exec=%d", t, n, nv, gen, late, valid, compatible, repeated, mut, o.Outcome, executed))
	}
	if late != "" {
		h.C("C21", "votes_after_expiry|"+o.Outcome)
		if old != nil && w != nil && len(old.Voters) == w.Required-1 && old.Executed == 0 && valid && !old.Voters[o.Txn.ClientID] {
			// the decisive case: only the expiry stands between this vote and an execution
			h.C("C21", "votes_after_expiry_by_new_signer_on_proposal_one_short|"+o.Outcome)
		}
	}
	if fresh && old != nil {
		h.C("C21", "proposals_started_again_under_the_same_id_after_expiry")
		// a vote at/after the expiry never adds to the votes cast before it: the stored proposal it produced starts empty
		if node := h.NodeByKey(o.Post, multisigsc.Address+v.Transfer.ClientID+encryption.Hash(v.ProposalID)); node != nil {
			h.C("C21", "restarted_proposals_checked_in_state")
			ids := F(node.Val, "SignerThresholdIDs")
			if ids.IsValid() && ids.Len() > 1 {
				h.V("C21", "vote-after-expiry-added-to-expired-votes", fmt.Sprintf("a vote %d s after the expiry of a proposal with %d votes left a proposal holding %d votes", now-old.Expiry, len(old.Voters), ids.Len()), o)
			}
			if exp := I(node.Val, "ExpirationDate"); exp != ref.Expiry {
				h.V("C21", "vote-after-expiry-kept-expired-window", fmt.Sprintf("proposal restarted at %d expires at %d, expected %d", now, exp, ref.Expiry), o)
			}
		}
	}
	if executed > 1 {
		h.V("C21", "several-transfers-in-one-vote", fmt.Sprintf("%d signed transfers queued by one vote", executed), o)
	}
	if executed >= 1 {
		h.C("C21", "executions_observed")
		if ref != nil && ref.Gen > 1 {
			h.C("C21", "executions_of_restarted_proposals")
		}
		st := o.STr[0]
		switch {
		case w == nil:
			h.V("C21", "transfer-from-unregistered-wallet", "a vote executed a transfer out of a wallet that is not a registered multisig wallet", o)
		case ref == nil || len(ref.Voters) < w.Required:
			detail := fmt.Sprintf("transfer executed with %d distinct valid votes of registered signers inside the proposal's life time, %d required (mutation %q)", nv, w.Required, mut)
			if late != "" && old != nil {
				detail += fmt.Sprintf("; the vote came %d s after the expiry of a proposal that had collected %d votes", now-old.Expiry, len(old.Voters))
			}
			h.V("C21", "executed-below-threshold", detail, o)
		}
		if ref != nil {
			ref.Executed++
			if ref.Executed > 1 {
				h.V("C21", "proposal-executed-twice", fmt.Sprintf("proposal %s executed %d times", v.ProposalID, ref.Executed), o)
			}
			if st.Transfer != ref.Transfer {
				h.V("C21", "executed-transfer-differs-from-proposal", fmt.Sprintf("executed %+v, voted %+v", st.Transfer, ref.Transfer), o)
			}
		}
		if err := st.VerifySignature(true); err != nil {
			h.V("C21", "executed-transfer-signature-invalid", fmt.Sprintf("executed transfer does not verify under the wallet key: %v", err), o)
		}
		if w != nil {
			if st.ClientID != w.ID || st.PublicKey != w.PubKey {
				h.V("C21", "executed-transfer-wrong-wallet", "executed transfer is not from the multisig wallet / key", o)
			}
			d := h.deltas(o)
			if st.ToClientID != st.ClientID && d[w.ID] != -int64(st.Amount) {
				h.V("C21", "executed-amount-mismatch", fmt.Sprintf("wallet delta %d, transfer amount %d", d[w.ID], st.Amount), o)
			}
		}
	} else if counts && ref.Executed == 0 && w != nil && len(ref.Voters) >= w.Required {
		// enough distinct valid votes but nothing executed
		h.V("C21", "threshold-reached-not-executed", fmt.Sprintf("%d distinct valid votes (required %d) but no transfer was executed: %s", len(ref.Voters), w.Required, trunc(o.Txn.TransactionOutput, 100)), o)
	}
}

// ---- directed scenario: votes around the expiry -----------------------------------------------------------------------------------

// msVote builds the vote of signer i of wallet w on proposal p.
func msVote(h *Hist, w *msWallet, p *msProposal, i int, mut string) *Call {
	signer := w.Signers[i]
	sig := signer.Sign(transferHash(w.Group.ID, p.To, p.Amount))
	in := map[string]interface{}{"proposal_id": p.ID, "transfer": map[string]interface{}{"from": w.Group.ID, "to": p.To, "amount": p.Amount}, "signature": sig}
	return &Call{Name: "multisig.vote", Mut: mut, Meta: map[string]interface{}{"ms": w, "prop": p, "signer": i},
		Spec: world.TxnSpec{From: signer, To: multisigsc.Address, Fee: 0, Type: transaction.TxnTypeSmartContract, Func: "vote", Input: in}}
}

// msScenarioC21 registers several wallets (2-of-3, 3-of-5, ...), opens several proposals per wallet that stop one vote short of the
// threshold (interleaved, so that they sit at different places of the contract's expiration queue), lets them expire, and then
// votes late: new signers, repeated signers and strangers on proposals at the tail, in the middle and at the head of the queue;
// finally proposals are started again under their old ids and completed. Some proposals are younger and still alive at that time.
func msScenarioC21(h *Hist, mons []Monitor) {
	r := h.R.Fork("c21-expiry")
	ms := h.S.Ms
	submit := func(c *Call) *TxnObs {
		o := h.Submit(c, mons)
		if o.Outcome != "rejected" {
			h.S.Accepted = append(h.S.Accepted, o.Txn)
			if len(h.S.Accepted) > 64 {
				h.S.Accepted = h.S.Accepted[1:]
			}
		}
		if h.TxInBlk >= 1+r.Intn(4) {
			h.EndBlock()
			h.W.Advance(time.Duration(1+r.Intn(90)) * time.Second)
		}
		return o
	}
	jump := func(d time.Duration) {
		h.EndBlock()
		h.W.Advance(d)
	}
	shapes := [][2]int{{2, 3}, {3, 5}, {2, 3}, {3, 4}, {2, 2}, {4, 5}}
	r.Shuffle(len(shapes)-2, func(i, j int) { shapes[i], shapes[j] = shapes[j], shapes[i] })
	nw := 2 + r.Intn(2)
	var ws []*msWallet
	for k := 0; k < nw && len(ms.Wallets) < 3; k++ {
		ms.n++
		g := h.W.Clients[ms.n%len(h.W.Clients)]
		t, n := shapes[k][0], shapes[k][1]
		label := fmt.Sprintf("%s-ms%d", h.ID, ms.n)
		signers, ids := makeShares(g, t, n, label)
		var pubs []string
		for _, s := range signers {
			h.Names[s.ID] = s.Name
			h.W.Wallets[s.ID] = s
			pubs = append(pubs, s.PubKey)
		}
		w := &msWallet{Group: g, T: t, N: n, Signers: signers, ThreshIDs: ids}
		in := map[string]interface{}{"client_id": g.ID, "signature_scheme": "bls0chain", "public_key": g.PubKey, "signer_threshold_ids": ids, "signer_public_keys": pubs, "num_required": t}
		o := submit(&Call{Name: "multisig.register", Spec: world.TxnSpec{From: g, To: multisigsc.Address, Fee: Coin(h.fee(r) % 1000), Type: transaction.TxnTypeSmartContract, Func: "register", Input: in}})
		if o.Outcome == "success" {
			w.Registered = true
			ms.Wallets = append(ms.Wallets, w)
			ws = append(ws, w)
		}
	}
	if len(ws) == 0 {
		return
	}
	type slot struct {
		w     *msWallet
		p     *msProposal
		voted []int // signers that voted before the expiry
		young bool
	}
	var queue []*slot
	open := func(w *msWallet, short int, young bool) {
		amt := []uint64{1, 7, 1e9, 3e9 + uint64(r.Intn(1000))}[r.Intn(4)]
		p := &msProposal{ID: fmt.Sprintf("x%d-%d", len(w.Proposals), r.Intn(1000)), To: h.anyClient(r).ID, Amount: amt, Voted: map[int]bool{}}
		w.Proposals = append(w.Proposals, p)
		s := &slot{w: w, p: p, young: young}
		queue = append(queue, s)
		perm := make([]int, w.N)
		for i := range perm {
			perm[i] = i
		}
		r.Shuffle(len(perm), func(i, j int) { perm[i], perm[j] = perm[j], perm[i] })
		for k := 0; k < w.T-short; k++ {
			if o := submit(msVote(h, w, p, perm[k], "")); o.Outcome == "success" {
				s.voted = append(s.voted, perm[k])
			}
			if r.Chance(0.2) {
				submit(msVote(h, w, p, perm[k], "repeated-signer"))
			}
		}
	}
	// old proposals, one vote short (sometimes two short, sometimes completed before the expiry), interleaved over the wallets
	per := 2 + r.Intn(2)
	for round := 0; round < per; round++ {
		order := r.Intn(len(ws))
		for k := range ws {
			w := ws[(k+order)%len(ws)]
			short := 1
			switch r.Intn(8) {
			case 0:
				short = 0
			case 1:
				if w.T > 2 {
					short = 2
				}
			}
			open(w, short, false)
		}
	}
	partial := r.Chance(0.5)
	if partial {
		// younger proposals: still alive when the old ones have expired
		jump(time.Duration(3*24+r.Intn(48)) * time.Hour)
		for _, w := range ws {
			open(w, 1, true)
		}
		jump(time.Duration(4*24+1+r.Intn(20)) * time.Hour)
	} else {
		jump(7*24*time.Hour + time.Duration(r.Intn(3*3600))*time.Second)
	}
	unvoted := func(s *slot) int {
		for i := 0; i < s.w.N; i++ {
			used := false
			for _, j := range s.voted {
				used = used || i == j
			}
			if !used {
				return i
			}
		}
		return -1
	}
	late := func(s *slot) {
		switch k := r.Intn(10); {
		case k < 7:
			if i := unvoted(s); i >= 0 {
				if o := submit(msVote(h, s.w, s.p, i, "after-expiry-window")); o.Outcome == "success" {
					s.voted = append(s.voted, i)
				}
			}
		case k < 9 && len(s.voted) > 0:
			submit(msVote(h, s.w, s.p, s.voted[r.Intn(len(s.voted))], "after-expiry-window-repeated-signer"))
		default:
			c := msVote(h, s.w, s.p, 0, "after-expiry-window-stranger")
			c.Spec.From = h.anyClient(r)
			submit(c)
		}
	}
	// late votes: tail first, then the middle, then the head (only the head of the queue is collected by a vote)
	idx := make([]int, 0, len(queue))
	for i := len(queue) - 1; i >= 1; i-- {
		idx = append(idx, i)
	}
	if r.Chance(0.5) {
		r.Shuffle(len(idx), func(i, j int) { idx[i], idx[j] = idx[j], idx[i] })
	}
	idx = append(idx, 0)
	for _, i := range idx {
		late(queue[i])
	}
	// start the proposals again under their ids, oldest first (each vote collects the expired head), and complete some of them
	for _, s := range queue {
		s.voted = nil
		perm := make([]int, s.w.N)
		for i := range perm {
			perm[i] = i
		}
		r.Shuffle(len(perm), func(i, j int) { perm[i], perm[j] = perm[j], perm[i] })
		k := 1
		if r.Chance(0.5) {
			k = s.w.T
		}
		for j := 0; j < k; j++ {
			if o := submit(msVote(h, s.w, s.p, perm[j], "restart")); o.Outcome == "success" {
				s.voted = append(s.voted, perm[j])
			}
		}
	}
	h.EndBlock()
}

func init() {
	RegisterScenario(Scenario{Prop: "C21", Name: "votes-around-expiry", Every: 1, Fn: msScenarioC21})
}
