package schist

import (
	"encoding/hex"
	"fmt"
	"strings"

	"0chain.net/chaincore/state"
	"0chain.net/chaincore/transaction"
	"0chain.net/core/encryption"
	"0chain.net/smartcontract/multisigsc"
	"github.com/herumi/bls-go-binary/bls"

	"verifh/mon"
	"verifh/world"
)

type msWallet struct {
	Group      *world.Wallet
	T, N       int
	Signers    []*world.Wallet // signer i holds threshold share i (its wallet key IS the share)
	ThreshIDs  []string
	Registered bool
	Proposals  []*msProposal
}

type msProposal struct {
	ID       string
	To       string
	Amount   uint64
	Voted    map[int]bool
	Executed bool
}

type multisigShadow struct {
	Wallets []*msWallet
	n       int
}

func newMultisigShadow() *multisigShadow { return &multisigShadow{} }

// deterministic t-of-n shares of a group key (polynomial coefficients derived from the label)
func makeShares(group *world.Wallet, t, n int, label string) ([]*world.Wallet, []string) {
	var gsk bls.SecretKey
	b, _ := hex.DecodeString(group.SecHex)
	if err := gsk.SetLittleEndian(b); err != nil {
		panic(err)
	}
	msk := []bls.SecretKey{gsk}
	for j := 1; j < t; j++ {
		var c bls.SecretKey
		if err := c.SetLittleEndianMod(encryption.RawHash(fmt.Sprintf("poly:%s:%d", label, j))); err != nil {
			panic(err)
		}
		msk = append(msk, c)
	}
	var ws []*world.Wallet
	var ids []string
	for i := 1; i <= n; i++ {
		var id bls.ID
		if err := id.SetDecString(fmt.Sprint(i)); err != nil {
			panic(err)
		}
		var sk bls.SecretKey
		if err := sk.Set(msk, &id); err != nil {
			panic(err)
		}
		pub := sk.GetPublicKey().SerializeToHexStr()
		sec := hex.EncodeToString(sk.GetLittleEndian())
		sch := encryption.NewBLS0ChainScheme()
		if err := sch.ReadKeys(strings.NewReader(pub + "\n" + sec + "\n")); err != nil {
			panic(err)
		}
		pkb, _ := hex.DecodeString(sch.GetPublicKey())
		ws = append(ws, &world.Wallet{Name: fmt.Sprintf("%s-signer%d", label, i), ID: encryption.Hash(pkb), PubKey: sch.GetPublicKey(), Scheme: sch, SecHex: sec})
		ids = append(ids, id.GetHexString())
	}
	return ws, ids
}

func transferHash(from, to string, amount uint64) string {
	t := state.Transfer{ClientID: from, ToClientID: to, Amount: Coin(amount)}
	return encryption.Hash(t.Encode())
}

func multisigOps() []OpDef {
	sc := multisigsc.Address
	T := transaction.TxnTypeSmartContract
	return []OpDef{
		{Name: "multisig.register", Tags: []string{"multisig", "setup"}, Build: func(h *Hist, r *mon.Rand) *Call {
			m := h.S.Ms
			if len(m.Wallets) >= 3 {
				return nil
			}
			m.n++
			// the group wallet must hold funds: use a client wallet as the group key
			g := h.W.Clients[(m.n)%len(h.W.Clients)]
			for _, w := range m.Wallets {
				if w.Group == g {
					return nil
				}
			}
			n := 2 + r.Intn(4)
			t := 2 + r.Intn(n-1)
			label := fmt.Sprintf("%s-ms%d", h.ID, m.n)
			signers, ids := makeShares(g, t, n, label)
			for _, s := range signers {
				h.Names[s.ID] = s.Name
				h.W.Wallets[s.ID] = s
			}
			w := &msWallet{Group: g, T: t, N: n, Signers: signers, ThreshIDs: ids}
			var pubs []string
			for _, s := range signers {
				pubs = append(pubs, s.PubKey)
			}
			in := map[string]interface{}{"client_id": g.ID, "signature_scheme": "bls0chain", "public_key": g.PubKey, "signer_threshold_ids": ids, "signer_public_keys": pubs, "num_required": t}
			mut := ""
			if r.Chance(h.Vars["hostile"].(float64) * 0.4) {
				switch r.Intn(3) {
				case 0:
					in["num_required"] = 1
					mut = "t=1"
				case 1:
					in["num_required"] = n + 1
					mut = "t>n"
				case 2:
					in["client_id"] = h.anyClient(r).ID
					mut = "foreign-client-id"
				}
			}
			c := &Call{Name: "multisig.register", Mut: mut, Spec: world.TxnSpec{From: g, To: sc, Fee: Coin(h.fee(r) % 1000), Type: T, Func: "register", Input: in}}
			c.After = func(h *Hist, o *TxnObs) {
				if o.Outcome == "success" && mut == "" {
					w.Registered = true
					m.Wallets = append(m.Wallets, w)
				}
			}
			return c
		}},
		{Name: "multisig.vote", Tags: []string{"multisig", "C04"}, Build: func(h *Hist, r *mon.Rand) *Call {
			m := h.S.Ms
			if len(m.Wallets) == 0 {
				return nil
			}
			w := m.Wallets[r.Intn(len(m.Wallets))]
			var p *msProposal
			if len(w.Proposals) == 0 || r.Chance(0.25) {
				bal, _ := h.Bal(h.Cur, w.Group.ID)
				amt := []uint64{1, 1e10, 5e11, bal / 1000, bal + 1}[r.Intn(5)]
				if amt == 0 {
					amt = 1
				}
				p = &msProposal{ID: fmt.Sprintf("p%d-%d", len(w.Proposals), r.Intn(1000)), To: h.anyWallet(r).ID, Amount: amt, Voted: map[int]bool{}}
				w.Proposals = append(w.Proposals, p)
			} else {
				p = w.Proposals[r.Intn(len(w.Proposals))]
			}
			i := r.Intn(w.N)
			signer := w.Signers[i]
			to, amt := p.To, p.Amount
			sig := signer.Sign(transferHash(w.Group.ID, to, amt))
			from := signer
			mut := ""
			hostile := h.Vars["hostile"].(float64)
			if r.Chance(hostile) {
				switch r.Intn(6) {
				case 0: // stranger votes with own signature
					from = h.anyClient(r)
					sig = from.Sign(transferHash(w.Group.ID, to, amt))
					mut = "stranger"
				case 1: // signer submits another signer's signature
					j := (i + 1) % w.N
					sig = w.Signers[j].Sign(transferHash(w.Group.ID, to, amt))
					mut = "others-share"
				case 2: // incompatible transfer under the same proposal id
					amt = amt + 1
					sig = signer.Sign(transferHash(w.Group.ID, to, amt))
					mut = "incompatible"
				case 3: // garbage signature
					sig = signer.Sign(transferHash(w.Group.ID, to, amt+7))
					mut = "bad-signature"
				case 4: // drains somebody else's wallet
					victim := h.anyClient(r)
					if victim != w.Group {
						sig = signer.Sign(transferHash(victim.ID, to, amt))
						mut = "foreign-source"
						in := map[string]interface{}{"proposal_id": p.ID + "x", "transfer": map[string]interface{}{"from": victim.ID, "to": to, "amount": amt}, "signature": sig}
						return &Call{Name: "multisig.vote", Mut: mut, Meta: map[string]interface{}{"ms": w, "prop": p, "signer": i}, Spec: world.TxnSpec{From: from, To: sc, Fee: 0, Type: T, Func: "vote", Input: in}}
					}
				case 5: // expired: vote a week later
					h.W.Advance(8 * 24 * 3600 * 1e9)
					mut = "after-expiry-window"
				}
			}
			in := map[string]interface{}{"proposal_id": p.ID, "transfer": map[string]interface{}{"from": w.Group.ID, "to": to, "amount": amt}, "signature": sig}
			return &Call{Name: "multisig.vote", Mut: mut, Meta: map[string]interface{}{"ms": w, "prop": p, "signer": i}, Spec: world.TxnSpec{From: from, To: sc, Fee: 0, Type: T, Func: "vote", Input: in}}
		}},
	}
}

// ---- C21 -------------------------------------------------------------------------------------------------------------------------

// Reference per proposal key (wallet, proposal id): set of distinct signer threshold ids with valid compatible votes before expiry.
type c21ref struct {
	first    int64 // time of the first counted vote (creation of the proposal)
	to       string
	amount   uint64
	voters   map[int]bool
	executed int
}

func monC21(h *Hist, o *TxnObs) {
	if o.Call.Name != "multisig.vote" {
		// any signed transfer outside a vote is unexpected
		if len(o.STr) > 0 && o.Outcome == "success" {
			h.V("C21", "signed-transfer-outside-vote", fmt.Sprintf("%s queued %d signed transfers", o.Call.Name, len(o.STr)), o)
		}
		return
	}
	w := o.Call.Meta["ms"].(*msWallet)
	p := o.Call.Meta["prop"].(*msProposal)
	i := o.Call.Meta["signer"].(int)
	refs, _ := h.Vars["c21"].(map[string]*c21ref)
	if refs == nil {
		refs = map[string]*c21ref{}
		h.Vars["c21"] = refs
	}
	h.C("C21", "votes_judged")
	key := w.Group.ID + "|" + p.ID
	ref := refs[key]
	now := int64(o.Block.CreationDate)
	mut := o.Call.Mut
	// executed transfers observed in this txn (applied = txn not rejected and status success)
	executed := 0
	if o.Outcome == "success" {
		executed = len(o.STr)
	}
	if r := h.Runs["C21"]; r != nil {
		r.Eval(1)
		nv := 0
		if ref != nil {
			nv = len(ref.voters)
		}
		r.Distinct(fmt.Sprintf("t=%d|n=%d|votes=%d|mut=%s|%s|exec=%d", w.T, w.N, nv, mut, o.Outcome, executed))
	}
	if mut == "foreign-source" {
		if executed > 0 {
			h.V("C21", "transfer-from-unregistered-wallet", "a vote executed a transfer out of a wallet that is not the multisig wallet", o)
		}
		return
	}
	// is this a vote that counts by the statement?
	counts := o.Outcome == "success" && (mut == "" || mut == "after-expiry-window")
	if ref != nil && now-ref.first >= multisigsc.ExpirationTime {
		// the proposal expired: it is forgotten; a later valid vote starts a fresh proposal
		delete(refs, key)
		ref = nil
	}
	if counts && strings.HasPrefix(o.Txn.TransactionOutput, "success") {
		if ref == nil {
			ref = &c21ref{first: now, to: p.To, amount: p.Amount, voters: map[int]bool{}}
			refs[key] = ref
		}
		if ref.executed == 0 {
			ref.voters[i] = true
		}
	}
	if executed > 1 {
		h.V("C21", "several-transfers-in-one-vote", fmt.Sprintf("%d signed transfers queued by one vote", executed), o)
	}
	if executed >= 1 {
		h.C("C21", "executions_observed")
		st := o.STr[0]
		if ref == nil || len(ref.voters) < w.T {
			nv := 0
			if ref != nil {
				nv = len(ref.voters)
			}
			h.V("C21", "executed-below-threshold", fmt.Sprintf("transfer executed with %d distinct valid votes, %d required (mutation %q)", nv, w.T, mut), o)
		}
		if ref != nil {
			ref.executed++
			if ref.executed > 1 {
				h.V("C21", "proposal-executed-twice", fmt.Sprintf("proposal %s executed %d times", p.ID, ref.executed), o)
			}
		}
		if err := st.VerifySignature(true); err != nil {
			h.V("C21", "executed-transfer-signature-invalid", fmt.Sprintf("executed transfer does not verify under the wallet key: %v", err), o)
		}
		if st.ClientID != w.Group.ID || st.PublicKey != w.Group.PubKey {
			h.V("C21", "executed-transfer-wrong-wallet", "executed transfer is not from the multisig wallet / key", o)
		}
		d := h.deltas(o)
		if st.ToClientID != st.ClientID && d[w.Group.ID] != -int64(st.Amount) {
			h.V("C21", "executed-amount-mismatch", fmt.Sprintf("wallet delta %d, transfer amount %d", d[w.Group.ID], st.Amount), o)
		}
	} else if counts && ref != nil && ref.executed == 0 && len(ref.voters) >= w.T && strings.HasPrefix(o.Txn.TransactionOutput, "success") {
		// enough distinct valid votes but nothing executed
		h.V("C21", "threshold-reached-not-executed", fmt.Sprintf("%d distinct valid votes (required %d) but no transfer was executed: %s", len(ref.voters), w.T, trunc(o.Txn.TransactionOutput, 100)), o)
	}
}
