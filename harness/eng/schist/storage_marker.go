package schist

import (
	"crypto/sha256"
	"encoding/hex"
	"encoding/json"
	"fmt"

	"verifh/mon"
	"verifh/world"
)

// ---- write markers (commit_connection) ----------------------------------------------------------------------------------------

type stWMFields struct {
	V2                     bool
	Root, Prev, FileMeta   string
	Alloc, Blobber, Client string
	Size, ChainSize, Ts    int64
	ChainHash              string
}

func (m *stWMFields) hashData() string {
	if m.V2 && m.ChainHash != "" {
		return fmt.Sprintf("%s:%s:%s:%s:%s:%s:%s:%d:%d:%d", m.Root, m.Prev, m.FileMeta, m.ChainHash, m.Alloc, m.Blobber, m.Client, m.Size, m.ChainSize, m.Ts)
	}
	return fmt.Sprintf("%s:%s:%s:%s:%s:%s:%d:%d", m.Root, m.Prev, m.FileMeta, m.Alloc, m.Blobber, m.Client, m.Size, m.Ts)
}

func (m *stWMFields) json(signer *world.Wallet) map[string]interface{} {
	out := map[string]interface{}{
		"allocation_root": m.Root, "prev_allocation_root": m.Prev, "file_meta_root": m.FileMeta, "allocation_id": m.Alloc, "size": m.Size,
		"blobber_id": m.Blobber, "timestamp": m.Ts, "client_id": m.Client, "signature": signer.Sign(stHash(m.hashData())),
	}
	if m.V2 {
		out["version"], out["chain_size"], out["chain_hash"] = "v2", m.ChainSize, m.ChainHash
	}
	return out
}

// chain hash exactly as commitBlobberConnection recomputes it
func stChainHash(prevChainHash string, chainData []byte, root string) string {
	hs := sha256.New()
	if prevChainHash != "" {
		b, _ := hex.DecodeString(prevChainHash)
		hs.Write(b)
	}
	for i := 0; i+32 <= len(chainData); i += 32 {
		hs.Write(chainData[i : i+32])
		sum := hs.Sum(nil)
		hs.Reset()
		hs.Write(sum)
	}
	rb, _ := hex.DecodeString(root)
	hs.Write(rb)
	return hex.EncodeToString(hs.Sum(nil))
}

func stCommit(h *Hist, r *mon.Rand) *Call {
	st := h.S.St
	a, v, id, mut := h.stAllocTarget(r, 0.08)
	if id == "" && mut == "" {
		return stNewAlloc(h, r)
	}
	if v == nil { // closed / unknown allocation: a syntactically fine marker of a live blobber
		live := st.live(st.Blobbers)
		if len(live) == 0 {
			return nil
		}
		bp := live[r.Intn(len(live))]
		owner := h.stClient(r)
		if a != nil {
			owner = a.Owner
			if ws := a.WM; len(ws) > 0 {
				for _, p := range live {
					if ws[p.W.ID] != nil {
						bp = p
					}
				}
			}
		}
		m := &stWMFields{Root: stHash(fmt.Sprintf("root-%d", st.next())), Alloc: id, Blobber: bp.W.ID, Client: owner.ID, Size: 1024, Ts: int64(h.W.Now)}
		if a != nil && a.WM[bp.W.ID] != nil {
			m.Prev = a.WM[bp.W.ID].Root
		}
		c := stCall(h, r, "commit_connection", bp.W, map[string]interface{}{"allocation_root": m.Root, "prev_allocation_root": m.Prev, "write_marker": m.json(owner)}, 0)
		c.Mut = mut
		c.Meta["alloc"], c.Meta["blobber"] = id, bp.W.ID
		c.Meta["marker"] = map[string]interface{}{"size": m.Size, "timestamp": m.Ts, "signer": owner.ID, "client": owner.ID, "alloc": id, "blobber": bp.W.ID}
		return c
	}
	if len(v.BlobberAllocs) == 0 {
		return nil
	}
	// prefer blobbers that are alive
	ba := v.BlobberAllocs[r.Intn(len(v.BlobberAllocs))]
	for try := 0; try < 3; try++ {
		if p := st.blobberByID(ba.BlobberID); p != nil && p.Dead == "" {
			break
		}
		ba = v.BlobberAllocs[r.Intn(len(v.BlobberAllocs))]
	}
	bp := st.blobberByID(ba.BlobberID)
	owner := h.W.Wallets[v.Owner]
	if bp == nil || owner == nil {
		return nil
	}
	now := int64(h.W.Now)
	ts := now
	if ts > v.Expiration {
		ts = v.Expiration - int64(r.Intn(100))
	}
	if ts < v.StartTime {
		ts = v.StartTime
	}
	used := int64(0)
	if ba.Stats != nil {
		used = ba.Stats.UsedSize
	}
	free := ba.Size - used
	last := ba.LastWriteMarker
	sh := a.WM[ba.BlobberID]
	m := &stWMFields{Root: stHash(fmt.Sprintf("root:%s:%d", a.ID, st.next())), Prev: ba.AllocationRoot, FileMeta: stHash(fmt.Sprintf("fmr-%d", st.next())),
		Alloc: a.ID, Blobber: ba.BlobberID, Client: v.Owner, Ts: ts}
	m.V2 = (last != nil && last.Version == "v2") || (last == nil && r.Chance(0.35))
	kind := "upload"
	switch x := r.Intn(20); {
	case x < 4 && used > 0:
		kind = "delete"
		m.Size = -[]int64{1, 1024, used / 2, used}[r.Intn(4)]
		if m.Size == 0 {
			m.Size = -1
		}
	case x == 4 && last != nil && !m.V2:
		kind = "rollback" // same root as previous, size 0, same timestamp as the last marker
		m.Root, m.Prev, m.Size, m.Ts = last.Prev, last.Prev, 0, last.Timestamp
	case x == 5:
		kind = "zero"
		m.Size = 0
	default:
		opts := []int64{1, 1024, 64 * stKB, 100 * stKB, stMB, 16 * stMB, free / 8, free / 3, free}
		m.Size = opts[r.Intn(len(opts))]
		if m.Size > free {
			m.Size = free
		}
		if m.Size <= 0 {
			kind = "zero"
			m.Size = 0
		}
	}
	if kind == "delete" && h.Focus == "C12" && ts > v.StartTime && r.Chance(0.5) {
		// the owner signed the delete marker some time ago (any date since the allocation started); the blobber redeems it only now
		kind = "delete-old-dated"
		m.Ts = v.StartTime + int64(r.U64()%uint64(ts-v.StartTime))
	}
	signer, sender := owner, bp.W
	var chainData []byte
	var replay []byte
	if h.stHostile(r, 0.9) {
		switch r.Intn(16) {
		case 0:
			mut, signer = "wrong-signer", h.stStranger(r)
			if signer == owner {
				signer = h.W.Owner
			}
		case 1:
			mut, sender = "stranger-caller", h.stStranger(r)
		case 2:
			if sh != nil && sh.LastRaw != nil {
				mut, replay = "replay", sh.LastRaw
			}
		case 3:
			mut, m.Ts = "stale-ts", v.StartTime-int64(1+r.Intn(1000))
		case 4:
			mut, m.Ts = "future-ts", v.Expiration+int64(1+r.Intn(100000))
		case 5:
			mut, m.Ts = "ts-at-expiry", v.Expiration
			mut = "" // allowed by the contract: only [start, expiration] is checked
		case 6:
			oc := h.stClient(r)
			if oc.ID != v.Owner {
				mut, m.Client, signer = "other-client", oc.ID, oc
			}
		case 7:
			for _, b := range st.open() {
				if b != a {
					mut, m.Alloc = "other-alloc", b.ID
				}
			}
		case 8:
			for _, p := range st.live(st.Blobbers) {
				if p.W.ID != ba.BlobberID {
					mut, m.Blobber = "other-blobber", p.W.ID
				}
			}
		case 9:
			mut, m.Size = "neg-beyond-used", -(used + []int64{1, 1024, stGB}[r.Intn(3)])
		case 10:
			mut, m.Size = "size-huge", []int64{free + 1, ba.Size + 1, 1 << 60}[r.Intn(3)]
		case 11:
			mut, m.Prev = "bad-prev-root", stHash("some-other-root")
			if m.V2 {
				mut = "v2-prev-root-ignored"
			}
		case 12:
			mut, m.Ts = "ts-zero", 0
		case 13:
			if last != nil {
				mut, m.V2 = "version-switch", !m.V2
			}
		case 14:
			mut, m.Root = "root-not-hex", "zz-"+stHash(m.Root)[:20]
		case 15:
			for _, p := range st.live(st.Blobbers) { // a blobber outside of the allocation commits
				if v.ba(p.W.ID) == nil {
					mut, sender, m.Blobber = "non-member-blobber", p.W, p.W.ID
					break
				}
			}
		}
	}
	if m.V2 {
		prevCH, prevCS := "", int64(0)
		if last != nil && last.Version == "v2" {
			prevCH, prevCS = last.ChainHash, last.ChainSize
		}
		m.ChainSize = prevCS + m.Size
		for i := r.Intn(3); i > 0; i-- {
			hb, _ := hex.DecodeString(stHash(fmt.Sprintf("cd-%d", st.next())))
			chainData = append(chainData, hb...)
		}
		m.ChainHash = stChainHash(prevCH, chainData, m.Root)
		if mut == "" && h.stHostile(r, 0.2) {
			switch r.Intn(3) {
			case 0:
				mut, m.ChainHash = "bad-chain-hash", stHash("wrong-chain")
			case 1:
				mut, chainData = "chain-data-odd-length", append(chainData, 1, 2, 3)
			case 2:
				mut = "chain-data-too-long"
				chainData = make([]byte, 32*33)
			}
		}
	}
	// a delete marker worth more (by the allocation's terms, at the marker's date) than the blobber has outstanding
	aboveOutstanding := h.Focus == "C12" && m.Size < 0 && kind != "rollback" && m.Alloc == a.ID && m.Blobber == ba.BlobberID && dmcAbove(h.stConf(), v, ba, m.Size, m.Ts)
	in := map[string]interface{}{"allocation_root": m.Root, "prev_allocation_root": m.Prev, "write_marker": m.json(signer)}
	if len(chainData) > 0 {
		in["chain_data"] = chainData // []byte -> base64
	}
	if mut == "bad-prev-root" || mut == "v2-prev-root-ignored" {
		if r.Chance(0.5) {
			in["prev_allocation_root"] = ba.AllocationRoot // marker and connection disagree
			mut = "marker-connection-mismatch"
		}
	}
	c := stCall(h, r, "commit_connection", sender, in, 0)
	if replay != nil {
		c.Spec.RawInput = replay
	}
	c.Mut = mut
	c.Meta["alloc"], c.Meta["blobber"], c.Meta["kind"] = a.ID, ba.BlobberID, kind
	c.Meta["marker"] = map[string]interface{}{"size": m.Size, "timestamp": m.Ts, "signer": signer.ID, "client": m.Client, "alloc": m.Alloc, "blobber": m.Blobber,
		"root": m.Root, "prev": m.Prev, "v2": m.V2, "chain_size": m.ChainSize, "used_before": used, "blobber_alloc_size": ba.Size, "replay": replay != nil}
	raw := stFreeze(c)
	blobberID := ba.BlobberID
	delta := m.Size
	if kind == "rollback" && last != nil {
		delta = -last.Size
	}
	c.After = func(h *Hist, o *TxnObs) {
		if o.Outcome != "success" || replay != nil || m.Alloc != a.ID || m.Blobber != blobberID {
			return
		}
		if aboveOutstanding {
			h.C("C12", "delete_marker_above_outstanding_value")
			h.C("C12", "dmc:random-op|"+kind+"|above-outstanding")
		}
		w := a.WM[blobberID]
		if w == nil {
			w = &stWM{}
			a.WM[blobberID] = w
		}
		w.Root, w.Prev, w.Ts, w.Size, w.V2, w.ChainHash, w.ChainSize, w.LastRaw = m.Root, m.Prev, m.Ts, m.Size, m.V2, m.ChainHash, m.ChainSize, raw
		w.Used += delta
		w.Count++
	}
	return c
}

// ---- write markers with an explicit size change and date (directed scenarios) ---------------------------------------------------
//
// The owner signs a marker at one time, the blobber redeems it at another: nothing but [allocation start, expiration] bounds the
// marker's timestamp, and it is the marker's timestamp (not the transaction's) that prices the tokens moved between write pool and
// challenge pool. dmcCommitAt builds a valid marker of the allocation's owner for one blobber with a given size change (negative =
// delete) and a given date; dmcMarkerValue is what such a marker is worth by the allocation's terms.

const dmcChunk = 64 * stKB // smallest unit the contract prices (smaller size changes count as one unit)

// dmcMarkerValue: |size| (at least one unit) in GB x the blobber's write price of the allocation x rest of the allocation's duration
// at the marker's date, in time units
func dmcMarkerValue(conf *stConfView, v *stAllocView, ba *stBAView, size, ts int64) float64 {
	if size < 0 {
		size = -size
	}
	if size == 0 || conf.TimeUnit <= 0 || ts > v.Expiration {
		return 0
	}
	if size < dmcChunk {
		size = dmcChunk
	}
	rest := float64(v.Expiration-ts) * 1e9 / float64(conf.TimeUnit)
	return float64(size) / stGB * float64(ba.Terms.WritePrice) * rest
}

// dmcAbove: is a delete marker (size < 0) worth more than what the blobber has outstanding in the given view of the allocation
func dmcAbove(conf *stConfView, v *stAllocView, ba *stBAView, size, ts int64) bool {
	return size < 0 && uint64(dmcMarkerValue(conf, v, ba, size, ts)) > ba.CPIntegral
}

func dmcCommitAt(h *Hist, r *mon.Rand, a *stAlloc, v *stAllocView, ba *stBAView, size, ts int64, kind, scenario string) *Call {
	st := h.S.St
	owner := h.W.Wallets[v.Owner]
	bp := st.blobberByID(ba.BlobberID)
	if owner == nil || bp == nil {
		return nil
	}
	if ts > v.Expiration {
		ts = v.Expiration
	}
	if ts < v.StartTime {
		ts = v.StartTime
	}
	used := int64(0)
	if ba.Stats != nil {
		used = ba.Stats.UsedSize
	}
	if size > ba.Size-used {
		size = ba.Size - used
	}
	if size < -used {
		size = -used
	}
	if size == 0 {
		return nil
	}
	last := ba.LastWriteMarker
	m := &stWMFields{Root: stHash(fmt.Sprintf("root:%s:%d", a.ID, st.next())), Prev: ba.AllocationRoot, FileMeta: stHash(fmt.Sprintf("fmr-%d", st.next())),
		Alloc: a.ID, Blobber: ba.BlobberID, Client: v.Owner, Ts: ts, Size: size}
	m.V2 = (last != nil && last.Version == "v2") || (last == nil && r.Chance(0.3))
	if m.V2 {
		prevCH, prevCS := "", int64(0)
		if last != nil {
			prevCH, prevCS = last.ChainHash, last.ChainSize
		}
		m.ChainSize = prevCS + size
		m.ChainHash = stChainHash(prevCH, nil, m.Root)
	}
	in := map[string]interface{}{"allocation_root": m.Root, "prev_allocation_root": m.Prev, "write_marker": m.json(owner)}
	c := stCall(h, r, "commit_connection", bp.W, in, 0)
	c.Meta["alloc"], c.Meta["blobber"], c.Meta["kind"], c.Meta["scenario"] = a.ID, ba.BlobberID, kind, scenario
	c.Meta["marker"] = map[string]interface{}{"size": m.Size, "timestamp": m.Ts, "signer": owner.ID, "client": m.Client, "alloc": m.Alloc, "blobber": m.Blobber,
		"root": m.Root, "prev": m.Prev, "v2": m.V2, "chain_size": m.ChainSize, "used_before": used, "blobber_alloc_size": ba.Size, "replay": false}
	raw := stFreeze(c)
	c.After = func(h *Hist, o *TxnObs) {
		if o.Outcome != "success" {
			return
		}
		w := a.WM[m.Blobber]
		if w == nil {
			w = &stWM{}
			a.WM[m.Blobber] = w
		}
		w.Root, w.Prev, w.Ts, w.Size, w.V2, w.ChainHash, w.ChainSize, w.LastRaw = m.Root, m.Prev, m.Ts, m.Size, m.V2, m.ChainHash, m.ChainSize, raw
		w.Used += size
		w.Count++
	}
	return c
}

// ---- read markers (read_redeem) and read pools ---------------------------------------------------------------------------------

func stReadPoolLock(h *Hist, r *mon.Rand, who *world.Wallet) *Call {
	st := h.S.St
	from := who
	if from == nil {
		from = h.stClient(r)
	}
	target := ""
	owner := from
	if who == nil && r.Chance(0.2) {
		owner = h.stClient(r)
		target = owner.ID
	}
	vals := []uint64{1, 1e8, 1e9, 1e10, 1e11, 1 + r.U64()%uint64(1e10)}
	val := vals[r.Intn(len(vals))]
	mut := ""
	if h.stHostile(r, 0.5) {
		bal, _ := h.Bal(h.Cur, from.ID)
		switch r.Intn(4) {
		case 0:
			mut, val = "value-0", 0
		case 1:
			mut, val = "value-above-balance", bal+1
		case 2:
			mut, from = "unfunded-sender", h.S.Extra[r.Intn(len(h.S.Extra))]
		case 3:
			mut, target = "target-not-a-client", stHash("nobody")
		}
	}
	c := stCall(h, r, "read_pool_lock", from, map[string]string{"target_id": target}, val)
	c.Mut = mut
	c.Meta["pool_owner"] = owner.ID
	c.After = func(h *Hist, o *TxnObs) {
		if o.Outcome == "success" && mut != "target-not-a-client" {
			st.ReadPools[owner.ID] = owner
		}
	}
	return c
}

func stReadPoolUnlock(h *Hist, r *mon.Rand) *Call {
	st := h.S.St
	var owners []*world.Wallet
	for _, cl := range h.W.Clients {
		if st.ReadPools[cl.ID] != nil {
			owners = append(owners, cl)
		}
	}
	mut := ""
	var from *world.Wallet
	if len(owners) == 0 || h.stHostile(r, 0.3) {
		from = h.stStranger(r)
		if st.ReadPools[from.ID] == nil {
			mut = "no-read-pool"
		}
	} else {
		from = owners[r.Intn(len(owners))]
	}
	c := stCall(h, r, "read_pool_unlock", from, map[string]string{}, uint64(r.Intn(2)))
	c.Mut = mut
	c.Meta["pool_owner"] = from.ID
	return c
}

func stRMHashData(alloc, blobber, client, pub, owner string, counter, ts int64) string {
	return fmt.Sprintf("%v:%v:%v:%v:%v:%v:%v", alloc, blobber, client, pub, owner, counter, ts)
}

// rmSpec is one read marker exactly as it goes on the wire, plus the generator's bookkeeping around it.
type rmSpec struct {
	Alloc, Blobber, Owner string        // ids named by the marker
	ClientID, Pub         string        // claimed client id and public key
	Signer                *world.Wallet // whose secret key signs
	Reader                *world.Wallet // the wallet the marker is about (the victim of a forgery)
	Sender                *world.Wallet
	Counter, Ts           int64
	LastCtr               int64 // last counter the generator saw accepted for (blobber, client id)
	Price                 uint64
	Mut                   string
	Replay                []byte // byte-identical resubmission of an earlier input
}

// rmRaws remembers every accepted read_redeem input per (allocation, blobber, client id), oldest first (replays of older markers).
func rmRaws(h *Hist) map[string][][]byte {
	m, _ := h.Vars["rmRaws"].(map[string][][]byte)
	if m == nil {
		m = map[string][][]byte{}
		h.Vars["rmRaws"] = m
	}
	return m
}

// rmAttacker is a key pair other than the reader's: the redeeming blobber itself, another client, or an unfunded stranger.
func rmAttacker(h *Hist, r *mon.Rand, reader *world.Wallet, blobberID string) *world.Wallet {
	var c []*world.Wallet
	if bp := h.S.St.blobberByID(blobberID); bp != nil {
		c = append(c, bp.W, bp.W)
	}
	c = append(c, h.stClient(r), h.stClient(r), h.S.Extra[r.Intn(len(h.S.Extra))], h.W.Owner)
	for i := 0; i < 8; i++ {
		if w := c[r.Intn(len(c))]; w != reader {
			return w
		}
	}
	return h.W.Owner
}

// rmBuildCall signs and packs the marker of s; a may be nil (unknown / closed allocation).
func rmBuildCall(h *Hist, r *mon.Rand, a *stAlloc, s *rmSpec) *Call {
	st := h.S.St
	sig := s.Signer.Sign(stHash(stRMHashData(s.Alloc, s.Blobber, s.ClientID, s.Pub, s.Owner, s.Counter, s.Ts)))
	rm := map[string]interface{}{"client_id": s.ClientID, "client_public_key": s.Pub, "blobber_id": s.Blobber, "allocation_id": s.Alloc, "owner_id": s.Owner,
		"timestamp": s.Ts, "counter": s.Counter, "signature": sig}
	c := stCall(h, r, "read_redeem", s.Sender, map[string]interface{}{"read_marker": rm}, 0)
	if s.Replay != nil {
		c.Spec.RawInput = s.Replay
	}
	c.Mut = s.Mut
	c.Meta["alloc"], c.Meta["blobber"], c.Meta["reader"] = s.Alloc, s.Blobber, s.Reader.ID
	c.Meta["marker"] = map[string]interface{}{"counter": s.Counter, "prev_counter": s.LastCtr, "timestamp": s.Ts, "signer": s.Signer.ID, "client": s.ClientID, "alloc": s.Alloc,
		"blobber": s.Blobber, "read_price": s.Price, "replay": s.Replay != nil}
	raw := stFreeze(c)
	mkey := s.Blobber + "|" + s.ClientID
	clientID, counter, replay, allocID := s.ClientID, s.Counter, s.Replay != nil, s.Alloc
	c.After = func(h *Hist, o *TxnObs) {
		if o.Outcome != "success" || a == nil || replay || a.ID != allocID {
			return
		}
		if counter > a.RC[mkey] {
			a.RC[mkey] = counter
		}
		a.RMRaw[mkey] = raw
		rr := rmRaws(h)
		if k := allocID + "|" + mkey; len(rr[k]) < 8 {
			rr[k] = append(rr[k], raw)
		}
		if w := h.W.Wallets[clientID]; w != nil {
			a.Readers[clientID] = w
			st.ReadPools[clientID] = w // the contract creates an (empty) read pool on first redeem
		}
	}
	return c
}

func stReadRedeem(h *Hist, r *mon.Rand) *Call {
	st := h.S.St
	a, v, id, mut := h.stAllocTarget(r, 0.08)
	if id == "" && mut == "" {
		return stNewAlloc(h, r)
	}
	reader := h.stClient(r)
	if a != nil && r.Chance(0.5) {
		reader = a.Owner
	}
	now := int64(h.W.Now)
	var blobberID, ownerID string
	var sender *world.Wallet
	ts := now
	var price uint64
	if v != nil && len(v.BlobberAllocs) > 0 {
		ba := v.BlobberAllocs[r.Intn(len(v.BlobberAllocs))]
		blobberID, ownerID, price = ba.BlobberID, v.Owner, ba.Terms.ReadPrice
		if ts > v.Expiration {
			ts = v.Expiration
		}
		if ts < v.StartTime {
			ts = v.StartTime
		}
	} else {
		live := st.live(st.Blobbers)
		if len(live) == 0 {
			return nil
		}
		blobberID = live[r.Intn(len(live))].W.ID
		if a != nil {
			ownerID = a.Owner.ID
			for _, p := range live { // deterministic choice among the blobbers that stored data of the allocation
				if a.WM[p.W.ID] != nil {
					blobberID = p.W.ID
				}
			}
		}
	}
	if bp := st.blobberByID(blobberID); bp != nil {
		sender = bp.W
	} else {
		sender = h.stClient(r)
	}
	key := blobberID + "|" + reader.ID
	lastCtr := int64(0)
	if a != nil {
		lastCtr = a.RC[key]
	}
	n := int64([]int{1, 1, 5, 40, 400, 5000}[r.Intn(6)])
	counter := lastCtr + n
	// a paid read needs a funded read pool of the reader
	if mut == "" && price > 0 && r.Chance(0.8) {
		need := uint64(float64(price) * (float64(n*64*stKB) / stGB))
		var rp struct {
			Balance uint64 `json:"balance"`
		}
		if !h.stJSON(stSC+":readpool:"+reader.ID, &rp) || rp.Balance < need {
			c := stReadPoolLock(h, r, reader)
			if c.Mut == "" && uint64(c.Spec.Value) < need {
				c.Spec.Value = Coin(need * 3)
			}
			return c
		}
	}
	signer := reader
	clientID, pub := reader.ID, reader.PubKey
	var replay []byte
	if h.stHostile(r, 0.9) {
		switch r.Intn(19) {
		case 0:
			mut, signer = "wrong-signer", h.stStranger(r)
			if signer == reader {
				signer = h.W.Owner
			}
		case 1:
			if lastCtr > 1 {
				mut, counter = "counter-backwards", lastCtr-1-int64(r.Intn(int(lastCtr-1)))
			}
		case 2:
			mut, counter = "counter-not-positive", []int64{0, -1, -1 << 40}[r.Intn(3)]
		case 3:
			if a != nil && a.RMRaw[key] != nil {
				mut, replay = "replay", a.RMRaw[key]
			}
		case 4:
			if v != nil {
				mut, ts = "stale-ts", v.StartTime-int64(1+r.Intn(5000))
			}
		case 5:
			if v != nil {
				mut, ts = "future-ts", v.Expiration+int64(1+r.Intn(5000))
			}
		case 6:
			for _, p := range st.live(st.Blobbers) {
				if v != nil && v.ba(p.W.ID) == nil {
					mut, blobberID = "blobber-not-in-alloc", p.W.ID
					break
				}
			}
		case 7:
			mut, clientID = "client-id-mismatch", h.W.Owner.ID
		case 8:
			mut, sender = "stranger-caller", h.stStranger(r) // the contract does not look at the sender at all
		case 9:
			if lastCtr > 0 {
				mut, counter = "same-counter", lastCtr
			}
		case 10:
			mut, counter = "counter-huge", lastCtr+(1<<40)
		case 11:
			mut, ts = "ts-zero", 0
		case 12:
			mut, pub = "bad-public-key", "not-a-key"
		case 13, 14:
			// another key pair's public key under the reader's client id, signed by that other key (a first marker of the
			// triple as well as a later one: lastCtr tells which)
			at := rmAttacker(h, r, reader, blobberID)
			mut, pub, signer = "foreign-key-foreign-sig", at.PubKey, at
		case 15:
			at := rmAttacker(h, r, reader, blobberID)
			mut, pub = "foreign-key-victim-sig", at.PubKey
		case 16:
			if lastCtr > 0 {
				at := rmAttacker(h, r, reader, blobberID)
				mut, pub, signer, counter = "foreign-key-same-counter", at.PubKey, at, lastCtr
			}
		case 17:
			if a != nil {
				if raws := rmRaws(h)[a.ID+"|"+key]; len(raws) > 1 {
					mut, replay = "replay-older", raws[r.Intn(len(raws)-1)]
				}
			}
		case 18:
			for _, b := range rmShuffledAllocs(r, st.open()) {
				if b != a {
					mut, id = "other-alloc", b.ID // marker of the same reader and blobber naming another allocation (its own counter)
					break
				}
			}
		}
	}
	return rmBuildCall(h, r, a, &rmSpec{Alloc: id, Blobber: blobberID, Owner: ownerID, ClientID: clientID, Pub: pub, Signer: signer, Reader: reader, Sender: sender,
		Counter: counter, Ts: ts, LastCtr: lastCtr, Price: price, Mut: mut, Replay: replay})
}

func rmShuffledAllocs(r *mon.Rand, in []*stAlloc) []*stAlloc {
	out := append([]*stAlloc{}, in...)
	r.Shuffle(len(out), func(i, j int) { out[i], out[j] = out[j], out[i] })
	return out
}

// ---- challenges ---------------------------------------------------------------------------------------------------------------

func (h *Hist) stSyncChallenges(s map[string][]byte) {
	st := h.S.St
	known := map[string]*stChal{}
	for _, c := range st.Chals {
		known[c.ID] = c
	}
	present := map[string]bool{}
	for _, n := range h.NodesOfType(s, "*storagesc.StorageChallenge") {
		var v struct {
			ID         string   `json:"id"`
			Validators []string `json:"validator_ids"`
			Alloc      string   `json:"allocation_id"`
			Blobber    string   `json:"blobber_id"`
			Round      int64    `json:"round_created_at"`
			Created    int64    `json:"created"`
		}
		b, err := json.Marshal(n.Val)
		if err != nil || json.Unmarshal(b, &v) != nil || v.ID == "" {
			continue
		}
		present[v.ID] = true
		if known[v.ID] == nil {
			st.Chals = append(st.Chals, &stChal{ID: v.ID, Blobber: v.Blobber, Alloc: v.Alloc, Validators: v.Validators, Round: v.Round, Created: v.Created})
		}
	}
	for _, c := range st.Chals {
		if !present[c.ID] {
			c.Done = true // answered, expired or removed together with its allocation
		}
	}
	if len(st.Chals) > 200 {
		st.Chals = st.Chals[len(st.Chals)-200:]
	}
}

func stValidatorHC(h *Hist, r *mon.Rand, p *stProv) *Call {
	c := stCall(h, r, "validator_health_check", p.W, map[string]interface{}{}, 0)
	c.Meta["validator"], c.Meta["provider_type"], c.Meta["provider_id"] = p.W.ID, "validator", p.W.ID
	return c
}

func stGenChallenge(h *Hist, r *mon.Rand) *Call {
	st := h.S.St
	now := int64(h.W.Now)
	// validators must have reported within the last hour
	if r.Chance(0.9) || st.NoHostile {
		need := h.stConf().ValidatorsPerChallenge + r.Intn(2)
		var stale []*stProv
		for _, p := range stShuffled(r, st.live(st.Validators)) {
			n := h.stNode(p.W.ID)
			if n == nil || len(p.Stakers) == 0 {
				continue
			}
			if n.LastHealthCheck <= now-3000 {
				stale = append(stale, p)
			} else {
				need--
			}
		}
		for _, p := range stale {
			if need <= 0 {
				break
			}
			h.stInner(stValidatorHC(h, r, p))
			need--
		}
	}
	rd := h.stExecRound()
	from := h.W.Miners[int(rd)%len(h.W.Miners)] // the generator of the block
	mut := ""
	in := rd
	if h.stHostile(r, 0.5) {
		switch r.Intn(3) {
		case 0:
			mut, in = "wrong-round", rd+int64([]int{-1, 1, 1000}[r.Intn(3)])
		case 1:
			mut, from = "not-the-generator", h.stClient(r) // a built-in transaction sent by an ordinary client
		case 2:
			mut, from = "other-miner", h.W.Miners[int(rd+1)%len(h.W.Miners)]
		}
	}
	c := stCall(h, r, "generate_challenge", from, map[string]int64{"round": in}, 0)
	c.Spec.Fee = 0
	c.Mut = mut
	c.Meta["round"] = rd
	c.After = func(h *Hist, o *TxnObs) {
		if o.Outcome == "success" {
			before := len(st.Chals)
			h.stSyncChallenges(o.Post)
			if len(st.Chals) > before {
				nc := st.Chals[len(st.Chals)-1]
				o.Call.Meta["challenge"], o.Call.Meta["alloc"], o.Call.Meta["blobber"] = nc.ID, nc.Alloc, nc.Blobber
			}
		}
	}
	return c
}

func stTicket(chalID, blobberID string, val *world.Wallet, result bool, ts int64, signer *world.Wallet) map[string]interface{} {
	hd := fmt.Sprintf("%v:%v:%v:%v:%v:%v", chalID, blobberID, val.ID, val.PubKey, result, ts)
	return map[string]interface{}{"challenge_id": chalID, "blobber_id": blobberID, "validator_id": val.ID, "validator_key": val.PubKey, "success": result,
		"message": "ok", "message_code": "ok", "timestamp": ts, "signature": signer.Sign(stHash(hd))}
}

func stChallengeResponse(h *Hist, r *mon.Rand) *Call {
	st := h.S.St
	h.stSyncChallenges(h.Cur)
	var open, late, done []*stChal
	now := int64(h.W.Now)
	for _, c := range st.Chals {
		switch v := h.stGetAlloc(c.Alloc); {
		case c.Done:
			done = append(done, c)
		case v == nil || v.Expiration < now:
			late = append(late, c) // the allocation expired or is gone: the response can only fail
		default:
			open = append(open, c)
		}
	}
	mut := ""
	var ch *stChal
	switch {
	case len(done) > 0 && h.stHostile(r, 0.2):
		ch, mut = done[r.Intn(len(done))], "challenge-gone"
	case len(late) > 0 && (h.stHostile(r, 0.12) || (len(open) == 0 && r.Chance(0.1))):
		ch, mut = late[r.Intn(len(late))], "alloc-expired"
	case len(open) > 0:
		ch = open[0] // oldest first: answering a younger one first turns the older ones into "old challenge response"
		if r.Chance(0.3) {
			ch = open[r.Intn(len(open))]
		}
	default:
		if r.Chance(0.6) {
			return stGenChallenge(h, r)
		}
		return stCommit(h, r)
	}
	bp := st.blobberByID(ch.Blobber)
	if bp == nil {
		return nil
	}
	sender := bp.W
	ts := int64(h.W.Now)
	var vals []*world.Wallet
	for _, id := range ch.Validators {
		if p := st.validatorByID(id); p != nil {
			vals = append(vals, p.W)
		}
	}
	if len(vals) == 0 {
		return nil
	}
	results := make([]bool, len(vals))
	kind := "pass-all"
	switch x := r.Intn(10); {
	case x < 5:
		for i := range results {
			results[i] = true
		}
	case x < 7:
		kind = "pass-majority"
		for i := range results {
			results[i] = i != 0
		}
	case x == 7:
		kind = "fail-minority"
		results[0] = true
	default:
		kind = "fail-all"
	}
	var tickets []interface{}
	for i, vw := range vals {
		tickets = append(tickets, stTicket(ch.ID, ch.Blobber, vw, results[i], ts, vw))
	}
	chalID := ch.ID
	if mut == "" && h.stHostile(r, 0.9) {
		switch r.Intn(10) {
		case 0:
			mut, tickets = "no-tickets", nil
		case 1:
			mut = "duplicate-ticket"
			tickets = append(tickets, tickets[0])
		case 2:
			mut = "foreign-validator"
			for _, p := range st.registered(st.Validators) {
				sel := false
				for _, id := range ch.Validators {
					sel = sel || id == p.W.ID
				}
				if !sel {
					tickets[0] = stTicket(ch.ID, ch.Blobber, p.W, true, ts, p.W)
				}
			}
		case 3:
			mut = "forged-ticket-signature"
			tickets[len(tickets)-1] = stTicket(ch.ID, ch.Blobber, vals[len(vals)-1], true, ts, h.stClient(r))
		case 4:
			mut = "ticket-other-challenge"
			tickets[0] = stTicket(stHash("other-challenge"), ch.Blobber, vals[0], true, ts, vals[0])
		case 5:
			mut = "ticket-other-blobber"
			tickets[0] = stTicket(ch.ID, h.W.Owner.ID, vals[0], true, ts, vals[0])
		case 6:
			mut, sender = "stranger-caller", h.stStranger(r)
			for _, p := range st.live(st.Blobbers) {
				if p.W.ID != ch.Blobber && r.Chance(0.5) {
					sender, mut = p.W, "other-blobber-caller"
				}
			}
		case 7:
			mut, chalID = "unknown-challenge", stUnknownID(r)
		case 8:
			mut, tickets = "single-ticket", tickets[:1]
		case 9:
			mut = "validator-key-mismatch"
			t := stTicket(ch.ID, ch.Blobber, vals[0], true, ts, vals[0])
			t["validator_key"] = h.W.Owner.PubKey
			tickets[0] = t
		}
	}
	in := map[string]interface{}{"challenge_id": chalID, "validation_tickets": tickets}
	c := stCall(h, r, "challenge_response", sender, in, 0)
	c.Mut = mut
	c.Meta["alloc"], c.Meta["blobber"], c.Meta["challenge"], c.Meta["kind"] = ch.Alloc, ch.Blobber, ch.ID, kind
	c.Meta["validators"] = ch.Validators
	c.After = func(h *Hist, o *TxnObs) {
		if o.Outcome == "success" && chalID == ch.ID {
			ch.Done = true
		}
	}
	return c
}

func stBlockRewards(h *Hist, r *mon.Rand) *Call {
	rd := h.stExecRound()
	from := h.W.Miners[int(rd)%len(h.W.Miners)]
	mut := ""
	if rd%h.stConf().trigger() != 0 {
		mut = "off-period"
	}
	if h.stHostile(r, 0.3) {
		from = h.stClient(r)
		if mut == "" {
			mut = "not-the-generator"
		}
	}
	c := stCall(h, r, "blobber_block_rewards", from, map[string]int64{"round": rd}, 0)
	c.Spec.Fee = 0
	c.Mut = mut
	c.Meta["round"] = rd
	return c
}

func stMarkerOps() []OpDef {
	commit := OpDef{Name: "storage.commit_connection", Tags: []string{"storage", "marker", "C12", "C13"}, Build: stCommit}
	read := OpDef{Name: "storage.read_redeem", Tags: []string{"storage", "read", "marker", "C15"}, Build: stReadRedeem}
	gen := OpDef{Name: "storage.generate_challenge", Tags: []string{"storage", "challenge", "C12"}, Build: stGenChallenge}
	resp := OpDef{Name: "storage.challenge_response", Tags: []string{"storage", "challenge", "C12", "C14"}, Build: stChallengeResponse}
	return []OpDef{
		commit, commit, commit, read, read, gen, gen, gen, resp, resp, resp, resp,
		{Name: "storage.read_pool_lock", Tags: []string{"storage", "read", "C15"}, Build: func(h *Hist, r *mon.Rand) *Call { return stReadPoolLock(h, r, nil) }},
		{Name: "storage.read_pool_unlock", Tags: []string{"storage", "read", "C15"}, Build: stReadPoolUnlock},
		{Name: "storage.blobber_block_rewards", Tags: []string{"storage"}, Build: func(h *Hist, r *mon.Rand) *Call {
			if r.Chance(0.8) {
				return stGenChallenge(h, r)
			}
			return stBlockRewards(h, r)
		}},
	}
}

// ---- directed scenario (C15): genuine markers interleaved with forgeries on the SAME (blobber, client, allocation) ---------------------------

func init() {
	RegisterScenario(Scenario{Prop: "C15", Name: "read-marker-forgery-after-genuine", Every: 1, Fn: rmScenarioC15})
}

// rmScenarioC15: a reader redeems genuine markers on one (blobber, allocation); in between, markers for the same triple arrive that
// carry another key pair's public key (signed by that key / by the victim), replays of the last and of older inputs, older and equal
// counters, and markers naming another blobber / another allocation. Every step is an ordinary read_redeem transaction.
func rmScenarioC15(h *Hist, mons []Monitor) {
	st := h.S.St
	r := h.R.Fork("rm-scenario-c15")
	st.NoHostile = true
	defer func() { st.NoHostile = false }()

	type target struct {
		a  *stAlloc
		v  *stAllocView
		ba *stBAView
	}
	pick := func() *target {
		var best *target
		for _, a := range st.open() {
			v := h.stGetAlloc(a.ID)
			if v == nil || v.Expiration < int64(h.W.Now)+600 {
				continue
			}
			for _, ba := range v.BlobberAllocs {
				if bp := st.blobberByID(ba.BlobberID); bp == nil || bp.Dead != "" {
					continue
				}
				if best == nil || ba.Terms.ReadPrice > best.ba.Terms.ReadPrice {
					best = &target{a, v, ba}
				}
			}
		}
		return best
	}
	t := pick()
	for i := 0; i < 3 && (t == nil || t.ba.Terms.ReadPrice == 0); i++ {
		if c := stNewAlloc(h, r); c != nil {
			h.stInner(c)
		}
		t = pick()
	}
	if t == nil {
		return
	}
	if len(st.open()) < 2 { // a second allocation for the markers that name another allocation
		if c := stNewAlloc(h, r); c != nil {
			h.stInner(c)
		}
	}
	a, v := t.a, t.v
	reader := a.Owner
	if r.Chance(0.5) {
		reader = h.stClient(r)
	}
	// read pool of the reader: enough for every genuine marker below
	lock := stReadPoolLock(h, r, reader)
	lock.Spec.Value = Coin(uint64(4e10) + r.U64()%uint64(1e9))
	h.stInner(lock)
	h.stNextBlock(r, 10)

	run := h.Runs["C15"]
	submit := func(blobberID, allocID, mut string, pub string, signer *world.Wallet, counter int64, replay []byte) *TxnObs {
		bp := st.blobberByID(blobberID)
		if bp == nil {
			return nil
		}
		tv := v
		target := a
		if allocID != a.ID {
			tv, target = h.stGetAlloc(allocID), nil
			for _, b := range st.Allocs {
				if b.ID == allocID {
					target = b
				}
			}
		}
		ts := int64(h.W.Now)
		owner, price := "", uint64(0)
		if tv != nil {
			owner = tv.Owner
			if ts > tv.Expiration {
				ts = tv.Expiration
			}
			if b := tv.ba(blobberID); b != nil {
				price = b.Terms.ReadPrice
			}
		}
		last := int64(0)
		if target != nil {
			last = target.RC[blobberID+"|"+reader.ID]
		}
		c := rmBuildCall(h, r, target, &rmSpec{Alloc: allocID, Blobber: blobberID, Owner: owner, ClientID: reader.ID, Pub: pub, Signer: signer, Reader: reader,
			Sender: bp.W, Counter: counter, Ts: ts, LastCtr: last, Price: price, Mut: mut, Replay: replay})
		c.Meta["scenario"] = "rm-c15"
		o := h.stInner(c)
		if run != nil {
			run.Count("scenario_read_redeem:"+mut+"|"+o.Outcome, 1)
		}
		if r.Chance(0.4) {
			h.stNextBlock(r, 5)
		}
		return o
	}
	step := func() int64 { return int64([]int{1, 3, 40, 400, 2000}[r.Intn(5)]) }
	blobber := t.ba.BlobberID
	key := blobber + "|" + reader.ID
	last := func() int64 { return a.RC[key] }
	genuine := func() { submit(blobber, a.ID, "", reader.PubKey, reader, last()+step(), nil) }

	// a forgery before any genuine marker exists, then the first genuine one
	at0 := rmAttacker(h, r, reader, blobber)
	submit(blobber, a.ID, "foreign-key-foreign-sig", at0.PubKey, at0, step(), nil)
	genuine()
	if last() == 0 {
		return // the genuine marker was not accepted (blobber unusable, allocation gone): nothing to build on
	}
	var firstRaw []byte
	if raws := rmRaws(h)[a.ID+"|"+key]; len(raws) > 0 {
		firstRaw = raws[0]
	}
	hostile := []func(){
		func() { // the redeeming blobber's own key pair under the reader's client id
			at := st.blobberByID(blobber).W
			submit(blobber, a.ID, "foreign-key-foreign-sig", at.PubKey, at, last()+step(), nil)
		},
		func() {
			at := rmAttacker(h, r, reader, blobber)
			submit(blobber, a.ID, "foreign-key-foreign-sig", at.PubKey, at, last()+step(), nil)
		},
		func() {
			at := rmAttacker(h, r, reader, blobber)
			submit(blobber, a.ID, "foreign-key-victim-sig", at.PubKey, reader, last()+step(), nil)
		},
		func() {
			at := rmAttacker(h, r, reader, blobber)
			submit(blobber, a.ID, "foreign-key-same-counter", at.PubKey, at, last(), nil)
		},
		func() {
			at := rmAttacker(h, r, reader, blobber)
			submit(blobber, a.ID, "wrong-signer", reader.PubKey, at, last()+step(), nil)
		},
		func() { submit(blobber, a.ID, "replay", reader.PubKey, reader, last(), a.RMRaw[key]) },
		func() { submit(blobber, a.ID, "same-counter", reader.PubKey, reader, last(), nil) },
		func() {
			if l := last(); l > 1 {
				submit(blobber, a.ID, "counter-backwards", reader.PubKey, reader, l-1-int64(r.Intn(int(l-1))), nil)
			}
		},
		func() {
			if firstRaw != nil && len(rmRaws(h)[a.ID+"|"+key]) > 1 {
				submit(blobber, a.ID, "replay-older", reader.PubKey, reader, 1, firstRaw)
			}
		},
		func() { // another blobber: one of the allocation (own counter, full charge) or one outside of it
			var in, out string
			for _, p := range st.live(st.Blobbers) {
				if p.W.ID == blobber {
					continue
				}
				if v.ba(p.W.ID) != nil {
					in = p.W.ID
				} else {
					out = p.W.ID
				}
			}
			if in != "" {
				o := submit(in, a.ID, "", reader.PubKey, reader, a.RC[in+"|"+reader.ID]+step(), nil)
				if o != nil && o.Outcome == "success" {
					at := rmAttacker(h, r, reader, in)
					submit(in, a.ID, "foreign-key-foreign-sig", at.PubKey, at, a.RC[in+"|"+reader.ID]+step(), nil)
				}
			}
			if out != "" {
				submit(out, a.ID, "blobber-not-in-alloc", reader.PubKey, reader, step(), nil)
			}
		},
		func() { // the same reader and blobber, another allocation
			for _, b := range rmShuffledAllocs(r, st.open()) {
				if b != a {
					submit(blobber, b.ID, "other-alloc", reader.PubKey, reader, b.RC[key]+step(), nil)
					return
				}
			}
			submit(blobber, stHash("no-such-allocation"), "unknown-alloc", reader.PubKey, reader, step(), nil)
		},
	}
	r.Shuffle(len(hostile), func(i, j int) { hostile[i], hostile[j] = hostile[j], hostile[i] })
	for i, f := range hostile {
		f()
		if i%3 == 2 {
			genuine() // the charge of the next genuine marker is exact only if nothing in between moved the counter
		}
	}
	genuine()
	h.EndBlock()
}

// rmSignedBy is the monitor's own signature check: does sig over hash verify under the key of the wallet the harness created for
// clientID (byClient)? Is pub that wallet's public key (keyOfClient)? Otherwise, the id of the harness wallet whose public key is pub
// if the signature verifies under it (signedBy, "" if none).
func rmSignedBy(h *Hist, clientID, pub, sig, hash string) (byClient, keyOfClient bool, signedBy string) {
	verify := func(w *world.Wallet) (ok bool) {
		defer func() {
			if recover() != nil {
				ok = false
			}
		}()
		v, err := w.Scheme.Verify(sig, hash)
		return v && err == nil
	}
	if w := h.W.Wallets[clientID]; w != nil {
		keyOfClient = pub == w.PubKey
		if verify(w) {
			return true, keyOfClient, clientID
		}
	}
	for id, w := range h.W.Wallets {
		if w.PubKey == pub && id != clientID && verify(w) {
			return false, keyOfClient, id
		}
	}
	return false, keyOfClient, ""
}
