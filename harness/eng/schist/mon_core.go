package schist

import (
	"encoding/hex"
	"fmt"
	"strings"

	"0chain.net/chaincore/state"
	"0chain.net/chaincore/transaction"
	"0chain.net/core/config"
	"0chain.net/core/encryption"
	"0chain.net/smartcontract/dbs/event"
	"0chain.net/smartcontract/minersc"
	"0chain.net/smartcontract/storagesc"

	"verifh/snap"
	"verifh/world"
)

// ---- C01: supply conserved -------------------------------------------------------------------------------------------

func (h *Hist) supplySum(s snap.Snapshot) (uint64, bool) {
	var sum uint64
	wrap := false
	for _, cl := range h.ClientLeaves(s) {
		ns := sum + cl.Balance
		if ns < sum {
			wrap = true
		}
		sum = ns
	}
	return sum, wrap
}

func monC01(h *Hist, o *TxnObs) {
	sum, wrap := h.supplySum(o.Post)
	h.C("C01", "supply_sum_checked")
	if r := h.Runs["C01"]; r != nil {
		r.Eval(1)
		r.Distinct(o.Call.Name + "|" + o.Outcome + "|" + o.Call.Mut)
	}
	if wrap || sum != config.MaxTokenSupply {
		// report the transaction that changed the sum (later transactions inherit the broken total)
		if pre, pw := h.supplySum(o.Pre); pw || pre != config.MaxTokenSupply {
			h.C("C01", "txns_after_supply_already_changed")
			return
		}
		mut := o.Call.Mut
		if mut != "" {
			mut = "/" + mut
		}
		h.V("C01", "supply-changed:"+o.Call.Name+mut+":"+o.Outcome, fmt.Sprintf("sum of all account balances %d != max supply %d after %s (%s) [delta %+d]", sum, uint64(config.MaxTokenSupply), o.Call.Name, o.Outcome, int64(sum)-int64(config.MaxTokenSupply)), o)
	}
}

// ---- C03: nonce order -------------------------------------------------------------------------------------------------

func monC03(h *Hist, o *TxnObs) {
	ref := h.RefNonce[o.Txn.ClientID]
	exact := o.Txn.Nonce == ref+1
	h.C("C03", "nonce_decisions")
	if r := h.Runs["C03"]; r != nil {
		r.Eval(1)
		rel := "eq"
		switch {
		case o.Txn.Nonce <= ref:
			rel = "past"
		case o.Txn.Nonce > ref+1:
			rel = "future"
		}
		r.Distinct(fmt.Sprintf("%s|%s|%s|%v", o.Call.Name, rel, o.Outcome, o.Call.Meta["replay_of"] != nil))
	}
	if o.Outcome != "rejected" && !exact {
		h.V("C03", "applied-with-wrong-nonce", fmt.Sprintf("txn with nonce %d applied (%s) while sender nonce in state was %d", o.Txn.Nonce, o.Outcome, ref), o)
	}
	post, ok := o.Post[o.Txn.ClientID]
	var postNonce int64
	if ok {
		if cl, ok2 := snap.DecodeClient(post); ok2 {
			postNonce = cl.Nonce
		}
	}
	if o.Outcome != "rejected" {
		if postNonce != ref+1 {
			h.V("C03", "nonce-not-incremented-by-one:"+o.Outcome, fmt.Sprintf("after applied txn (%s) sender nonce is %d, expected %d", o.Outcome, postNonce, ref+1), o)
		}
	} else {
		if !o.Delta.Empty() {
			h.V("C03", "rejected-txn-changed-state", fmt.Sprintf("rejected txn (%v) left %d changed leaves", o.Err, len(o.Delta.All())), o)
		}
		if postNonce != ref {
			h.V("C03", "nonce-moved-on-reject", fmt.Sprintf("rejected txn moved nonce %d -> %d", ref, postNonce), o)
		}
	}
	if o.Call.Meta["replay_of"] != nil && o.Outcome != "rejected" {
		h.V("C03", "signed-txn-applied-twice", "a previously applied signed transaction was applied again", o)
	}
}

// balance deltas of all accounts
func (h *Hist) deltas(o *TxnObs) map[string]int64 {
	out := map[string]int64{}
	for _, p := range o.Delta.All() {
		if h.Obs.Lookup(p) != nil {
			continue
		}
		var a, b uint64
		if raw, ok := o.Pre[p]; ok {
			if cl, ok := snap.DecodeClient(raw); ok {
				a = cl.Balance
			} else {
				continue
			}
		}
		if raw, ok := o.Post[p]; ok {
			if cl, ok := snap.DecodeClient(raw); ok {
				b = cl.Balance
			} else {
				continue
			}
		}
		if a != b {
			out[p] = int64(b) - int64(a)
		}
	}
	return out
}

// ---- C05: no overdraw / wrap -------------------------------------------------------------------------------------------

func monC05(h *Hist, o *TxnObs) {
	h.C("C05", "balance_bounds_checked")
	if r := h.Runs["C05"]; r != nil {
		r.Eval(1)
		r.Distinct(fmt.Sprintf("%s|%s|%s", o.Call.Name, o.Call.Mut, o.Outcome))
	}
	for id, cl := range h.ClientLeaves(o.Post) {
		if cl.Balance > config.MaxTokenSupply {
			h.V("C05", "balance-above-supply", fmt.Sprintf("account %s balance %d exceeds the total supply", h.name(id), cl.Balance), o)
		}
	}
	// a queued transfer that no balance can cover (above the whole supply) must fail the whole transaction
	if steps, ok := o.Call.Meta["probe_steps"].([]world.ProbeStep); ok && o.Outcome == "success" {
		for _, st := range steps {
			if st.Amount > config.MaxTokenSupply && st.To != "not-a-hash" {
				h.V("C05", "transfer-above-supply-applied", fmt.Sprintf("a transaction queuing a transfer of %d (> total supply) was applied", st.Amount), o)
				break
			}
		}
		h.C("C05", "probe_calls_with_known_transfers")
		monC05Queue(h, o, steps)
	}
	if o.Outcome == "rejected" {
		if !o.Delta.Empty() {
			h.V("C05", "rejected-txn-changed-state", fmt.Sprintf("rejected txn (%v) changed %v", o.Err, o.Delta.All()), o)
		}
		return
	}
	// every decrease must be covered by the pre balance (no wrap below zero): post = pre + delta with exact integers
	var plus, minus uint64
	for id, d := range h.deltas(o) {
		pre, _ := h.Bal(o.Pre, id)
		if d < 0 {
			if uint64(-d) > pre {
				h.V("C05", "overdraw", fmt.Sprintf("account %s lost %d with balance %d", h.name(id), -d, pre), o)
			}
			minus += uint64(-d)
		} else {
			plus += uint64(d)
		}
	}
	if plus != minus {
		h.V("C05", "non-zero-sum-transfer", fmt.Sprintf("credits %d != debits %d in one txn", plus, minus), o)
	}
}

// monC05Queue replays the known queue of an APPLIED probe call in queue order on the balances of the pre-state (the contract's
// transfers, then the fee): a transfer above its source's balance at its turn, or one that overflows its destination, must have
// failed the whole transaction.
func monC05Queue(h *Hist, o *TxnObs, steps []world.ProbeStep) {
	sender := o.Txn.ClientID
	if sender != strings.ToLower(sender) {
		return // respelled sender: the account of the transfers is not the string
	}
	bal := map[string]uint64{}
	get := func(id string) uint64 {
		if v, ok := bal[id]; ok {
			return v
		}
		v, _ := h.Bal(o.Pre, id)
		bal[id] = v
		return v
	}
	queue := make([]world.ProbeStep, 0, len(steps)+1)
	for _, st := range steps {
		f := world.ProbeAddress
		if st.From == "sender" {
			f = sender
		}
		queue = append(queue, world.ProbeStep{From: f, To: st.To, Amount: st.Amount})
	}
	queue = append(queue, world.ProbeStep{From: sender, To: minersc.ADDRESS, Amount: uint64(o.Txn.Fee)})
	h.C("C05", "applied_queues_replayed_in_order")
	for i, st := range queue {
		if st.Amount == 0 {
			continue
		}
		if st.From == st.To || st.To != strings.ToLower(st.To) {
			return // not a transfer the statement speaks about
		}
		fb, tb := get(st.From), get(st.To)
		if fb < st.Amount {
			h.C("C05", "applied_queue_with_uncovered_transfer")
			h.V("C05", "transfer-above-source-balance-at-its-turn-applied", fmt.Sprintf("applied transaction: queued transfer #%d of %d moves %d from %s whose balance at its turn is %d (queue order, pre-state balances)", i+1, len(queue), st.Amount, h.name(st.From), fb), o)
			return
		}
		if tb+st.Amount < tb {
			h.V("C05", "transfer-overflowing-destination-applied", fmt.Sprintf("applied transaction: queued transfer #%d adds %d to %s holding %d", i+1, st.Amount, h.name(st.To), tb), o)
			return
		}
		bal[st.From] = fb - st.Amount
		bal[st.To] = get(st.To) + st.Amount
	}
	// the applied queue was fully covered: the post balances are exactly the replayed ones
	for id, want := range bal {
		if got, _ := h.Bal(o.Post, id); got != want {
			h.V("C05", "applied-queue-result-differs-from-replay", fmt.Sprintf("account %s holds %d after the transaction, the queue replayed in order gives %d", h.name(id), got, want), o)
			return
		}
	}
}

// ---- C02: failing call leaves only fee + nonce + error event -----------------------------------------------------------

func monC02(h *Hist, o *TxnObs) {
	if o.Outcome != "failed" {
		return
	}
	h.C("C02", "failed_calls_checked")
	r := h.Runs["C02"]
	if r != nil {
		r.Eval(1)
		r.Distinct(o.Call.Name + "|" + errClass(o.Txn.TransactionOutput))
	}
	sender := o.Txn.ClientID
	for _, p := range o.Delta.All() {
		if ki := h.Obs.Lookup(p); ki != nil {
			h.V("C02", "contract-node-changed-by-failed-call:"+o.Call.Name, fmt.Sprintf("failed %s (%s) changed contract node %q", o.Call.Name, trunc(o.Txn.TransactionOutput, 120), ki.Key), o)
			continue
		}
		if p != sender && p != minersc.ADDRESS {
			h.V("C02", "foreign-account-changed-by-failed-call:"+o.Call.Name, fmt.Sprintf("failed %s changed account %s", o.Call.Name, h.name(p)), o)
		}
	}
	pre, _ := h.Bal(o.Pre, sender)
	post, _ := h.Bal(o.Post, sender)
	fee := uint64(o.Txn.Fee)
	if pre-post != fee || post > pre {
		h.V("C02", "failed-call-charged-not-fee:"+o.Call.Name, fmt.Sprintf("failed %s: sender balance %d -> %d, fee %d", o.Call.Name, pre, post, fee), o)
	}
	mpre, _ := h.Bal(o.Pre, minersc.ADDRESS)
	mpost, _ := h.Bal(o.Post, minersc.ADDRESS)
	if mpost-mpre != fee {
		h.V("C02", "fee-not-paid-to-miner-contract:"+o.Call.Name, fmt.Sprintf("miner contract wallet %d -> %d, fee %d", mpre, mpost, fee), o)
	}
	// events: exactly the error event
	nerr := 0
	for _, e := range o.Events {
		if e.Type == event.TypeError {
			nerr++
		} else {
			h.V("C02", "event-survived-failed-call:"+o.Call.Name, fmt.Sprintf("failed %s kept event type=%v tag=%v index=%s", o.Call.Name, e.Type, e.Tag, e.Index), o)
		}
	}
	if nerr != 1 {
		h.V("C02", "error-event-count:"+o.Call.Name, fmt.Sprintf("failed %s produced %d error events", o.Call.Name, nerr), o)
	}
	// nothing the failed call wrote may be visible to later reads (cache residue)
	if h.Focus == "C02" {
		h.rereadTouched(o, "C02", func(sig, detail string) {
			h.V("C02", "failed-call-left-"+sig, detail, o)
		})
	}
}

func errClass(s string) string {
	// error code = text before the first ':' plus a coarse hash of the digits-stripped message
	b := []byte(s)
	out := make([]byte, 0, len(b))
	for _, c := range b {
		if (c >= '0' && c <= '9') || (c >= 'a' && c <= 'f' && false) {
			continue
		}
		out = append(out, c)
	}
	if len(out) > 70 {
		out = out[:70]
	}
	return string(out)
}

// ---- C04: debits authorised --------------------------------------------------------------------------------------------

func monC04(h *Hist, o *TxnObs) {
	if o.Outcome == "rejected" {
		return
	}
	h.C("C04", "debit_sets_checked")
	if r := h.Runs["C04"]; r != nil {
		r.Eval(1)
	}
	sender := o.Txn.ClientID
	for id, d := range h.deltas(o) {
		if d >= 0 {
			continue
		}
		loss := uint64(-d)
		kind := "other"
		switch {
		case id == sender:
			kind = "sender"
			if loss > uint64(o.Txn.Value)+uint64(o.Txn.Fee) {
				h.V("C04", "sender-debited-above-value-plus-fee:"+o.Call.Name, fmt.Sprintf("%s: sender lost %d > value %d + fee %d", o.Call.Name, loss, o.Txn.Value, o.Txn.Fee), o)
			}
		case id == o.Txn.ToClientID && o.Txn.TransactionType == transaction.TxnTypeSmartContract:
			kind = "contract-wallet"
		default:
			// signed transfer covering it?
			var covered uint64
			for _, st := range o.STr {
				if st.ClientID == id && signedTransferValidC04(st) {
					covered += uint64(st.Amount)
				}
			}
			if covered >= loss {
				kind = "signed-transfer"
				break
			}
			if o.Outcome == "success" && id == h.S.StorageOwnerID() && o.Txn.ToClientID == storagesc.ADDRESS && frAuthorised(h, o) {
				kind = "free-storage-grant"
				break
			}
			h.V("C04", "third-party-debited:"+o.Call.Name, fmt.Sprintf("%s (%s) lowered the balance of %s by %d without authorisation", o.Call.Name, o.Outcome, h.name(id), loss), o)
		}
		if r := h.Runs["C04"]; r != nil {
			r.Distinct(o.Call.Name + "|" + kind + "|" + o.Outcome)
			r.Count("debit_kind_"+kind, 1)
		}
	}
}

// signedTransferValidC04 checks a signed transfer with the signature primitives only (a fresh scheme object, the hash of THIS
// transfer's encoding, the key that hashes to the debited account's id) - not with SignedTransfer.VerifySignature, whose verdict
// is the thing being judged.
func signedTransferValidC04(st *state.SignedTransfer) bool {
	if !encryption.IsValidSignatureScheme(st.SchemeName) {
		return false
	}
	pk, err := hex.DecodeString(st.PublicKey)
	if err != nil || encryption.Hash(pk) != st.ClientID {
		return false
	}
	sch := encryption.GetSignatureScheme(st.SchemeName)
	if sch.SetPublicKey(st.PublicKey) != nil {
		return false
	}
	ok, err := sch.Verify(st.Sig, encryption.Hash(st.Transfer.Encode()))
	return err == nil && ok
}

// CoreMonitors are always on.
func CoreMonitors() []Monitor {
	return []Monitor{
		{"C01", "supply", monC01},
		{"C02", "failed-call", monC02},
		{"C03", "nonce", monC03},
		{"C04", "debits", monC04},
		{"C05", "overdraw", monC05},
	}
}
