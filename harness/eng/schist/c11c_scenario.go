package schist

import (
	"fmt"
	"time"

	"0chain.net/chaincore/transaction"
	"0chain.net/smartcontract/zcnsc"

	"verifh/mon"
	"verifh/world"
)

// Directed scenario of C11: stakes are unlocked AFTER their provider was taken out of service.
//
// The statement promises that an unlock "pays back exactly that pool's balance plus its accrued rewards to its owner and removes
// the pool" - it does not make the promise depend on the provider still being registered. Providers leave in several ways and each
// of them leaves the delegate pools behind for their owners to withdraw:
//
//	authorizer          delete-authorizer (contract owner or the authorizer's delegate wallet): the authorizer node is deleted, the
//	                    stake pool stays with every delegate pool intact
//	blobber / validator kill (owner) or shutdown (owner / delegate wallet): the provider node stays, marked killed / shut down
//	miner / sharder     kill_miner / kill_sharder (owner)
//
// Every history registers one or two fresh authorizers; two to four different clients (and, mostly, the authorizer's own delegate
// wallet) lock stakes of different sizes on each, one of them sometimes in two parts; a caller that is neither the owner nor the
// delegate wallet tries to delete the authorizer (it must not get through: counted, judged by the C18 side of the harness); in some
// histories one staker unlocks while the authorizer is still alive (the control case); then the authorizer is deleted (owner and
// delegate wallet take turns) and EVERY remaining staker unlocks, in a shuffled order - some in the very block of the deletion,
// some blocks and minutes later - with a client without a pool trying to unlock in between, a second unlock of a pool that was
// already paid out, and now and then a new lock on the deleted authorizer followed by its unlock. About half of the histories run
// the analogous sequence on a fresh blobber or validator (kill / shutdown), some on a miner or sharder of the set-up (kill).
//
// Every step is an ordinary transaction through h.Submit; monC11 judges every lock and unlock from the state before / after and the
// balance deltas (payout == pool balance + reward, pool removed, other delegates untouched, nobody without a pool unlocks). The
// scenario judges nothing itself; it counts, from the state BEFORE each unlock, how many unlocks met a provider that was gone.

// dacAuthCounter: successful unlocks of delegate pools of an authorizer that had been deleted before (authorizer node absent from the
// state the unlock ran on). A run in which this did not happen says nothing about unlocking after delete-authorizer.
const dacAuthCounter = "dac:unlocks_after_provider_removed:authorizer"

func init() {
	RegisterScenario(Scenario{Prop: "C11", Name: "unlock-after-provider-removed", Every: 1, Fn: dacScenarioC11})
	if schistMins["C11"] == nil {
		schistMins["C11"] = map[string]int64{}
	}
	schistMins["C11"][dacAuthCounter] = 40
}

type dacCtx struct {
	h    *Hist
	r    *mon.Rand
	mons []Monitor
	pool []*world.Wallet // funded wallets that stake in the scenario
}

// dacStake is one planned stake of the scenario.
type dacStake struct {
	W    *world.Wallet
	Vals []uint64 // one or two locks
}

// sub submits one call; blocks are sealed by next() only (and when a block gets long), so that the scenario decides which
// transactions share a block.
func (x *dacCtx) sub(c *Call) *TxnObs {
	if c == nil {
		return nil
	}
	h := x.h
	o := h.Submit(c, x.mons)
	if run := h.Runs[h.Focus]; run != nil {
		run.Count("op:"+c.Name+"|"+o.Outcome, 1)
	}
	if o.Outcome != "rejected" {
		h.S.Accepted = append(h.S.Accepted, o.Txn)
		if len(h.S.Accepted) > 64 {
			h.S.Accepted = h.S.Accepted[1:]
		}
	}
	if h.TxInBlk >= 7 {
		x.next()
	}
	return o
}

// next seals the block; the clock moves by seconds, sometimes by minutes or hours.
func (x *dacCtx) next() {
	x.h.EndBlock()
	switch x.r.Intn(6) {
	case 0:
		x.h.W.Advance(time.Duration(1+x.r.Intn(90)) * time.Minute)
	case 1:
		x.h.W.Advance(time.Duration(1+x.r.Intn(30)) * time.Hour)
	default:
		x.h.W.Advance(time.Duration(1+x.r.Intn(40)) * time.Second)
	}
}

// maybeNext: the following transaction runs in the same block (p) or in a later one.
func (x *dacCtx) maybeNext(pSame float64) {
	if x.r.Chance(pSame) {
		return
	}
	x.next()
	if x.r.Chance(0.25) {
		// an empty-handed block in between
		x.next()
	}
}

var dacValues = []uint64{1e10, 1e10 + 1, 2e10, 5e10, 7e10 + 3, 123456789012, 9e11 + 7, 3e12, 15e11, 4e10 - 1}

// dacPlan picks n distinct stakers (none of `not`) with pairwise different stake sizes.
func (x *dacCtx) dacPlan(n int, not map[string]bool, minVal uint64) []*dacStake {
	r := x.r
	cands := append([]*world.Wallet{}, x.pool...)
	r.Shuffle(len(cands), func(i, j int) { cands[i], cands[j] = cands[j], cands[i] })
	vals := append([]uint64{}, dacValues...)
	r.Shuffle(len(vals), func(i, j int) { vals[i], vals[j] = vals[j], vals[i] })
	var out []*dacStake
	for _, w := range cands {
		if len(out) >= n {
			break
		}
		if not[w.ID] {
			continue
		}
		v := vals[len(out)%len(vals)]
		if v < minVal {
			v += minVal
		}
		out = append(out, &dacStake{W: w, Vals: []uint64{v}})
	}
	return out
}

func dacHas(list []*world.Wallet, w *world.Wallet) bool {
	for _, q := range list {
		if q == w {
			return true
		}
	}
	return false
}

func dacScenarioC11(h *Hist, mons []Monitor) {
	r := h.R.Fork("c11c-unlock-after-provider-removed")
	x := &dacCtx{h: h, r: r, mons: mons}
	h.S.Mn.init(h)
	if h.S.St.mons == nil {
		h.S.St.mons = mons
	}
	// stakers: two own funded wallets (never a delegate wallet of anything) and the ordinary clients
	rich := h.W.Clients[0]
	for i := 0; i < 2; i++ {
		w := h.stWallet(fmt.Sprintf("dac-staker%d", i))
		x.sub(&Call{Name: "send", Meta: map[string]interface{}{"setup": "dac-scenario"}, Spec: world.TxnSpec{From: rich, To: w.ID, Value: Coin(2e13), Type: transaction.TxnTypeSend}})
		x.pool = append(x.pool, w)
	}
	x.pool = append(x.pool, h.W.Clients[1:]...)
	x.next()

	// the other provider kinds run before or after the authorizers
	other := func() {
		if r.Chance(0.5) {
			x.dacStorage([]string{"blobber", "validator"}[r.Intn(2)])
		}
		if r.Chance(0.4) {
			x.dacMiner([]string{"miner", "sharder"}[r.Intn(2)])
		}
	}
	first := r.Chance(0.3)
	if first {
		other()
	}
	x.dacAuthorizers()
	if !first {
		other()
	}
	h.EndBlock()
	h.W.Advance(time.Duration(1+r.Intn(60)) * time.Second)
}

// ---- authorizers -------------------------------------------------------------------------------------------------------------

type dacAuth struct {
	a      *authShadow
	stakes []*dacStake
	byWho  string // "owner" | "delegate"
}

func dacAuthInput(a *authShadow) map[string]interface{} {
	return map[string]interface{}{"provider_type": 5, "provider_id": a.W.ID}
}

// dacAuthGone: the state holds no authorizer node for a any more (generator side: evidence counters only).
func (x *dacCtx) dacAuthGone(a *authShadow) bool {
	for _, n := range x.h.NodesOfType(x.h.Cur, "*zcnsc.AuthorizerNode") {
		if Str(n.Val, "Provider.ID") == a.W.ID || Str(n.Val, "ID") == a.W.ID {
			return false
		}
	}
	return true
}

func (x *dacCtx) dacAuthLock(a *authShadow, from *world.Wallet, v uint64, mut string) *Call {
	c := &Call{Name: "zcn.stake", Mut: mut, Meta: map[string]interface{}{"provider_type": "authorizer", "provider_id": a.W.ID, "stake": "lock", "scenario": "unlock-after-removal"},
		Spec: world.TxnSpec{From: from, To: zcnsc.ADDRESS, Value: Coin(v), Fee: Coin(x.h.fee(x.r) % 1000), Type: transaction.TxnTypeSmartContract, Func: "add-to-delegate-pool", Input: dacAuthInput(a)}}
	c.After = func(h *Hist, o *TxnObs) {
		if o.Outcome == "success" && !dacHas(a.Stakers, from) {
			a.Stakers = append(a.Stakers, from)
		}
	}
	return c
}

func (x *dacCtx) dacAuthUnlock(a *authShadow, from *world.Wallet, mut string) *Call {
	return &Call{Name: "zcn.unstake", Mut: mut, Meta: map[string]interface{}{"provider_type": "authorizer", "provider_id": a.W.ID, "stake": "unlock", "scenario": "unlock-after-removal"},
		Spec: world.TxnSpec{From: from, To: zcnsc.ADDRESS, Fee: Coin(x.h.fee(x.r) % 1000), Type: transaction.TxnTypeSmartContract, Func: "delete-from-delegate-pool", Input: dacAuthInput(a)}}
}

func (x *dacCtx) dacAuthDelete(a *authShadow, from *world.Wallet, mut string) *Call {
	c := &Call{Name: "zcn.delete-authorizer", Mut: mut, Meta: map[string]interface{}{"provider_type": "authorizer", "provider_id": a.W.ID, "scenario": "unlock-after-removal"},
		Spec: world.TxnSpec{From: from, To: zcnsc.ADDRESS, Fee: Coin(x.h.fee(x.r) % 1000), Type: transaction.TxnTypeSmartContract, Func: "delete-authorizer", Input: map[string]string{"id": a.W.ID}}}
	c.After = func(h *Hist, o *TxnObs) {
		if o.Outcome == "success" {
			a.Deleted = true
		}
	}
	return c
}

// dacUnlockCounted submits an unlock and counts it by what the state before it says about provider and pool.
func (x *dacCtx) dacUnlockCounted(kind, id, gone string, c *Call) *TxnObs {
	h := x.h
	staker := c.Spec.From.ID
	poolState := "no-pool"
	if sp := h.stakePool(h.Cur, kind, id); sp != nil {
		if dp, ok := sp.Pools[staker]; ok {
			poolState = fmt.Sprintf("pool-status=%d", dp.Status)
			if sp.Delegate == staker {
				poolState += "|delegate-wallet"
			}
		}
	}
	blk := "later-block"
	if h.BC != nil && h.TxInBlk > 0 {
		blk = "block-continues"
	}
	o := x.sub(c)
	if o == nil {
		return nil
	}
	h.C("C11", fmt.Sprintf("dac:unlock:%s|provider-%s|%s|%s|%s", kind, gone, poolState, blk, o.Outcome))
	if gone != "alive" && poolState != "no-pool" && o.Outcome == "success" {
		h.C("C11", "dac:unlocks_after_provider_removed:"+kind)
	}
	if run := h.Runs["C11"]; run != nil {
		run.Distinct(fmt.Sprintf("dac|%s|%s|%s|%s", kind, gone, poolState, o.Outcome))
	}
	return o
}

func (x *dacCtx) dacAuthorizers() {
	h, r := x.h, x.r
	z := h.S.Zc
	nA := 1 + r.Intn(2)
	var auths []*dacAuth
	for i := 0; i < nA; i++ {
		z.n++
		del := x.pool[r.Intn(len(x.pool))]
		a := &authShadow{W: h.W.AddWallet(fmt.Sprintf("%s-auth%d", h.ID, z.n)), Delegate: del}
		h.Names[a.W.ID] = fmt.Sprintf("auth%d", z.n)
		in := map[string]interface{}{"public_key": a.W.PubKey, "url": fmt.Sprintf("https://auth%d", z.n),
			"stake_pool_settings": map[string]interface{}{"delegate_wallet": del.ID, "num_delegates": 6 + r.Intn(5), "service_charge": []float64{0, 0.1, 0.25}[r.Intn(3)]}}
		c := &Call{Name: "zcn.add-authorizer", Meta: map[string]interface{}{"scenario": "unlock-after-removal"},
			Spec: world.TxnSpec{From: h.W.Owner, To: zcnsc.ADDRESS, Fee: Coin(h.fee(r) % 1000), Type: transaction.TxnTypeSmartContract, Func: "add-authorizer", Input: in}}
		ok := false
		c.After = func(h *Hist, o *TxnObs) {
			if o.Outcome == "success" {
				z.Auths = append(z.Auths, a)
				ok = true
			}
		}
		x.sub(c)
		if !ok {
			h.C("C11", "dac:authorizer_not_registered")
			continue
		}
		da := &dacAuth{a: a, byWho: []string{"owner", "delegate"}[(i+r.Intn(2))%2]}
		da.stakes = x.dacPlan(2+r.Intn(3), map[string]bool{del.ID: true}, 1e10)
		if r.Chance(0.75) {
			// the delegate wallet stakes on its own authorizer as well
			da.stakes = append(da.stakes, &dacStake{W: del, Vals: []uint64{dacValues[r.Intn(len(dacValues))] + 17}})
		}
		if r.Chance(0.4) {
			s := da.stakes[r.Intn(len(da.stakes))]
			s.Vals = append(s.Vals, s.Vals[0]/2+1e10)
		}
		auths = append(auths, da)
	}
	if len(auths) == 0 {
		return
	}
	if len(auths) == 2 && auths[0].byWho == auths[1].byWho && r.Chance(0.7) {
		auths[1].byWho = map[string]string{"owner": "delegate", "delegate": "owner"}[auths[0].byWho]
	}
	x.maybeNext(0.3)

	// the locks, interleaved over the authorizers
	type lk struct {
		da *dacAuth
		s  *dacStake
		v  uint64
	}
	var locks []lk
	for _, da := range auths {
		for _, s := range da.stakes {
			for _, v := range s.Vals {
				locks = append(locks, lk{da, s, v})
			}
		}
	}
	r.Shuffle(len(locks), func(i, j int) { locks[i], locks[j] = locks[j], locks[i] })
	for _, l := range locks {
		x.sub(x.dacAuthLock(l.da.a, l.s.W, l.v, ""))
		x.maybeNext(0.7)
	}
	x.maybeNext(0.4)

	r.Shuffle(len(auths), func(i, j int) { auths[i], auths[j] = auths[j], auths[i] })
	for _, da := range auths {
		x.dacAuthRemoveAndUnlock(da)
		x.maybeNext(0.5)
	}
}

func (x *dacCtx) dacAuthRemoveAndUnlock(da *dacAuth) {
	h, r := x.h, x.r
	a := da.a
	var stakers []*world.Wallet
	for _, s := range da.stakes {
		if sp := h.stakePool(h.Cur, "authorizer", a.W.ID); sp != nil && hasPool(sp, s.W.ID) {
			stakers = append(stakers, s.W)
		}
	}
	r.Shuffle(len(stakers), func(i, j int) { stakers[i], stakers[j] = stakers[j], stakers[i] })
	outsider := func() *world.Wallet {
		for try := 0; try < 12; try++ {
			w := x.pool[r.Intn(len(x.pool))]
			if !dacHas(stakers, w) && w != a.Delegate {
				return w
			}
		}
		return nil
	}

	// somebody who is neither the contract owner nor the delegate wallet tries to delete the authorizer
	if r.Chance(0.7) {
		var from *world.Wallet
		switch r.Intn(3) {
		case 0:
			from = a.W // the authorizer itself
			h.stFund(from, 1e10)
		case 1:
			for _, w := range stakers {
				if w != a.Delegate {
					from = w // a staker
				}
			}
		}
		if from == nil {
			from = outsider()
		}
		if from != nil {
			if o := x.sub(x.dacAuthDelete(a, from, "any-caller")); o != nil {
				h.C("C11", "dac:delete_authorizer_by_unauthorised_caller|"+o.Outcome)
			}
			x.maybeNext(0.6)
		}
	}

	// control: one staker leaves while the authorizer is alive
	if len(stakers) > 2 && r.Chance(0.35) {
		x.dacUnlockCounted("authorizer", a.W.ID, "alive", x.dacAuthUnlock(a, stakers[0], ""))
		stakers = stakers[1:]
		x.maybeNext(0.6)
	}

	from := h.W.Owner
	if da.byWho == "delegate" {
		from = a.Delegate
	}
	o := x.sub(x.dacAuthDelete(a, from, ""))
	if o == nil {
		return
	}
	h.C("C11", "dac:delete_authorizer_by_"+da.byWho+"|"+o.Outcome)
	if o.Outcome != "success" || !x.dacAuthGone(a) {
		h.C("C11", "dac:authorizer_not_deleted")
		return
	}

	// every staker withdraws: the first one mostly in the block of the deletion, the others spread over later blocks
	for i, w := range stakers {
		switch {
		case i == 0:
			x.maybeNext(0.6)
		case i == len(stakers)-1 && h.BC != nil && h.TxInBlk > 0 && r.Chance(0.6):
			x.next() // at least one of them clearly later
		default:
			x.maybeNext(0.45)
		}
		if r.Chance(0.3) {
			// a client without a delegate pool there
			if s := outsider(); s != nil {
				x.dacUnlockCounted("authorizer", a.W.ID, "deleted", x.dacAuthUnlock(a, s, "no-pool-of-its-own"))
			}
		}
		ou := x.dacUnlockCounted("authorizer", a.W.ID, "deleted", x.dacAuthUnlock(a, w, ""))
		if ou != nil && ou.Outcome == "success" && r.Chance(0.3) {
			x.maybeNext(0.5)
			x.dacUnlockCounted("authorizer", a.W.ID, "deleted", x.dacAuthUnlock(a, w, "unlock-twice"))
		}
	}

	// now and then: a new stake on the deleted authorizer (whatever the contract makes of it, a lock that succeeds is a lock)
	// and its withdrawal
	if r.Chance(0.25) {
		w := outsider()
		if w == nil && len(stakers) > 0 {
			w = stakers[0]
		}
		if w != nil {
			x.maybeNext(0.5)
			ol := x.sub(x.dacAuthLock(a, w, dacValues[r.Intn(len(dacValues))]+29, "lock-on-deleted-authorizer"))
			if ol != nil {
				h.C("C11", "dac:lock_on_deleted_authorizer|"+ol.Outcome)
				if ol.Outcome == "success" {
					x.maybeNext(0.5)
					x.dacUnlockCounted("authorizer", a.W.ID, "deleted", x.dacAuthUnlock(a, w, "unlock-of-late-lock"))
				}
			}
		}
	}
}

// ---- blobbers / validators ---------------------------------------------------------------------------------------------------

func (x *dacCtx) dacStorage(kind string) {
	h, r := x.h, x.r
	st := h.S.St
	st.NoHostile = true
	defer func() { st.NoHostile = false }()
	p := ksRegister(h, r, kind) // fresh provider; its delegate wallet and mostly one client stake on it
	if !p.Reg {
		h.C("C11", "dac:storage_provider_not_registered:"+kind)
		return
	}
	lock := func(w *world.Wallet, v uint64) {
		c := stCall(h, r, "stake_pool_lock", w, stStakeInput(p), v)
		stProvMeta(c, p)
		c.Meta["scenario"] = "unlock-after-removal"
		c.After = func(h *Hist, o *TxnObs) {
			if o.Outcome == "success" && !dacHas(p.Stakers, w) {
				p.Stakers = append(p.Stakers, w)
			}
		}
		x.sub(c)
	}
	not := map[string]bool{p.Del.ID: true}
	for _, w := range p.Stakers {
		not[w.ID] = true
	}
	minVal := h.stConf().MinStake
	for _, s := range x.dacPlan(1+r.Intn(2), not, minVal) {
		lock(s.W, s.Vals[0])
	}
	x.maybeNext(0.4)
	act := ksActions[[]int{0, 1, 2, 2}[r.Intn(4)]] // shutdown by delegate / by owner, kill by owner
	gone := map[string]string{"kill": "killed", "shutdown": "shutdown"}[act.Fn]
	if o := x.sub(ksCall(h, r, p, act)); o == nil || o.Outcome != "success" {
		h.C("C11", "dac:storage_provider_not_removed:"+kind)
		return
	}
	h.C("C11", "dac:"+act.Name+":"+kind)
	stakers := append([]*world.Wallet{}, p.Stakers...)
	r.Shuffle(len(stakers), func(i, j int) { stakers[i], stakers[j] = stakers[j], stakers[i] })
	for i, w := range stakers {
		if i == 0 {
			x.maybeNext(0.6)
		} else {
			x.maybeNext(0.4)
		}
		w := w
		c := stCall(h, r, "stake_pool_unlock", w, stStakeInput(p), 0)
		stProvMeta(c, p)
		c.Meta["scenario"] = "unlock-after-removal"
		c.After = func(h *Hist, o *TxnObs) {
			if o.Outcome != "success" {
				return
			}
			for i, s := range p.Stakers {
				if s == w {
					p.Stakers = append(p.Stakers[:i], p.Stakers[i+1:]...)
					break
				}
			}
		}
		x.dacUnlockCounted(kind, p.W.ID, gone, c)
	}
	x.next()
}

// ---- miners / sharders -------------------------------------------------------------------------------------------------------

func (x *dacCtx) dacMiner(typ string) {
	h, r := x.h, x.r
	m := h.S.Mn
	h.mnSync(h.Cur)
	owner := h.mnOwner()
	live := m.ofType(typ, mnLive)
	min := 2
	if typ == "sharder" {
		min = 1
	}
	if owner == nil || len(live) <= min {
		h.C("C11", "dac:no_miner_target:"+typ)
		return
	}
	var cands []*mnNode
	for _, n := range live {
		held := 0
		for _, s := range n.Stakers {
			if h.W.Wallets[s] != nil {
				held++
			}
		}
		if held > 0 {
			cands = append(cands, n)
		}
	}
	if len(cands) == 0 {
		h.C("C11", "dac:no_miner_target:"+typ)
		return
	}
	n := cands[r.Intn(len(cands))]
	in := func() map[string]interface{} {
		return map[string]interface{}{"provider_type": n.PType, "provider_id": n.ID}
	}
	// one more staker with a size of its own, if there is room
	if len(n.Stakers) < n.NumDelegates {
		not := map[string]bool{}
		for _, s := range n.Stakers {
			not[s] = true
		}
		for _, s := range x.dacPlan(1, not, h.mnCfg().MinStake) {
			meta := map[string]interface{}{"provider_type": n.Type, "provider_id": n.ID, "staker": s.W.ID, "value": s.Vals[0], "sent_provider_type": n.PType, "scenario": "unlock-after-removal"}
			x.sub(mnCall("miner.addToDelegatePool", "", s.W, "addToDelegatePool", s.Vals[0], h.fee(r)%1000, in(), meta, nil))
		}
		x.maybeNext(0.5)
	}
	fn := "kill_" + typ
	meta := map[string]interface{}{"provider_type": typ, "provider_id": n.ID, "owner_call": true, "killed_before": n.Killed, "registered": n.Registered, "scenario": "unlock-after-removal"}
	if o := x.sub(mnCall("miner."+fn, "", owner, fn, 0, h.fee(r)%1000, map[string]interface{}{"provider_id": n.ID}, meta, nil)); o == nil || o.Outcome != "success" {
		h.C("C11", "dac:miner_not_killed:"+typ)
		return
	}
	h.C("C11", "dac:kill-by-owner:"+typ)
	var stakers []*world.Wallet
	for _, s := range n.Stakers {
		if w := h.W.Wallets[s]; w != nil {
			stakers = append(stakers, w)
		}
	}
	r.Shuffle(len(stakers), func(i, j int) { stakers[i], stakers[j] = stakers[j], stakers[i] })
	for i, w := range stakers {
		if i == 0 {
			x.maybeNext(0.6)
		} else {
			x.maybeNext(0.4)
		}
		w := w
		meta := map[string]interface{}{"provider_type": n.Type, "provider_id": n.ID, "staker": w.ID, "sent_provider_type": n.PType, "scenario": "unlock-after-removal"}
		c := mnCall("miner.deleteFromDelegatePool", "", w, "deleteFromDelegatePool", 0, h.fee(r)%1000, in(), meta, func(h *Hist, o *TxnObs) {
			if o.Outcome == "success" {
				m.Unlocked = append(m.Unlocked, mnStakeRef{n, w})
				if len(m.Unlocked) > 8 {
					m.Unlocked = m.Unlocked[1:]
				}
			}
		})
		x.dacUnlockCounted(typ, n.ID, "killed", c)
	}
	x.next()
}
