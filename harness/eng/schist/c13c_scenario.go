package schist

import (
	"encoding/json"
	"fmt"
	"time"

	"verifh/mon"
)

// Directed scenario (C13): a blobber is replaced in an allocation whose per-blobber size is NOT ceil(total size / data shards).
//
// The contract keeps two sizes per allocation: the total (StorageAllocation.Size) and one per blobber (BlobberAllocation.Size).
// A new allocation gives every blobber ceil(total/data shards); every extension by delta bytes adds ceil(delta/data shards) to
// each blobber. Whenever total and delta are not multiples of the data shards the two roundings add up differently, so after
// one to three odd extensions a blobber's share is one to three bytes above ceil(new total/data shards). Everything that takes a
// blobber out of such an allocation (replacement, cancel, finalize) has to give back THAT blobber's share - the statement sums
// the per-blobber sizes of the open allocations - and everything that puts one in has to book the share it stores for it.
//
// Each history runs two or three rounds on fresh allocations over several data-shard counts (extra blobbers are registered first
// so that wide allocations leave spare blobbers):
//
//	create      total size = 1 MB .. 1 GB plus a small odd offset, mostly not divisible by the data shards
//	extend      1-3 times by 1, 3, 5, 7, 11, 13, primes, data shards - 1, data shards + 1 bytes (amounts below the shard count too);
//	            control rounds extend by multiples of the data shards or not at all
//	reduce      now and then a negative size (the contract refuses reductions; nothing may move)
//	replace     a live member (first, last or any position) is replaced by a live outside blobber: add_blobber_id + remove_blobber_id
//	add         a blobber is added without removal (one more parity shard), before or after a replacement
//	replace x2  twice in a row: the second one takes out the blobber that just came in, or another old member
//	close       cancel_allocation, or the clock moves past the expiration and the owner finalizes: every blobber is back at the sums of
//	            whatever else it serves
//
// Every step is an ordinary new_allocation_request / update_allocation_request / cancel_allocation / finalize_allocation
// transaction through h.Submit, judged by the C13 monitor (Allocated and TotalOffers recomputed from the allocations in state). The
// scenario itself only counts, from the allocation read from state before the call, how many replacements took out a blobber whose
// share differed from ceil(total/data shards).

const rbcDriftCounter = "rbc:replacements_of_live_blobber_with_share_not_ceil_total_over_data_shards"

func init() {
	RegisterScenario(Scenario{Prop: "C13", Name: "replace-blobber-after-uneven-extensions", Every: 1, Fn: rbcScenario})
	if schistMins["C13"] == nil {
		schistMins["C13"] = map[string]int64{}
	}
	schistMins["C13"][rbcDriftCounter] = 8
}

func rbcCount(h *Hist, k string) { h.C("C13", "rbc:"+k) }

// rbcCeil is ceil(size/shards) in integers.
func rbcCeil(size int64, shards int) int64 {
	if shards <= 0 {
		return size
	}
	return (size + int64(shards) - 1) / int64(shards)
}

// rbcDrift: by how many bytes the shares of the allocation's blobbers differ from ceil(total/data shards) (largest difference).
func rbcDrift(v *stAllocView) int64 {
	var d int64
	if v == nil {
		return 0
	}
	want := rbcCeil(v.Size, v.DataShards)
	for _, ba := range v.BlobberAllocs {
		x := ba.Size - want
		if x < 0 {
			x = -x
		}
		if x > d {
			d = x
		}
	}
	return d
}

type rbcRun struct {
	h     *Hist
	r     *mon.Rand
	a     *stAlloc
	plan  string
	added []string // blobbers that came in through this scenario, in order
}

func (x *rbcRun) view() *stAllocView { return x.h.stGetAlloc(x.a.ID) }

// members / outside: the allocation's blobbers and the live blobbers the contract would accept as an addition, from the state view
func (x *rbcRun) members(v *stAllocView) (members, outside []*stProv) {
	h, st := x.h, x.h.S.St
	in := map[string]bool{}
	for _, b := range v.BlobberAllocs {
		in[b.BlobberID] = true
		if p := st.blobberByID(b.BlobberID); p != nil {
			members = append(members, p)
		}
	}
	bs := stBSize(v.Size, v.DataShards)
	for _, p := range stShuffled(x.r, st.live(st.Blobbers)) {
		if !in[p.W.ID] && h.stUsable(p, bs) {
			outside = append(outside, p)
		}
	}
	return
}

// update submits one update_allocation_request of the allocation's owner.
func (x *rbcRun) update(kind string, in map[string]interface{}, val uint64) *TxnObs {
	h := x.h
	v := x.view()
	if v == nil || h.W.Wallets[v.Owner] == nil {
		return nil
	}
	in["id"] = x.a.ID
	c := stCall(h, x.r, "update_allocation_request", h.W.Wallets[v.Owner], in, val)
	c.Meta["alloc"], c.Meta["kind"], c.Meta["scenario"], c.Meta["plan"] = x.a.ID, kind, "rbc", x.plan
	if b, ok := in["add_blobber_id"].(string); ok {
		c.Meta["blobber"] = b
	}
	if rm, ok := in["remove_blobber_id"].(string); ok {
		c.Meta["removed_blobber"] = rm
		c.Meta["partial_pass"] = false
	}
	return h.stInner(c)
}

// extend grows the allocation by delta bytes.
func (x *rbcRun) extend(delta int64, what string) *TxnObs {
	h := x.h
	pre := x.view()
	if pre == nil {
		return nil
	}
	members, _ := x.members(pre)
	val := h.stCost(members, stBSize(pre.Size+delta, pre.DataShards)) + 1e9
	if x.r.Chance(0.5) {
		val = 0 // what is locked already covers the few bytes
	}
	o := x.update("grow", map[string]interface{}{"size": delta}, val)
	if o == nil {
		return nil
	}
	rbcCount(h, "extend:"+what+"|"+o.Outcome)
	if post := x.view(); o.Outcome == "success" && post != nil {
		rbcCount(h, fmt.Sprintf("extend_below_data_shards=%v|share_differs_afterwards=%v", delta < int64(pre.DataShards), rbcDrift(post) != 0))
		if run := h.Runs["C13"]; run != nil {
			run.Distinct(fmt.Sprintf("rbc|extend|d=%d|size%%d=%d|delta%%d=%d|drift=%d", pre.DataShards, pre.Size%int64(pre.DataShards), delta%int64(pre.DataShards), rbcDrift(post)))
		}
	}
	return o
}

// change replaces (remove != "") or adds (remove == "") a blobber; returns the outcome and the blobber that came in.
func (x *rbcRun) change(kind string, pickRemove func(v *stAllocView, members []*stProv) *stProv) *TxnObs {
	h, r := x.h, x.r
	pre := x.view()
	if pre == nil {
		return nil
	}
	members, outside := x.members(pre)
	if len(outside) == 0 || len(members) == 0 {
		rbcCount(h, kind+"|no-outside-blobber")
		return nil
	}
	np := outside[0]
	bs := stBSize(pre.Size, pre.DataShards)
	in := map[string]interface{}{"add_blobber_id": np.W.ID, "add_blobber_auth_ticket": h.stAuthTickets([]*stProv{np}, pre.Owner)[0]}
	var rm *stProv
	var share int64
	if pickRemove != nil {
		if rm = pickRemove(pre, members); rm == nil {
			rbcCount(h, kind+"|no-live-member")
			return nil
		}
		ba := pre.ba(rm.W.ID)
		if ba == nil {
			rbcCount(h, kind+"|no-live-member")
			return nil
		}
		in["remove_blobber_id"] = rm.W.ID
		share = ba.Size
	}
	val := h.stCost(members, bs) + h.stCost([]*stProv{np}, bs) + 1e9
	if r.Chance(0.3) {
		val = 0
	}
	drift := rbcDrift(pre)
	o := x.update(kind, in, val)
	if o == nil {
		return nil
	}
	rbcCount(h, fmt.Sprintf("%s|share_differs=%v|%s", kind, drift != 0, o.Outcome))
	if o.Outcome != "success" {
		return o
	}
	x.added = append(x.added, np.W.ID)
	if run := h.Runs["C13"]; run != nil {
		pos := -1
		if rm != nil {
			for i, b := range pre.BlobberAllocs {
				if b.BlobberID == rm.W.ID {
					pos = i
				}
			}
		}
		run.Distinct(fmt.Sprintf("rbc|%s|d=%d|p=%d|drift=%d|removed-position=%d", kind, pre.DataShards, pre.ParityShards, drift, pos))
	}
	if rm != nil && share != rbcCeil(pre.Size, pre.DataShards) {
		h.C("C13", rbcDriftCounter)
		fmt.Printf("SCENARIO-STEP %s rbc %s plan=%s alloc=%s total=%d data=%d ceil=%d share_of_removed=%d removed=%s added=%s\n",
			h.ID, kind, x.plan, x.a.ID[:8], pre.Size, pre.DataShards, rbcCeil(pre.Size, pre.DataShards), share, h.name(rm.W.ID), h.name(np.W.ID))
	}
	return o
}

// liveMember picks a live member of the allocation: the first, the last or any.
func rbcLiveMember(h *Hist, r *mon.Rand, v *stAllocView, members []*stProv, not string) *stProv {
	var live []*stProv
	for _, b := range v.BlobberAllocs { // in the allocation's own order
		for _, m := range members {
			if n := h.stNode(m.W.ID); m.W.ID == b.BlobberID && m.W.ID != not && m.Dead == "" && n != nil && !n.IsKilled && !n.IsShutDown {
				live = append(live, m)
			}
		}
	}
	if len(live) == 0 {
		return nil
	}
	switch r.Intn(4) {
	case 0:
		return live[0]
	case 1:
		return live[len(live)-1]
	}
	return live[r.Intn(len(live))]
}

func (x *rbcRun) replaceAny(kind string) *TxnObs {
	return x.change(kind, func(v *stAllocView, members []*stProv) *stProv { return rbcLiveMember(x.h, x.r, v, members, "") })
}

// rbcNewAlloc: an allocation of d data and p parity shards over usable blobbers; the owner locks several times its cost, so that
// the later steps do not depend on what they lock themselves
func rbcNewAlloc(h *Hist, r *mon.Rand, d, p int, size int64, plan string) *stAlloc {
	st := h.S.St
	conf := h.stConf()
	var usable []*stProv
	for _, b := range stShuffled(r, st.live(st.Blobbers)) {
		if h.stUsable(b, stBSize(size, d)+64) {
			usable = append(usable, b)
		}
	}
	if len(usable) < d+p {
		rbcCount(h, "too-few-usable-blobbers")
		return nil
	}
	chosen := usable[:d+p]
	owner := h.stClient(r)
	in := map[string]interface{}{
		"data_shards": d, "parity_shards": p, "size": size,
		"read_price_range":       map[string]uint64{"min": 0, "max": conf.MaxReadPrice},
		"write_price_range":      map[string]uint64{"min": 0, "max": conf.MaxWritePrice},
		"third_party_extendable": r.Chance(0.3),
		"blobbers":               stIDs(chosen), "blobber_auth_tickets": h.stAuthTickets(chosen, owner.ID),
	}
	if r.Chance(0.3) {
		in["owner_id"], in["owner_public_key"] = owner.ID, owner.PubKey
	}
	val := h.stCost(chosen, stBSize(size, d))*uint64(4+r.Intn(3)) + 5e9
	c := stCall(h, r, "new_allocation_request", owner, in, val)
	c.Meta["blobbers"], c.Meta["owner"], c.Meta["size"], c.Meta["scenario"], c.Meta["plan"] = stIDs(chosen), owner.ID, size, "rbc", plan
	var a *stAlloc
	c.After = func(h *Hist, o *TxnObs) {
		if o.Outcome != "success" {
			return
		}
		var out struct {
			ID string `json:"id"`
		}
		id := o.Txn.Hash
		if json.Unmarshal([]byte(o.Txn.TransactionOutput), &out) == nil && out.ID != "" {
			id = out.ID
		}
		o.Call.Meta["alloc"] = id
		a = h.stRegisterAlloc(id, owner, false)
	}
	o := h.stInner(c)
	rbcCount(h, fmt.Sprintf("create|d=%d|size_divisible_by_data_shards=%v|%s", d, size%int64(d) == 0, o.Outcome))
	return a
}

// rbcDelta: the bytes of one extension.
func rbcDelta(r *mon.Rand, d int, control bool) (int64, string) {
	if control {
		return int64(d) * []int64{1, 7, 1024, 65536}[r.Intn(4)], "multiple-of-data-shards"
	}
	switch r.Intn(5) {
	case 0:
		return 1, "one-byte"
	case 1:
		return []int64{3, 5, 7}[r.Intn(3)], "3-5-7"
	case 2:
		return []int64{11, 13, 101, 65537, 1000003, 16777259}[r.Intn(6)], "prime"
	case 3:
		if d > 2 {
			return int64(1 + r.Intn(d-1)), "below-data-shards"
		}
		return 1, "below-data-shards"
	}
	return int64(d)*int64(1+r.Intn(4096)) + 1 + int64(r.Intn(d)), "multiple-plus-remainder"
}

var rbcPlans = []string{"replace", "replace", "add-then-replace", "replace-then-add", "replace-twice-incoming-out-again", "replace-twice-another-old-member",
	"reduce-then-replace", "replace", "control:no-extension", "control:extensions-by-multiples"}

func rbcRound(h *Hist, r *mon.Rand, plan string, last bool) {
	st := h.S.St
	conf := h.stConf()
	nLive := 0
	for _, b := range st.live(st.Blobbers) {
		if h.stUsable(b, 2*stGB) {
			nLive++
		}
	}
	// leave two usable blobbers outside the allocation
	maxShards := nLive - 2
	if maxShards < 3 {
		maxShards = 3
	}
	p := 1 + r.Intn(2)
	d := []int{2, 3, 3, 4, 5, 6, 7}[r.Intn(7)]
	for d+p > maxShards {
		if p > 1 {
			p--
		} else {
			d--
		}
	}
	if d < 2 {
		d = 2
	}
	control := plan == "control:extensions-by-multiples"
	size := []int64{conf.MinAllocSize, 4 * stMB, 64 * stMB, 256 * stMB, stGB}[r.Intn(5)]
	if control {
		size = rbcCeil(size, d) * int64(d)
	} else {
		size += []int64{1, 3, 5, 7, 11, 13, 1000003}[r.Intn(7)]
		for try := 0; size%int64(d) == 0 && try < 3 && r.Chance(0.85); try++ {
			size++
		}
	}
	a := rbcNewAlloc(h, r, d, p, size, plan)
	if a == nil {
		return
	}
	x := &rbcRun{h: h, r: r, a: a, plan: plan}
	rbcCount(h, "round:"+plan)
	if r.Chance(0.4) {
		h.stNextBlock(r, 30)
	}

	// extensions
	n := 1 + r.Intn(3)
	if plan == "control:no-extension" {
		n = 0
	}
	for i := 0; i < n; i++ {
		delta, what := rbcDelta(r, d, control)
		x.extend(delta, what)
		if r.Chance(0.4) {
			h.stNextBlock(r, 60)
		}
	}
	// odd extensions until the shares differ (the rounding of two extensions may also cancel the first one's out: 1 then d-1 ...)
	for try := 0; try < 2 && n > 0 && !control && rbcDrift(x.view()) == 0; try++ {
		x.extend(1, "one-byte")
	}

	switch plan {
	case "add-then-replace":
		x.change("add-blobber", nil)
		x.replaceAny("replace-blobber")
	case "replace-then-add":
		x.replaceAny("replace-blobber")
		x.change("add-blobber", nil)
	case "replace-twice-incoming-out-again":
		if o := x.replaceAny("replace-blobber"); o != nil && o.Outcome == "success" {
			in := x.added[len(x.added)-1]
			x.change("replace-incoming-blobber", func(v *stAllocView, members []*stProv) *stProv { return st.blobberByID(in) })
		}
	case "replace-twice-another-old-member":
		if o := x.replaceAny("replace-blobber"); o != nil && o.Outcome == "success" {
			in := x.added[len(x.added)-1]
			x.change("replace-second-old-blobber", func(v *stAllocView, members []*stProv) *stProv { return rbcLiveMember(h, r, v, members, in) })
		}
	case "reduce-then-replace":
		if o := x.update("reduce", map[string]interface{}{"size": -[]int64{1, 3, int64(d), 65537}[r.Intn(4)]}, 0); o != nil {
			rbcCount(h, "reduce|"+o.Outcome)
		}
		x.replaceAny("replace-blobber")
	default:
		x.replaceAny("replace-blobber")
	}
	if r.Chance(0.6) {
		// an extension AFTER a blobber came into an allocation with differing shares: every member's size has to grow by what
		// its Allocated grew by (not to the first member's size plus the difference)
		x.extend(1+int64(r.Intn(7)), "after-change")
		h.C("C13", "rbc:extensions_after_blobber_change")
	}
	if r.Chance(0.5) {
		h.stNextBlock(r, 60)
	}

	// close: cancel, or (last round only) finalize after the expiration
	v := x.view()
	if v == nil || h.W.Wallets[v.Owner] == nil {
		return
	}
	owner := h.W.Wallets[v.Owner]
	how := "cancel"
	if last && r.Chance(0.35) {
		how = "finalize"
		h.EndBlock()
		secs := v.Expiration - int64(h.W.Now) + int64(1+r.Intn(3600))
		h.W.Advance(time.Duration(secs) * time.Second)
		st.SinceJump = 0
		fmt.Printf("OP %s {\"op\":\"storage.time-jump\",\"seconds\":%d,\"alloc\":%q,\"scenario\":\"rbc\"}\n", h.ID, secs, a.ID)
	}
	c := stCall(h, r, how+"_allocation", owner, map[string]string{"allocation_id": a.ID}, 0)
	c.Meta["alloc"], c.Meta["closes"], c.Meta["scenario"], c.Meta["plan"], c.Meta["partial_pass"] = a.ID, how, "rbc", plan, false
	c.After = stCloseAfter(a, how)
	drift := rbcDrift(v)
	o := h.stInner(c)
	rbcCount(h, fmt.Sprintf("close:%s|share_differs=%v|%s", how, drift != 0, o.Outcome))
	if o.Outcome == "success" && len(h.S.St.open()) == 0 {
		// nothing is open any more: every blobber must be back at zero, which the monitor has just judged; count it from the state
		zero := true
		for _, b := range h.blobbers(h.Cur) {
			zero = zero && b.Allocated == 0
		}
		rbcCount(h, fmt.Sprintf("all_closed|every_blobber_allocated_zero=%v", zero))
	}
	if how == "finalize" {
		// the clock moved by a month: the blobbers report in again, otherwise nothing of the following workload could use them
		for _, b := range st.live(st.Blobbers) {
			hc := stCall(h, r, "blobber_health_check", b.W, map[string]interface{}{}, 0)
			stProvMeta(hc, b)
			hc.Meta["scenario"] = "rbc"
			h.stInner(hc)
		}
		for _, b := range st.live(st.Validators) {
			hc := stCall(h, r, "validator_health_check", b.W, map[string]interface{}{}, 0)
			stProvMeta(hc, b)
			hc.Meta["scenario"] = "rbc"
			h.stInner(hc)
		}
	}
}

func rbcScenario(h *Hist, mons []Monitor) {
	st := h.S.St
	if st.mons == nil {
		st.mons = mons
	}
	r := h.R.Fork("rbc-replace-blobber-after-uneven-extensions")
	st.NoHostile = true
	defer func() { st.NoHostile = false }()
	// two more blobbers with delegate stake: allocations of up to five or six shards leave blobbers outside
	for i := 0; i < 2; i++ {
		ksRegister(h, r, "blobber")
	}
	h.stNextBlock(r, 20)
	rounds := 2
	if r.Chance(0.3) {
		rounds = 3
	}
	for k := 0; k < rounds; k++ {
		plan := rbcPlans[r.Intn(len(rbcPlans))]
		if k == 0 && r.Chance(0.8) {
			plan = rbcPlans[r.Intn(8)] // the first round of most histories is not a control round
		}
		rbcRound(h, r, plan, k == rounds-1)
		h.stNextBlock(r, 30)
	}
	h.EndBlock()
}
