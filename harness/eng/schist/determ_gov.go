package schist

import (
	"fmt"

	"0chain.net/chaincore/transaction"
	"0chain.net/smartcontract/minersc"
	"0chain.net/smartcontract/storagesc"

	"verifh/mon"
	"verifh/world"
)

// govBurstC06 drives, in every history of the determinism engine, the settings functions of all contracts in the shape that
// makes a node's warm caches matter: the owner sends an update with several fields of which an early one (in key order) is valid
// and a later one is not (the call fails after partial work on whatever object it was handed), then a valid update that stores
// the settings node, in the same block or in the next one. Every block is re-executed from a cold cache by the caller; whatever
// the failed call left behind in the executing node's caches shows as a different root / output there.
func govBurstC06(h *Hist, r *mon.Rand, run *mon.Run, endBlock func()) {
	type upd struct {
		name, addr, fn string
		fail, ok       map[string]string
	}
	n := func(lo, span int) string { return fmt.Sprint(lo + r.Intn(span)) }
	cases := []upd{
		{"miner.update_settings", minersc.ADDRESS, "update_settings", map[string]string{"cost.add_miner": n(300, 700), "cost.add_sharder": n(300, 700), "max_n": "not-a-number"}, map[string]string{"cost.collect_reward": n(200, 100)}},
		{"miner.update_settings", minersc.ADDRESS, "update_settings", map[string]string{"cost.payfees": n(1000, 500), "cost.kill_miner": n(100, 100), "reward_rate": "1,0"}, map[string]string{"max_delegates": "200"}},
		{"miner.update_settings", minersc.ADDRESS, "update_settings", map[string]string{"cost.addtodelegatepool": n(100, 100), "no_such_key": "1"}, map[string]string{"cost.addtodelegatepool": n(150, 100)}},
		{"miner.update_globals", minersc.ADDRESS, "update_globals", map[string]string{"server_chain.block.max_block_size": n(10, 90), "server_chain.transaction.timeout": "soon"}, map[string]string{"server_chain.block.max_block_cost": n(9000, 3000)}},
		{"storage.update_settings", storagesc.ADDRESS, "update_settings", map[string]string{"cost.new_allocation_request": n(100, 500), "cost.update_settings": n(100, 100), "time_unit": "not-a-duration"}, map[string]string{"cost.new_allocation_request": n(100, 500)}},
		{"storage.update_settings", storagesc.ADDRESS, "update_settings", map[string]string{"max_blobbers_per_allocation": n(30, 10), "zz_no_such_key": "1"}, map[string]string{"max_blobbers_per_allocation": n(30, 10)}},
	}
	for i := range govContracts {
		gc := govContracts[i]
		if len(gc.Keys) < 3 {
			continue
		}
		// keys in key order: a valid value for the first, an invalid one for the last
		ks := append([]govKey{}, gc.Keys...)
		for a := 0; a < len(ks); a++ {
			for b := a + 1; b < len(ks); b++ {
				if ks[b].Key < ks[a].Key {
					ks[a], ks[b] = ks[b], ks[a]
				}
			}
		}
		first, mid, last := ks[0], ks[1+r.Intn(len(ks)-2)], ks[len(ks)-1]
		okf := map[string]string{mid.Key: mid.Valid[r.Intn(len(mid.Valid))]}
		if gc.Name == "zcn" {
			okf["min_stake"] = "1" // the shipped min_stake of 0 fails validation until it is set once
		}
		cases = append(cases, upd{gc.Name + ".update-settings", gc.Addr, gc.Func,
			map[string]string{first.Key: first.Valid[r.Intn(len(first.Valid))], mid.Key: mid.Valid[r.Intn(len(mid.Valid))], last.Key: last.Invalid[r.Intn(len(last.Invalid))]},
			okf})
	}
	r.Shuffle(len(cases), func(i, j int) { cases[i], cases[j] = cases[j], cases[i] })
	send := func(c upd, fields map[string]string, mut string) string {
		from := h.W.Wallets[h.scOwner(h.Cur, c.addr)]
		if from == nil {
			from = h.W.Owner
		}
		call := &Call{Name: c.name, Mut: mut, Meta: map[string]interface{}{"settings": fields, "fields": fields, "fn": c.fn, "owner_call": true},
			Spec: world.TxnSpec{From: from, To: c.addr, Fee: Coin(h.fee(r) % 1000), Type: transaction.TxnTypeSmartContract, Func: c.fn, Input: map[string]interface{}{"fields": fields}}}
		o := h.Submit(call, nil)
		run.Count("gov_burst:"+c.name+"|"+mut+"|"+o.Outcome, 1)
		if o.Outcome == "success" && c.addr == minersc.ADDRESS && c.fn == "update_settings" && h.S != nil && h.S.Mn != nil && h.S.Mn.Settings != nil {
			for k, v := range fields {
				h.S.Mn.Settings[k] = v
			}
		}
		return o.Outcome
	}
	for _, c := range cases {
		// something of this contract executed first, so that the node holds the settings in its caches
		send(c, c.ok, "burst-warm-up")
		if r.Chance(0.5) {
			endBlock()
		}
		send(c, c.fail, "burst-fails-after-valid-field")
		if r.Chance(0.5) {
			endBlock()
		}
		send(c, c.ok, "burst-valid-after-failed")
		if r.Chance(0.6) {
			endBlock()
		}
	}
	endBlock()
}
