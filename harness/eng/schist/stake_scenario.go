package schist

import (
	"fmt"
	"sort"
	"time"

	"0chain.net/chaincore/transaction"
	"0chain.net/smartcontract/minersc"
	"0chain.net/smartcontract/storagesc"
	"0chain.net/smartcontract/zcnsc"

	"verifh/mon"
	"verifh/world"
)

// Directed scenario of C11 (delegate limit): for every provider kind that can be staked to (miner, sharder, blobber, validator,
// authorizer) a provider whose OWN num_delegates is small (1, 2 or 3, far below the contract-wide max_delegates) is filled with
// exactly that many delegate pools of distinct clients; then
//
//	a client without a pool there locks a stake            (the limit is reached: must be refused)
//	an existing delegate tops its pool up                  (no new pool)
//	a delegate unlocks, somebody new takes the free place  (allowed again), and the next newcomer is refused again.
//
// Every step is an ordinary transaction through h.Submit, built the way the random operations build theirs (mnCall, stCall,
// the zcn calls); monC11 judges them from the state before / after, the scenario itself judges nothing.

func init() {
	RegisterScenario(Scenario{Prop: "C11", Name: "small-delegate-limit-filled-then-strangers", Every: 1, Fn: skScenarioC11})
}

// skProv is one provider under the scenario: how to lock / unlock at it.
type skProv struct {
	Kind   string // as monC11 names it
	ID     string
	Val    uint64
	Lock   func(from *world.Wallet, v uint64, mut string) *Call
	Unlock func(from *world.Wallet, mut string) *Call
}

type skCtx struct {
	h    *Hist
	r    *mon.Rand
	mons []Monitor
	pool []*world.Wallet // funded wallets that stake in the scenario
}

func (x *skCtx) sub(c *Call) *TxnObs {
	if c == nil {
		return nil
	}
	h := x.h
	o := h.Submit(c, x.mons)
	if run := h.Runs[h.Focus]; run != nil {
		run.Count("op:"+c.Name+"|"+o.Outcome, 1)
	}
	if o.Outcome != "rejected" {
		h.S.Accepted = append(h.S.Accepted, o.Txn)
		if len(h.S.Accepted) > 64 {
			h.S.Accepted = h.S.Accepted[1:]
		}
	}
	if h.TxInBlk >= 1+x.r.Intn(4) {
		h.EndBlock()
		h.W.Advance(time.Duration(1+x.r.Intn(20)) * time.Second)
	}
	return o
}

func skScenarioC11(h *Hist, mons []Monitor) {
	r := h.R.Fork("stake-scenario")
	x := &skCtx{h: h, r: r, mons: mons}
	h.S.Mn.init(h)
	if h.S.St.mons == nil {
		h.S.St.mons = mons
	}
	// stakers: own funded wallets (never delegate wallets of anything) plus the ordinary clients
	rich := h.W.Clients[0]
	for i := 0; i < 5; i++ {
		w := h.stWallet(fmt.Sprintf("sk-staker%d", i))
		x.sub(&Call{Name: "send", Meta: map[string]interface{}{"setup": "stake-scenario"}, Spec: world.TxnSpec{From: rich, To: w.ID, Value: Coin(2e13), Type: transaction.TxnTypeSend}})
		x.pool = append(x.pool, w)
	}
	x.pool = append(x.pool, h.W.Clients[1:]...)
	h.EndBlock()

	kinds := []string{"miner", "sharder", "blobber", "validator", "authorizer"}
	r.Shuffle(len(kinds), func(i, j int) { kinds[i], kinds[j] = kinds[j], kinds[i] })
	for i, kind := range kinds {
		k := 1 + (r.Intn(3)+i)%3
		var p *skProv
		switch kind {
		case "miner", "sharder":
			p = x.skMinerTarget(kind, &k)
		case "blobber", "validator":
			p = x.skStorageTarget(kind, &k)
		case "authorizer":
			p = x.skAuthorizerTarget(&k)
		}
		if p == nil {
			h.C("C11", "sk_no_target:"+kind)
			continue
		}
		x.skDrive(p, k)
		x.skTopUpAtMaxStake(p)
		h.EndBlock()
		h.W.Advance(time.Duration(1+r.Intn(60)) * time.Second)
	}
}

// ---- targets -----------------------------------------------------------------------------------------------------------------

// a registered, live magic-block node whose delegate wallet the harness holds; its num_delegates is lowered through
// update_*_settings to max(k, pools it already has) - nodes with more than three pools are left alone
func (x *skCtx) skMinerTarget(kind string, k *int) *skProv {
	h, r := x.h, x.r
	m := h.S.Mn
	h.mnSync(h.Cur)
	var cands []*mnNode
	for _, n := range m.ofType(kind, mnLive) {
		if len(n.Stakers) <= 3 && h.W.Wallets[n.DelegateID] != nil {
			cands = append(cands, n)
		}
	}
	if len(cands) == 0 {
		return nil
	}
	n := cands[r.Intn(len(cands))]
	if len(n.Stakers) > *k {
		*k = len(n.Stakers)
	}
	if n.NumDelegates != *k {
		fn := "update_" + kind + "_settings"
		st := map[string]interface{}{"num_delegates": *k}
		meta := map[string]interface{}{"provider_type": kind, "provider_id": n.ID, "settings": st, "delegate_before": n.DelegateID, "scenario": "delegate-limit"}
		in := map[string]interface{}{"simple_miner": map[string]interface{}{"id": n.ID}, "stake_pool": map[string]interface{}{"settings": st}}
		x.sub(mnCall("miner."+fn, "", h.W.Wallets[n.DelegateID], fn, 0, h.fee(r)%1000, in, meta, nil))
		if n.NumDelegates != *k {
			return nil
		}
	}
	cfg := h.mnCfg()
	val := []uint64{1e10, 2e10, 5e10, 1e11}[r.Intn(4)]
	if val < cfg.MinStake {
		val = cfg.MinStake
	}
	in := func() map[string]interface{} {
		return map[string]interface{}{"provider_type": n.PType, "provider_id": n.ID}
	}
	return &skProv{Kind: kind, ID: n.ID, Val: val,
		Lock: func(from *world.Wallet, v uint64, mut string) *Call {
			meta := map[string]interface{}{"provider_type": n.Type, "provider_id": n.ID, "staker": from.ID, "value": v, "sent_provider_type": n.PType, "scenario": "delegate-limit"}
			return mnCall("miner.addToDelegatePool", mut, from, "addToDelegatePool", v, h.fee(r)%1000, in(), meta, nil)
		},
		Unlock: func(from *world.Wallet, mut string) *Call {
			meta := map[string]interface{}{"provider_type": n.Type, "provider_id": n.ID, "staker": from.ID, "sent_provider_type": n.PType, "scenario": "delegate-limit"}
			return mnCall("miner.deleteFromDelegatePool", mut, from, "deleteFromDelegatePool", 0, h.fee(r)%1000, in(), meta, func(h *Hist, o *TxnObs) {
				if o.Outcome == "success" {
					m.Unlocked = append(m.Unlocked, mnStakeRef{n, from})
					if len(m.Unlocked) > 8 {
						m.Unlocked = m.Unlocked[1:]
					}
				}
			})
		}}
}

// a blobber / validator: mostly a freshly registered one with num_delegates = k, otherwise a provider of the set-up whose
// delegate wallet lowers num_delegates through update_*_settings
func (x *skCtx) skStorageTarget(kind string, k *int) *skProv {
	h, r := x.h, x.r
	st := h.S.St
	conf := h.stConf()
	var p *stProv
	list := st.live(st.Blobbers)
	if kind == "validator" {
		list = st.live(st.Validators)
	}
	if len(list) > 0 && r.Chance(0.35) {
		q := list[r.Intn(len(list))]
		sp := h.stakePool(h.Cur, kind, q.W.ID)
		if sp != nil && len(sp.Pools) <= 3 && h.W.Wallets[sp.Delegate] != nil {
			if len(sp.Pools) > *k {
				*k = len(sp.Pools)
			}
			in := map[string]interface{}{"id": q.W.ID, "stake_pool_settings": map[string]interface{}{"num_delegates": *k}}
			c := stCall(h, r, "update_"+kind+"_settings", h.W.Wallets[sp.Delegate], in, 0)
			stProvMeta(c, q)
			c.Meta["kind"], c.Meta["scenario"] = "stake-pool-settings", "delegate-limit"
			if o := x.sub(c); o != nil && o.Outcome == "success" {
				p = q
			}
		}
	}
	if p == nil {
		p = h.stNewProv(r, kind)
		if kind == "blobber" {
			st.Blobbers = append(st.Blobbers, p)
		} else {
			st.Validators = append(st.Validators, p)
		}
		h.stFund(p.W, 2e11)
		h.stFund(p.Del, 2e13)
		charge := 0.05 * float64(r.Intn(5))
		if charge > conf.MaxCharge {
			charge = conf.MaxCharge
		}
		var in map[string]interface{}
		if kind == "blobber" {
			in = stBlobberInput(p, *k, charge)
		} else {
			in = stValidatorInput(p, *k, charge)
		}
		c := stCall(h, r, "add_"+kind, p.W, in, 0)
		stProvMeta(c, p)
		c.Meta["scenario"] = "delegate-limit"
		c.After = func(h *Hist, o *TxnObs) {
			if o.Outcome == "success" {
				p.Reg = true
			}
		}
		x.sub(c)
		if !p.Reg {
			return nil
		}
	}
	val := []uint64{1e10, 1e11, 1e12}[r.Intn(3)]
	if kind == "validator" {
		val = []uint64{1e9, 1e10, 1e11}[r.Intn(3)]
	}
	if val < conf.MinStake {
		val = conf.MinStake
	}
	return &skProv{Kind: kind, ID: p.W.ID, Val: val,
		Lock: func(from *world.Wallet, v uint64, mut string) *Call {
			c := stCall(h, r, "stake_pool_lock", from, stStakeInput(p), v)
			c.Mut = mut
			stProvMeta(c, p)
			c.Meta["scenario"] = "delegate-limit"
			c.After = func(h *Hist, o *TxnObs) {
				if o.Outcome != "success" {
					return
				}
				for _, s := range p.Stakers {
					if s == from {
						return
					}
				}
				p.Stakers = append(p.Stakers, from)
			}
			return c
		},
		Unlock: func(from *world.Wallet, mut string) *Call {
			c := stCall(h, r, "stake_pool_unlock", from, stStakeInput(p), 0)
			c.Mut = mut
			stProvMeta(c, p)
			c.Meta["scenario"] = "delegate-limit"
			c.After = func(h *Hist, o *TxnObs) {
				if o.Outcome != "success" {
					return
				}
				for i, s := range p.Stakers {
					if s == from {
						p.Stakers = append(p.Stakers[:i], p.Stakers[i+1:]...)
						break
					}
				}
			}
			return c
		}}
}

// a freshly registered authorizer with num_delegates = k (registered by the contract owner, as zcn.add-authorizer does)
func (x *skCtx) skAuthorizerTarget(k *int) *skProv {
	h, r := x.h, x.r
	z := h.S.Zc
	sc := zcnsc.ADDRESS
	T := transaction.TxnTypeSmartContract
	z.n++
	a := &authShadow{W: h.W.AddWallet(fmt.Sprintf("%s-auth%d", h.ID, z.n)), Delegate: h.anyClient(r)}
	h.Names[a.W.ID] = fmt.Sprintf("auth%d", z.n)
	in := map[string]interface{}{"public_key": a.W.PubKey, "url": fmt.Sprintf("https://auth%d", z.n),
		"stake_pool_settings": map[string]interface{}{"delegate_wallet": a.Delegate.ID, "num_delegates": *k, "service_charge": []float64{0, 0.1, 0.25}[r.Intn(3)]}}
	c := &Call{Name: "zcn.add-authorizer", Meta: map[string]interface{}{"scenario": "delegate-limit"}, Spec: world.TxnSpec{From: h.W.Owner, To: sc, Fee: Coin(h.fee(r) % 1000), Type: T, Func: "add-authorizer", Input: in}}
	ok := false
	c.After = func(h *Hist, o *TxnObs) {
		if o.Outcome == "success" {
			z.Auths = append(z.Auths, a)
			ok = true
		}
	}
	x.sub(c)
	if !ok {
		return nil
	}
	val := []uint64{1e10, 5e10, 3e12}[r.Intn(3)]
	input := func() map[string]interface{} {
		return map[string]interface{}{"provider_type": 5, "provider_id": a.W.ID}
	}
	return &skProv{Kind: "authorizer", ID: a.W.ID, Val: val,
		Lock: func(from *world.Wallet, v uint64, mut string) *Call {
			c := &Call{Name: "zcn.stake", Mut: mut, Meta: map[string]interface{}{"provider_type": "authorizer", "provider_id": a.W.ID, "stake": "lock", "scenario": "delegate-limit"},
				Spec: world.TxnSpec{From: from, To: sc, Value: Coin(v), Fee: Coin(h.fee(r) % 1000), Type: T, Func: "add-to-delegate-pool", Input: input()}}
			c.After = func(h *Hist, o *TxnObs) {
				if o.Outcome == "success" {
					a.Stakers = append(a.Stakers, from)
				}
			}
			return c
		},
		Unlock: func(from *world.Wallet, mut string) *Call {
			return &Call{Name: "zcn.unstake", Mut: mut, Meta: map[string]interface{}{"provider_type": "authorizer", "provider_id": a.W.ID, "stake": "unlock", "scenario": "delegate-limit"},
				Spec: world.TxnSpec{From: from, To: sc, Fee: Coin(h.fee(r) % 1000), Type: T, Func: "delete-from-delegate-pool", Input: input()}}
		}}
}

// ---- the sequence ------------------------------------------------------------------------------------------------------------

// skPools reads the delegate pools and the provider's own limit back from the current state.
func (x *skCtx) skPools(p *skProv) (ids []string, limit int64, ok bool) {
	sp := x.h.stakePool(x.h.Cur, p.Kind, p.ID)
	if sp == nil {
		return nil, 0, false
	}
	for id := range sp.Pools {
		ids = append(ids, id)
	}
	sort.Strings(ids)
	return ids, sp.MaxDelegates, true
}

// skOutsider returns a funded scenario wallet without a delegate pool at p.
func (x *skCtx) skOutsider(p *skProv, not ...*world.Wallet) *world.Wallet {
	ids, _, _ := x.skPools(p)
	has := map[string]bool{}
	for _, id := range ids {
		has[id] = true
	}
	for _, w := range not {
		has[w.ID] = true
	}
	var c []*world.Wallet
	for _, w := range x.pool {
		if !has[w.ID] {
			c = append(c, w)
		}
	}
	if len(c) == 0 {
		return nil
	}
	return c[x.r.Intn(len(c))]
}

// skMember returns a delegate of p whose key the harness holds (preferring the scenario's own stakers).
func (x *skCtx) skMember(p *skProv) *world.Wallet {
	ids, _, _ := x.skPools(p)
	var own, other []*world.Wallet
	for _, id := range ids {
		w := x.h.W.Wallets[id]
		if w == nil {
			continue
		}
		mine := false
		for _, q := range x.pool {
			mine = mine || q == w
		}
		if mine {
			own = append(own, w)
		} else {
			other = append(other, w)
		}
	}
	if len(own) > 0 && (len(other) == 0 || x.r.Chance(0.7)) {
		return own[x.r.Intn(len(own))]
	}
	if len(other) > 0 {
		return other[x.r.Intn(len(other))]
	}
	return nil
}

func (x *skCtx) skDrive(p *skProv, k int) {
	h, r := x.h, x.r
	ids, limit, ok := x.skPools(p)
	if !ok || limit != int64(k) {
		h.C("C11", "sk_limit_not_in_state:"+p.Kind)
		return
	}
	// fill up to the provider's own limit with distinct clients
	for i := 0; len(ids) < k && i < 6; i++ {
		w := x.skOutsider(p)
		if w == nil {
			break
		}
		x.sub(p.Lock(w, p.Val, ""))
		ids, _, _ = x.skPools(p)
	}
	if len(ids) != k {
		h.C("C11", "sk_not_filled:"+p.Kind)
		return
	}
	h.C("C11", fmt.Sprintf("sk_pool_filled_to_own_limit:%s|k=%d", p.Kind, k))
	stranger := func(tag string) {
		w := x.skOutsider(p)
		if w == nil {
			return
		}
		v := p.Val
		if r.Chance(0.3) {
			v = p.Val * uint64(1+r.Intn(3))
		}
		if o := x.sub(p.Lock(w, v, tag)); o != nil {
			h.C("C11", "sk_full_pool_new_staker:"+p.Kind+"|"+o.Outcome)
		}
	}
	stranger("pool-full-new-staker")
	// an existing delegate may still add to its pool
	if m := x.skMember(p); m != nil {
		if o := x.sub(p.Lock(m, p.Val/2+1, "pool-full-top-up")); o != nil {
			h.C("C11", "sk_full_pool_top_up:"+p.Kind+"|"+o.Outcome)
		}
	}
	if r.Chance(0.3) {
		stranger("pool-full-new-staker")
	}
	// a delegate leaves, somebody new takes the place, the pool is full again
	m := x.skMember(p)
	if m == nil {
		return
	}
	o := x.sub(p.Unlock(m, ""))
	if o == nil || o.Outcome != "success" {
		h.C("C11", "sk_unlock_not_applied:"+p.Kind)
		return
	}
	if r.Chance(0.3) {
		// the one who left comes back instead of a newcomer
		if o := x.sub(p.Lock(m, p.Val, "pool-reopened-returning-staker")); o != nil {
			h.C("C11", "sk_reopened_pool_new_staker:"+p.Kind+"|"+o.Outcome)
		}
	} else if w := x.skOutsider(p, m); w != nil {
		if o := x.sub(p.Lock(w, p.Val, "pool-reopened-new-staker")); o != nil {
			h.C("C11", "sk_reopened_pool_new_staker:"+p.Kind+"|"+o.Outcome)
		}
	}
	if ids, _, _ = x.skPools(p); len(ids) == k {
		stranger("pool-full-again-new-staker")
	}
}

// skTopUpAtMaxStake walks one delegate of the provider up to the max_stake in force with top-up locks: to max_stake - m, then a
// top-up of m+1 (each lock is itself within the bounds, the pool it would leave behind is not), then m (the pool holds exactly
// max_stake). m is min_stake or 1. monC11 judges the pool every applied lock leaves behind against the bounds of the pre-state.
func (x *skCtx) skTopUpAtMaxStake(p *skProv) {
	h := x.h
	addr := map[string]string{"miner": minersc.ADDRESS, "sharder": minersc.ADDRESS, "blobber": storagesc.ADDRESS, "validator": storagesc.ADDRESS, "authorizer": zcnsc.ADDRESS}[p.Kind]
	lo, hi, ok := h.stakeBoundsC11(h.Cur, addr)
	m := x.skMember(p)
	if !ok || m == nil || hi == 0 || hi > 1e16 || lo >= hi {
		h.C("C11", "sk_top_up_at_max:no-target:"+p.Kind)
		return
	}
	sp := h.stakePool(h.Cur, "", p.ID)
	if sp == nil {
		return
	}
	bal := sp.Pools[m.ID].Balance
	step := lo
	if step == 0 {
		step = 1
	}
	if bal+2*step+1 >= hi {
		h.C("C11", "sk_top_up_at_max:already-near:"+p.Kind)
		return
	}
	// funds for the walk
	x.sub(&Call{Name: "send", Meta: map[string]interface{}{"setup": "stake-scenario"}, Spec: world.TxnSpec{From: h.W.Clients[0], To: m.ID, Value: Coin(hi - bal + 1e10), Type: transaction.TxnTypeSend}})
	first := hi - step - bal
	if o := x.sub(p.Lock(m, first, "top-up-to-just-below-max-stake")); o == nil || o.Outcome != "success" {
		h.C("C11", "sk_top_up_at_max:first-refused:"+p.Kind)
		return
	}
	if o := x.sub(p.Lock(m, step+1, "top-up-crossing-max-stake")); o != nil {
		h.C("C11", "sk_top_up_crossing_max_stake:"+p.Kind+"|"+o.Outcome)
	}
	if o := x.sub(p.Lock(m, step, "top-up-to-exactly-max-stake")); o != nil {
		h.C("C11", "sk_top_up_to_exactly_max_stake:"+p.Kind+"|"+o.Outcome)
	}
	if o := x.sub(p.Lock(m, step, "top-up-above-max-stake")); o != nil {
		h.C("C11", "sk_top_up_above_max_stake:"+p.Kind+"|"+o.Outcome)
	}
}
