package schist

// minerShadow is the generator's memory of miner-contract entities (filled in by minerOps).
type minerShadow struct{}

func newMinerShadow() *minerShadow { return &minerShadow{} }

func minerOps() []OpDef { return nil }

// minerSetup registers the initial miners/sharders of a history.
func minerSetup(h *Hist, mons []Monitor) {}
