package schist

import (
	"fmt"
	"os"
	"sort"
	"strings"

	"0chain.net/chaincore/transaction"
	"0chain.net/core/encryption"
	"0chain.net/smartcontract/minersc"
	"0chain.net/smartcontract/provider"

	"verifh/mon"
	"verifh/snap"
	"verifh/world"
)

// Workload generator of the miner smart contract (minersc). Files: miner_ops.go (shadow, state read-back, setup), miner_reg.go
// (add_*, update_*_settings, *_health_check, delete_*), miner_stake.go (addToDelegatePool, deleteFromDelegatePool, collect_reward,
// payFees), miner_gov.go (kill_*, update_settings, update_globals, add_hardfork, DKG functions, gated crashers).
//
// Call.Meta keys set by these ops (facts as the generator constructed them, for monitors):
//   fn                  contract function actually called (always)
//   provider_type       "miner" | "sharder"                       provider_id   id sent / targeted
//   sent_provider_type  numeric provider_type in the payload (stake ops, collect_reward)
//   staker              client id staking / unlocking / collecting; value: tokens sent with a stake
//   settings            the settings map sent (add_*: delegate_wallet, service_charge, num_delegates; update_*_settings;
//                       update_settings / update_globals: key -> string value)
//   registered_before, public_key (add_*); delegate_before (update_*_settings); killed_before, registered (kill_*)
//   owner_call          sender is the currently configured owner of the miner contract (kill_*, update_*, add_hardfork)
//   owner_before        configured owner id before an update_settings
//   round, input_round, is_generator, generator_id, paid_before_in_round, generator_registered, generator_killed (payFees)
//   is_delegate_wallet, expected_delegate_reward, uncollected_service_charge (collect_reward; read from the pre state)
//   fork {name, round}, forks [..], known_forks name->round (add_hardfork); round = round of the transaction
//   setup               "miner" on the per-history set-up transactions
//
// ---- shadow ---------------------------------------------------------------------------------------------------------------
//
// The shadow is only used to build inputs. Whatever can be read back from the state (registration, delegate wallet, settings,
// delegate pools, killed flag) is re-synchronised from the post snapshot after every miner-contract transaction, so the
// generator never drifts from what the contract actually stored (e.g. after a hijacked registration).

// mnNode is one magic-block node (miner or sharder).
type mnNode struct {
	W        *world.Wallet // operational (node) wallet
	ID       string
	Type     string // "miner" | "sharder"
	PType    int    // spenum.Provider value
	Index    int
	Host     string
	Port     int
	Delegate *world.Wallet // delegate wallet the harness planned for this node
	// read back from state
	Registered    bool
	Killed        bool
	DelegateID    string // delegate wallet stored in the contract
	NumDelegates  int
	ServiceCharge float64
	Stakers       []string          // delegate pool ids (client ids) currently in the stake pool
	Hijacked      bool              // stored delegate wallet or public key is not the one the node itself would have registered
	Rewards       map[string]uint64 // uncollected delegate rewards per pool id
	Charge        uint64            // uncollected service charge
	TotalStake    uint64
}

type mnStakeRef struct {
	Node   *mnNode
	Staker *world.Wallet
}

type mnFork struct {
	Name  string
	Round int64
	At    int64 // round at which it was recorded
}

type minerShadow struct {
	inited    bool
	Nodes     []*mnNode
	ByID      map[string]*mnNode
	Delegates []*world.Wallet
	Unlocked  []mnStakeRef // pools that were unlocked (for unlock-twice)
	Killed    []*mnNode
	Forks     map[string]int64 // recorded hard forks: name -> activation round (as accepted by the contract)
	ForkLog   []mnFork
	PaidRound int64 // last round a payFees succeeded in
	PaidCount int   // number of successful payFees in PaidRound
	PaidTotal int
	WantTwice bool              // a second payFees in the current block is planned (hostile)
	Settings  map[string]string // last accepted update_settings values
	Globals   map[string]string // last accepted update_globals values
}

func newMinerShadow() *minerShadow {
	return &minerShadow{ByID: map[string]*mnNode{}, Forks: map[string]int64{}, Settings: map[string]string{}, Globals: map[string]string{}}
}

const (
	mnMiner   = 1 // spenum.Miner
	mnSharder = 2 // spenum.Sharder
)

func (m *minerShadow) init(h *Hist) {
	if m.inited {
		return
	}
	m.inited = true
	add := func(w *world.Wallet, typ string, pt, i int) {
		d := h.W.AddWallet(fmt.Sprintf("mdel-%s%d", typ, i))
		h.Names[d.ID] = d.Name
		port := 7071 + i
		if typ == "sharder" {
			port = 7171 + i
		}
		n := &mnNode{W: w, ID: w.ID, Type: typ, PType: pt, Index: i, Host: fmt.Sprintf("%s%d.verif.test", typ, i), Port: port, Delegate: d}
		m.Nodes = append(m.Nodes, n)
		m.ByID[n.ID] = n
		m.Delegates = append(m.Delegates, d)
	}
	for i, w := range h.W.Miners {
		add(w, "miner", mnMiner, i)
	}
	for i, w := range h.W.Sharders {
		add(w, "sharder", mnSharder, i)
	}
}

func (m *minerShadow) ofType(typ string, pred func(*mnNode) bool) []*mnNode {
	var out []*mnNode
	for _, n := range m.Nodes {
		if n.Type == typ && (pred == nil || pred(n)) {
			out = append(out, n)
		}
	}
	return out
}

func (m *minerShadow) anyNode(r *mon.Rand, pred func(*mnNode) bool) *mnNode {
	var c []*mnNode
	for _, n := range m.Nodes {
		if pred == nil || pred(n) {
			c = append(c, n)
		}
	}
	if len(c) == 0 {
		return nil
	}
	return c[r.Intn(len(c))]
}

func mnLive(n *mnNode) bool { return n.Registered && !n.Killed }

// ---- state read-back ---------------------------------------------------------------------------------------------------------

func mnNodeFrom(s snap.Snapshot, id string) *minersc.MinerNode {
	raw, ok := s[encryption.Hash(provider.GetKey(id))]
	if !ok {
		return nil
	}
	mn := minersc.NewMinerNode()
	if _, err := mn.UnmarshalMsg(raw); err != nil {
		return nil
	}
	if mn.SimpleNode == nil || mn.StakePool == nil {
		return nil
	}
	return mn
}

func mnGlobalFrom(s snap.Snapshot) *minersc.GlobalNode {
	raw, ok := s[encryption.Hash(minersc.GlobalNodeKey)]
	if !ok {
		return nil
	}
	gn := &minersc.GlobalNode{}
	if _, err := gn.UnmarshalMsg(raw); err != nil {
		return nil
	}
	return gn
}

// mnCfg is the part of the contract configuration the generator needs to aim inside / outside the limits.
type mnCfg struct {
	MinStake, MaxStake uint64
	MaxDelegates       int
	MaxCharge          float64
	OwnerID            string
	Gn                 *minersc.GlobalNode // nil if the global node could not be read
}

func (h *Hist) mnCfg() mnCfg {
	c := mnCfg{MinStake: 0, MaxStake: 2e14, MaxDelegates: 200, MaxCharge: 0.5, OwnerID: h.W.Owner.ID}
	if gn := mnGlobalFrom(h.Cur); gn != nil {
		c.MinStake, c.MaxStake, c.MaxDelegates, c.MaxCharge, c.OwnerID, c.Gn = uint64(gn.MinStake), uint64(gn.MaxStake), gn.MaxDelegates, gn.MaxCharge, gn.OwnerId, gn
	}
	return c
}

// mnOwner is the wallet currently configured as owner of the miner contract (nil if the harness holds no key for it).
func (h *Hist) mnOwner() *world.Wallet { return h.W.Wallets[h.mnCfg().OwnerID] }

// mnSync re-reads every magic-block node from a snapshot.
func (h *Hist) mnSync(s snap.Snapshot) {
	m := h.S.Mn
	defer func() {
		m.Killed = m.Killed[:0]
		for _, n := range m.Nodes {
			if n.Registered && n.Killed {
				m.Killed = append(m.Killed, n)
			}
		}
	}()
	for _, n := range m.Nodes {
		mn := mnNodeFrom(s, n.ID)
		if mn == nil {
			n.Registered, n.Killed, n.Stakers, n.DelegateID = false, false, nil, ""
			continue
		}
		if (n.Type == "miner") != (int(mn.ProviderType) == mnMiner) {
			// registered under the other provider type (hostile cross registration)
			n.Registered = false
			continue
		}
		n.Registered = true
		n.Killed = mn.SimpleNode.HasBeenKilled || mn.StakePool.HasBeenKilled
		n.DelegateID = mn.Settings.DelegateWallet
		n.NumDelegates = mn.Settings.MaxNumDelegates
		n.ServiceCharge = mn.Settings.ServiceChargeRatio
		n.Hijacked = n.DelegateID != n.Delegate.ID || mn.PublicKey != n.W.PubKey
		n.Stakers = n.Stakers[:0]
		n.Rewards = map[string]uint64{}
		n.Charge = uint64(mn.Reward)
		n.TotalStake = 0
		for id, dp := range mn.Pools {
			n.Stakers = append(n.Stakers, id)
			n.TotalStake += uint64(dp.Balance)
			if dp.Reward > 0 {
				n.Rewards[id] = uint64(dp.Reward)
			}
		}
		sort.Strings(n.Stakers)
	}
}

// mnAfter is the After hook shared by all miner ops.
func mnAfter(extra func(h *Hist, o *TxnObs)) func(h *Hist, o *TxnObs) {
	return func(h *Hist, o *TxnObs) {
		if o.Outcome == "success" {
			h.mnSync(o.Post)
		}
		if extra != nil {
			extra(h, o)
		}
	}
}

// mnForeign returns the wallet of a provider of ANOTHER contract (blobber, validator, authorizer) that is registered in the
// current state; its node lives in the same "provider:<id>" key space as miners and sharders. nil if there is none.
func (h *Hist) mnForeign(r *mon.Rand) *world.Wallet {
	var ids []string
	for id, name := range h.Names {
		if (strings.HasPrefix(name, "blobber") || strings.HasPrefix(name, "validator") || strings.HasPrefix(name, "authorizer")) && h.W.Wallets[id] != nil {
			if _, ok := h.Cur[encryption.Hash(provider.GetKey(id))]; ok {
				ids = append(ids, id)
			}
		}
	}
	if len(ids) == 0 {
		return nil
	}
	sort.Strings(ids)
	return h.W.Wallets[ids[r.Intn(len(ids))]]
}

// mnRound is the round the next submitted transaction will execute in.
func (h *Hist) mnRound() int64 {
	if h.BC == nil {
		return h.Round + 1
	}
	return h.Round
}

// mnGenerator is the wallet of the generator of the block the next transaction will execute in (world.NewBlock rule).
func (h *Hist) mnGenerator() *world.Wallet {
	r := h.mnRound()
	return h.W.Miners[int(r)%len(h.W.Miners)]
}

// mnStakerPool are the wallets that stake.
func (h *Hist) mnStakerPool() []*world.Wallet {
	var out []*world.Wallet
	out = append(out, h.W.Clients...)
	out = append(out, h.S.Mn.Delegates...)
	out = append(out, h.W.Owner)
	out = append(out, h.W.Miners...)
	out = append(out, h.W.Sharders...)
	return out
}

func mnCall(name, mut string, from *world.Wallet, fn string, value uint64, fee uint64, in interface{}, meta map[string]interface{}, after func(h *Hist, o *TxnObs)) *Call {
	if meta == nil {
		meta = map[string]interface{}{}
	}
	meta["fn"] = fn
	c := &Call{Name: name, Mut: mut, Meta: meta, Spec: world.TxnSpec{From: from, To: minersc.ADDRESS, Value: Coin(value), Fee: Coin(fee), Type: transaction.TxnTypeSmartContract, Func: fn}}
	if raw, ok := in.([]byte); ok {
		c.Spec.RawInput = raw
	} else {
		c.Spec.Input = in
	}
	c.After = mnAfter(after)
	return c
}

// mnCrashers: inputs that panic inside contract code. Smart contracts run in a goroutine without recover, so such a panic kills
// the process (the harness child, and a real miner / sharder alike). They are off by default so that the rest of the workload keeps
// running. VERIF_MINER_CRASHERS selects them:
//
//	0  add_miner / add_sharder            {"simple_miner":{..},"stake_pool":null}  from any client -> nil deref miner.go:56
//	1  update_miner|sharder_settings      {"simple_miner":{"id":..},"stake_pool":null} from any client -> nil deref miner.go:253
//	2  update_miner|sharder_settings      {"simple_miner":null}                    from any client -> nil deref miner.go:160
//	3  update_miner|sharder_settings      null                                     from any client -> nil deref miner.go:253
//	e  update_settings {"epoch":"0"} (owner), then any payFees                     -> integer divide by zero models.go:584
//	n  update_settings {"num_sharders_rewarded":"0"} (owner), then any payFees     -> integer divide by zero fees.go:551
//	f  update_settings {"block_reward"|"min_stake"|"max_stake"|"min_stake_per_delegate":"NaN"|"Inf"} (owner)
//	                                                                               -> decimal "Cannot create a Decimal from NaN"
//	r, s  update_settings {"reward_rate":"NaN"} / {"share_ratio":"NaN"} (owner): no crash, but payFees then books rewards of
//	   about 2^63 tokens per block (r) or always fails (s)
//
// anything longer (e.g. "all") = all of them.
func mnCrashers(which string) bool {
	v := os.Getenv("VERIF_MINER_CRASHERS")
	if v == "" {
		return false
	}
	if len(v) == 1 && (v[0] >= '0' && v[0] <= '9' || v[0] >= 'a' && v[0] <= 'z') {
		return which == v || (which == "input" && v[0] >= '0' && v[0] <= '9')
	}
	return true
}

// ---- payloads ------------------------------------------------------------------------------------------------------------------

func mnSettings(delegate string, charge float64, nd int) map[string]interface{} {
	return map[string]interface{}{"delegate_wallet": delegate, "service_charge": charge, "num_delegates": nd}
}

func mnPayload(id, pub, host string, port int, settings map[string]interface{}) map[string]interface{} {
	return map[string]interface{}{
		"simple_miner": map[string]interface{}{"id": id, "public_key": pub, "n2n_host": host, "host": host, "port": port, "path": "", "short_name": host, "build_tag": "verif"},
		"stake_pool":   map[string]interface{}{"settings": settings},
	}
}

func (n *mnNode) addFn() string {
	if n.Type == "miner" {
		return "add_miner"
	}
	return "add_sharder"
}

func (n *mnNode) meta() map[string]interface{} {
	return map[string]interface{}{"provider_type": n.Type, "provider_id": n.ID}
}

// ---- setup ----------------------------------------------------------------------------------------------------------------------

// minerSetup registers the magic-block miners and sharders and gives them delegates, so that payFees has somebody to pay.
func minerSetup(h *Hist, mons []Monitor) {
	m := h.S.Mn
	m.init(h)
	r := h.R.Fork("miner-setup")
	sub := func(c *Call) *TxnObs {
		if c == nil {
			return nil
		}
		o := h.Submit(c, mons)
		if h.TxInBlk >= 4 {
			h.EndBlock()
		}
		return o
	}
	rich := h.W.Clients[0]
	// delegate wallets need tokens to stake
	for _, d := range m.Delegates {
		sub(&Call{Name: "send", Meta: map[string]interface{}{"setup": "miner"}, Spec: world.TxnSpec{From: rich, To: d.ID, Value: Coin(3e14), Fee: 0, Type: transaction.TxnTypeSend}})
	}
	// leave some nodes unregistered (at least two miners and one sharder are registered): the history itself can then register
	// them, and hostile registrations get past the "already exists" early return
	skip := map[*mnNode]bool{}
	miners, sharders := m.ofType("miner", nil), m.ofType("sharder", nil)
	for _, n := range miners {
		if r.Chance(0.3) && len(miners)-len(skip) > 2 {
			skip[n] = true
		}
	}
	ns := 0
	for _, n := range sharders {
		if r.Chance(0.35) && len(sharders)-ns > 1 {
			skip[n] = true
			ns++
		}
	}
	charges := []float64{0.1, 0, 0.5, 0.25, 0.05, 0.33}
	for _, n := range m.Nodes {
		if skip[n] {
			continue
		}
		nd := []int{10, 2, 5, 200, 3, 1}[r.Intn(6)]
		st := mnSettings(n.Delegate.ID, charges[r.Intn(len(charges))], nd)
		meta := n.meta()
		meta["settings"] = st
		meta["setup"] = "miner"
		sub(mnCall("miner."+n.addFn(), "", n.W, n.addFn(), 0, 0, mnPayload(n.ID, n.W.PubKey, n.Host, n.Port, st), meta, nil))
	}
	h.EndBlock()
	// stakes: the delegate wallet itself and one or two clients per node; one node may stay below min_stake_per_delegate
	for _, n := range m.Nodes {
		if !n.Registered {
			continue
		}
		stakers := []*world.Wallet{n.Delegate}
		k := 1 + r.Intn(2)
		for i := 0; i < k && len(stakers) < n.NumDelegates; i++ {
			stakers = append(stakers, h.W.Clients[1+r.Intn(len(h.W.Clients)-1)])
		}
		if n.NumDelegates < len(stakers) {
			stakers = stakers[:n.NumDelegates]
		}
		for i, s := range stakers {
			v := []uint64{1e10, 5e10, 1e11, 1e12, 123456789012, 3e13}[r.Intn(6)]
			if i == 0 && r.Chance(0.15) {
				v = 5e9 // alone this is below min_stake_per_delegate: no rewards until somebody else stakes
			}
			meta := n.meta()
			meta["staker"] = s.ID
			meta["setup"] = "miner"
			sub(mnCall("miner.addToDelegatePool", "", s, "addToDelegatePool", v, 0, map[string]interface{}{"provider_type": n.PType, "provider_id": n.ID}, meta, nil))
		}
	}
	h.EndBlock()
}

// minerOps is the catalogue of the miner contract.
func minerOps() []OpDef {
	var ops []OpDef
	ops = append(ops, minerRegOps()...)
	ops = append(ops, minerStakeOps()...)
	ops = append(ops, minerGovOps()...)
	for i := range ops {
		inner := ops[i].Build
		ops[i].Build = func(h *Hist, r *mon.Rand) *Call {
			h.S.Mn.init(h)
			return inner(h, r)
		}
	}
	return ops
}
