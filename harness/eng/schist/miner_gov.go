package schist

import (
	"encoding/json"
	"fmt"
	"os"
	"sort"
	"strconv"

	"verifh/mon"
	"verifh/world"
)

// kill, configuration, hard forks, DKG / view-change functions

type mnKV struct{ K, V string }

// valid miner-contract settings (key -> values that pass parsing and GlobalNode.validate and keep the contract usable)
var mnValidSettings = []struct {
	K string
	V []string
}{
	{"min_stake", []string{"0", "0.1", "1", "0.000001"}},
	{"min_stake_per_delegate", []string{"1", "0.5", "0", "2"}},
	{"max_stake", []string{"20000", "10000", "500", "100000"}},
	{"max_n", []string{"7", "8", "100"}},
	{"min_n", []string{"3", "2", "1"}},
	{"t_percent", []string{"0.66", "0.51"}},
	{"k_percent", []string{"0.75", "0.8"}},
	{"x_percent", []string{"0.70", "0.5"}},
	{"max_s", []string{"2", "3", "30"}},
	{"min_s", []string{"1", "2"}},
	{"max_delegates", []string{"200", "10", "3", "1000"}},
	{"reward_round_frequency", []string{"250", "10", "3", "1", "0"}},
	{"reward_rate", []string{"1.0", "0.5", "0.9", "0"}},
	{"share_ratio", []string{"0.16", "0.5", "0", "1", "0.333"}},
	{"block_reward", []string{"0.068", "0.1", "0", "1.5", "0.0000000007"}},
	{"max_charge", []string{"0.5", "0.3", "1.0", "0.05"}},
	{"epoch", []string{"125000000", "50", "7", "1"}},
	{"reward_decline_rate", []string{"0.1", "0", "0.5", "1"}},
	{"num_miner_delegates_rewarded", []string{"10", "1", "2", "0"}},
	{"num_sharders_rewarded", []string{"1", "2", "3", "5"}}, // "0" passes validation and makes the next payFees divide by zero: see mnCrashers
	{"num_sharder_delegates_rewarded", []string{"5", "1", "0"}},
	{"cooldown_period", []string{"100", "0", "5"}},
	{"health_check_period", []string{"90m", "1h", "10s"}},
	{"cost.add_miner", []string{"361", "0", "1000"}},
	{"cost.payfees", []string{"1356", "10"}},
	{"cost.addtodelegatepool", []string{"186", "1"}},
	{"cost.collect_reward", []string{"230", "5"}},
	{"cost.kill_miner", []string{"146"}},
}

var mnBadSettings = []mnKV{
	{"no_such_key", "1"}, {"", "1"}, {"MAX_N", "7"}, {"cost.", "1"}, {"owner", "00"}, {"view_change", "5"}, {"last_round", "1"},
	{"max_n", "seven"}, {"max_n", "7.5"}, {"min_stake", "abc"}, {"min_stake", "-1"}, {"max_stake", "1e30"}, {"block_reward", "not-a-number"}, {"block_reward", "-0.5"},
	{"reward_rate", "1,0"}, {"epoch", "9223372036854775808"}, {"health_check_period", "5 parsecs"}, {"owner_id", "not-hex"}, {"cost.add_miner", "x"}, {"cost.add_miner", "1.5"},
	{"min_n", "0"}, {"max_n", "1"}, {"min_s", "0"}, {"max_s", "0"}, {"max_delegates", "0"}, {"max_delegates", "-5"},
	{"num_miner_delegates_rewarded", "-1"}, {"num_sharders_rewarded", "-1"}, {"num_sharder_delegates_rewarded", "-2"},
	{"share_ratio", "1.5"}, {"share_ratio", "-0.5"}, {"reward_rate", "-1"}, {"reward_rate", "1e300"}, {"max_charge", "-1"}, {"reward_decline_rate", "2"},
}

// mutable global settings with values of the right type
var mnValidGlobals = []struct {
	K string
	V []string
}{
	{"server_chain.block.min_block_size", []string{"1", "2", "0", "+3"}},
	{"server_chain.block.max_block_size", []string{"100", "250", "2147483647", "0100"}}, // int32: the largest value that fits
	{"server_chain.block.max_block_cost", []string{"10000", "20000"}},
	{"server_chain.block.max_byte_size", []string{"1638400", "3276800", "9223372036854775807", "4294967296"}}, // int64
	{"server_chain.block.replicators", []string{"0", "1"}},
	{"server_chain.block.generation.timeout", []string{"15", "30"}},
	{"server_chain.block.generation.retry_wait_time", []string{"5", "7"}},
	{"server_chain.block.proposal.max_wait_time", []string{"180ms", "1s", "1.5s", "0", "1h30m", "250000us"}},
	{"server_chain.block.proposal.wait_mode", []string{"static", "dynamic"}},
	{"server_chain.block.consensus.threshold_by_count", []string{"66", "60"}},
	{"server_chain.block.consensus.threshold_by_stake", []string{"0", "10"}},
	{"server_chain.block.sharding.min_active_sharders", []string{"25", "50"}},
	{"server_chain.block.sharding.min_active_replicators", []string{"25"}},
	{"server_chain.block.validation.batch_size", []string{"1000", "500"}},
	{"server_chain.block.reuse_txns", []string{"false", "true", "1", "0", "T", "False"}},
	{"server_chain.block.finalization.timeout", []string{"30s", "0.5m", "30000ms"}},
	{"server_chain.block.min_generators", []string{"2", "1"}},
	{"server_chain.block.generators_percent", []string{"0.2", "0.5", ".25", "5e-1", "1"}},
	{"server_chain.round_range", []string{"10000000", "500", "9223372036854775807", "2147483648"}}, // int64
	{"server_chain.round_timeouts.softto_min", []string{"1500", "3000"}},
	{"server_chain.round_timeouts.softto_mult", []string{"1"}},
	{"server_chain.round_timeouts.round_restart_mult", []string{"10"}},
	{"server_chain.round_timeouts.timeout_cap", []string{"1", "0"}},
	{"server_chain.transaction.payload.max_size", []string{"98304", "1000"}},
	{"server_chain.transaction.min_fee", []string{"0", "0.001"}},
	{"server_chain.transaction.max_fee", []string{"0.01", "1"}},
	{"server_chain.transaction.exempt", []string{"contributeMpk,shareSignsOrShares,wait", "pour"}},
	{"server_chain.transaction.cost_fee_coeff", []string{"1000000", "1"}},
	{"server_chain.transaction.future_nonce", []string{"100", "10"}},
	{"server_chain.client.signature_scheme", []string{"bls0chain", "ed25519"}},
	{"server_chain.messages.verification_tickets_to", []string{"all_miners", "generator"}},
	{"server_chain.state.prune_below_count", []string{"100"}},
	{"server_chain.state.sync.timeout", []string{"10s"}},
	{"server_chain.stuck.check_interval", []string{"10s", "1m30s", "90s"}},
	{"server_chain.stuck.time_threshold", []string{"60s"}},
	{"server_chain.smart_contract.timeout", []string{"8000ms", "60s"}},
	{"server_chain.smart_contract.setting_update_period", []string{"200", "1"}},
	{"server_chain.lfb_ticket.rebroadcast_timeout", []string{"15s", "0.25m", "15000000000ns"}},
	{"server_chain.lfb_ticket.ahead", []string{"5", "2147483648", "-1"}}, // int: 64 bit
	{"server_chain.async_blocks_fetching.max_simultaneous_from_miners", []string{"100", "4294967306", "9223372036854775807"}},
	{"server_chain.async_blocks_fetching.max_simultaneous_from_sharders", []string{"30"}},
	{"server_chain.block_rewards", []string{"true", "false"}},
	{"server_chain.dbs.settings.debug", []string{"true", "false"}},
	{"server_chain.dbs.settings.aggregate_period", []string{"10", "100"}},
	{"server_chain.dbs.settings.page_limit", []string{"50", "9223372036854775807", "-9223372036854775808"}},
}

var mnBadGlobals = append([]struct {
	K, V, Class string
}{
	{"server_chain.owner", "00", "immutable"}, {"server_chain.state.enabled", "false", "immutable"}, {"server_chain.dkg", "false", "immutable"},
	{"server_chain.smart_contract.miner", "false", "immutable"}, {"server_chain.smart_contract.storage", "false", "immutable"}, {"server_chain.smart_contract.faucet", "false", "immutable"},
	{"server_chain.smart_contract.zcn", "false", "immutable"}, {"server_chain.transaction.timeout", "1", "immutable"}, {"server_chain.client.discover", "true", "immutable"},
	{"server_chain.dbs.events.enabled", "true", "immutable"}, {"server_chain.dbs.events.host", "evil", "immutable"}, {"server_chain.dbs.events.password", "x", "immutable"}, {"server_chain.health_check.show_counters", "true", "immutable"}, {"server_chain.health_check.deep_scan.enabled", "true", "immutable"},
	{"server_chain.nope", "1", "unknown"}, {"", "1", "unknown"}, {"max_n", "7", "unknown"}, {"invalid", "1", "unknown"}, {"SERVER_CHAIN.ROUND_RANGE", "5", "unknown"},
	{"server_chain.block.max_block_size", "abc", "unparsable"}, {"server_chain.block.max_block_size", "99999999999", "unparsable"}, {"server_chain.block.proposal.max_wait_time", "5 parsecs", "unparsable"},
	{"server_chain.block.reuse_txns", "maybe", "unparsable"}, {"server_chain.block.generators_percent", "1,5", "unparsable"}, {"server_chain.round_range", "9223372036854775808", "unparsable"},
	{"server_chain.transaction.min_fee", "free", "unparsable"}, {"server_chain.block.max_block_cost", "", "unparsable"},
	// boundary spellings written out (the generated list below has them for every numeric / duration / boolean mutable global)
	{"server_chain.block.max_block_size", "2147483648", "unparsable"}, {"server_chain.block.max_block_size", "4294967306", "unparsable"}, {"server_chain.block.min_block_size", "-2147483649", "unparsable"},
	{"server_chain.block.min_block_size", "9223372036854775807", "unparsable"}, {"server_chain.block.max_block_cost", "9223372036854775808", "unparsable"}, {"server_chain.block.max_byte_size", "-9223372036854775809", "unparsable"},
	{"server_chain.block.replicators", "1.0", "unparsable"}, {"server_chain.block.min_generators", "1e3", "unparsable"}, {"server_chain.transaction.future_nonce", "99999999999999999999999999", "unparsable"},
	{"server_chain.block.generation.timeout", "15s", "unparsable"}, {"server_chain.smart_contract.timeout", "8000", "unparsable"}, {"server_chain.block.finalization.timeout", "1d", "unparsable"}, {"server_chain.state.sync.timeout", "10 s", "unparsable"},
	{"server_chain.transaction.max_fee", "1e400", "unparsable"}, {"server_chain.block_rewards", "yes", "unparsable"},
}, gfBadBoundaryGlobals()...)

func minerGovOps() []OpDef {
	kill := func(typ string) func(h *Hist, r *mon.Rand) *Call {
		return func(h *Hist, r *mon.Rand) *Call {
			m := h.S.Mn
			hp := h.hostile()
			fn := "kill_" + typ
			owner := h.mnOwner()
			live := m.ofType(typ, mnLive)
			dead := m.ofType(typ, func(n *mnNode) bool { return n.Registered && n.Killed })
			var n *mnNode
			from := owner
			mut := ""
			id := ""
			switch {
			case r.Chance(hp * 0.5):
				n = m.anyNode(r, func(n *mnNode) bool { return n.Type == typ })
				id = n.ID
				switch r.Intn(4) {
				case 0:
					from = h.anyClient(r)
					mut = "not-owner"
				case 1:
					from = n.W
					mut = "node-itself"
				case 2:
					from = n.Delegate
					mut = "delegate-wallet"
				case 3:
					from = h.S.Extra[r.Intn(len(h.S.Extra))]
					mut = "stranger"
				}
			case len(dead) > 0 && r.Chance(0.2+hp*0.4):
				n = dead[r.Intn(len(dead))]
				id = n.ID
				mut = "kill-twice"
			case r.Chance(hp * 0.3):
				n = m.anyNode(r, func(n *mnNode) bool { return n.Type != typ })
				id = n.ID
				mut = "wrong-type"
			case r.Chance(hp * 0.2):
				id = []string{h.anyClient(r).ID, "", "nope"}[r.Intn(3)]
				mut = "unknown-provider"
				if f := h.mnForeign(r); f != nil && r.Chance(0.5) {
					id = f.ID // a blobber / validator / authorizer: same "provider:<id>" key space, other node type
					mut = "foreign-provider-id"
				}
			default:
				// killing is permanent: keep at least two live miners / one live sharder, and kill rarely
				min := 2
				if typ == "sharder" {
					min = 1
				}
				if len(live) <= min || !r.Chance(0.25) {
					return nil
				}
				n = live[r.Intn(len(live))]
				id = n.ID
			}
			if from == nil { // the harness holds no key for the configured owner any more
				from = h.W.Owner
				if mut == "" {
					mut = "former-owner"
				}
			}
			meta := map[string]interface{}{"provider_type": typ, "provider_id": id, "owner_call": owner != nil && from.ID == owner.ID}
			if n != nil {
				meta["killed_before"] = n.Killed
				meta["registered"] = n.Registered
			}
			return mnCall("miner."+fn, mut, from, fn, 0, h.fee(r)%1000, map[string]interface{}{"provider_id": id}, meta, nil)
		}
	}

	govCaller := func(h *Hist, r *mon.Rand, p float64) (*world.Wallet, string) {
		owner := h.mnOwner()
		if owner == nil {
			return h.W.Owner, "former-owner"
		}
		if r.Chance(p) {
			w := h.anyWallet(r)
			if w.ID != owner.ID {
				return w, "not-owner"
			}
		}
		return owner, ""
	}

	updateSettings := func(h *Hist, r *mon.Rand) *Call {
		m := h.S.Mn
		hp := h.hostile()
		from, mut := govCaller(h, r, hp*0.3)
		fields := map[string]string{}
		n := 1 + r.Intn(3)
		if r.Chance(0.2) {
			n = 1 + r.Intn(6)
		}
		for i := 0; i < n; i++ {
			e := mnValidSettings[r.Intn(len(mnValidSettings))]
			fields[e.K] = e.V[r.Intn(len(e.V))]
		}
		if r.Chance(0.1) {
			fields["owner_id"] = h.mnCfg().OwnerID // unchanged owner, valid hex
		}
		// some hostile values are accepted by the contract (it does not range-check them) and would make every later
		// registration / stake / fee payment fail: the owner repairs them most of the time
		if gn := h.mnCfg().Gn; gn != nil && r.Chance(0.7) {
			fix := map[string]string{}
			if gn.MaxCharge <= 0 || gn.MaxCharge > 1 {
				fix["max_charge"] = "0.5"
			}
			if gn.ShareRatio < 0 || gn.ShareRatio > 1 {
				fix["share_ratio"] = "0.16"
			}
			if gn.RewardRate < 0 || gn.RewardRate > 1 {
				fix["reward_rate"] = "1.0"
			}
			if gn.RewardDeclineRate < 0 || gn.RewardDeclineRate > 1 {
				fix["reward_decline_rate"] = "0.1"
			}
			if gn.MinStake > gn.MaxStake || gn.MaxStake < 1e11 {
				fix["min_stake"], fix["max_stake"] = "0", "20000"
			}
			if gn.MaxDelegates < 3 {
				fix["max_delegates"] = "200"
			}
			if len(fix) > 0 {
				fields = fix
			}
		}
		// consistent pairs
		if a, ok := fields["min_stake"]; ok {
			if b, ok := fields["max_stake"]; ok {
				fa, _ := strconv.ParseFloat(a, 64)
				fb, _ := strconv.ParseFloat(b, 64)
				if fa > fb {
					delete(fields, "min_stake")
				}
			}
		}
		var raw []byte
		if mut == "" && r.Chance(hp*0.7) {
			switch r.Intn(6) {
			case 0, 1, 2: // mix in 1..3 bad entries
				k := 1 + r.Intn(3)
				for i := 0; i < k; i++ {
					b := mnBadSettings[r.Intn(len(mnBadSettings))]
					fields[b.K] = b.V
				}
				if r.Chance(0.6) {
					// a valid cost entry in front of the entry that makes the call fail: the cost table is a map inside the
					// settings node, nothing of it may stick
					c := [][2]string{{"cost.add_miner", "77"}, {"cost.add_sharder", "78"}, {"cost.addtodelegatepool", "3"}, {"cost.collect_reward", "4"}}[r.Intn(4)]
					fields[c[0]] = c[1]
				}
				mut = "bad-entries"
			case 3: // only bad entries
				fields = map[string]string{}
				b := mnBadSettings[r.Intn(len(mnBadSettings))]
				fields[b.K] = b.V
				mut = "bad-entry"
			case 4: // hand the contract to another wallet the harness holds (and it can hand it back later)
				if r.Chance(0.3) {
					w := []*world.Wallet{h.W.Owner, h.W.Clients[1], h.W.Clients[2]}[r.Intn(3)]
					fields = map[string]string{"owner_id": w.ID}
					mut = "owner-change"
				} else {
					fields["min_stake"], fields["max_stake"] = "10", "5" // min above max: not validated
					mut = "min-above-max"
				}
			case 5:
				raw = [][]byte{[]byte(`null`), []byte(`{"fields":[]}`), []byte(`{"fields":{"max_n":7}}`), []byte(`[]`), []byte(`{"fields":null}`), []byte(`{}`), []byte(`7`)}[r.Intn(7)]
				mut = "garbage-input"
			}
		}
		// owner-supplied values that crash the process (see mnCrashers): e/n crash the next payFees, f crashes update_settings itself;
		// r/s (NaN ratios) do not crash: payFees then pays rewards of ~2^63 tokens per block out of the contract wallet
		var cr []string
		for _, c := range []string{"e", "n", "f", "r", "s"} {
			if mnCrashers(c) {
				cr = append(cr, c)
			}
		}
		if len(cr) > 0 && (len(cr) == 1 || r.Chance(0.3)) {
			switch cr[r.Intn(len(cr))] {
			case "e":
				fields = map[string]string{"epoch": "0"} // payFees computes round % epoch
				mut = "epoch-zero"
			case "n":
				fields = map[string]string{"num_sharders_rewarded": "0"} // payFees distributes the sharder reward over 0 sharders
				mut = "no-sharders-rewarded"
			case "f":
				fields = map[string]string{[]string{"block_reward", "min_stake", "max_stake", "min_stake_per_delegate"}[r.Intn(4)]: []string{"NaN", "Inf", "-Inf"}[r.Intn(3)]}
				mut = "coin-nan"
			case "r":
				fields = map[string]string{"reward_rate": "NaN"}
				mut = "reward-rate-nan"
			case "s":
				fields = map[string]string{"share_ratio": "NaN"}
				mut = "share-ratio-nan"
			}
			if o := h.mnOwner(); o != nil {
				from = o
			}
			raw = nil
		}
		st := map[string]interface{}{}
		for k, v := range fields {
			st[k] = v
		}
		meta := map[string]interface{}{"settings": st, "owner_call": h.mnOwner() != nil && from.ID == h.mnOwner().ID, "owner_before": h.mnCfg().OwnerID}
		var in interface{} = map[string]interface{}{"fields": fields}
		if raw != nil {
			in = raw
		}
		return mnCall("miner.update_settings", mut, from, "update_settings", 0, h.fee(r)%1000, in, meta, func(h *Hist, o *TxnObs) {
			if o.Outcome == "success" && raw == nil {
				for k, v := range fields {
					m.Settings[k] = v
				}
			}
		})
	}

	updateGlobals := func(h *Hist, r *mon.Rand) *Call {
		m := h.S.Mn
		hp := h.hostile()
		from, mut := govCaller(h, r, hp*0.3)
		fields := map[string]string{}
		n := 1 + r.Intn(3)
		if r.Chance(0.2) {
			n = 1 + r.Intn(6)
		}
		for i := 0; i < n; i++ {
			e := mnValidGlobals[r.Intn(len(mnValidGlobals))]
			fields[e.K] = e.V[r.Intn(len(e.V))]
		}
		classes := map[string]bool{}
		var raw []byte
		if r.Chance(0.03 + hp*0.1) { // mutable on-chain switches of the view change / other contracts
			e := [][2]string{{"server_chain.view_change", "true"}, {"server_chain.view_change", "false"}, {"server_chain.smart_contract.multisig", "true"}, {"server_chain.smart_contract.vesting", "true"}}[r.Intn(4)]
			fields[e[0]] = e[1]
		}
		if mut == "" && r.Chance(hp*0.7) {
			switch r.Intn(5) {
			case 0, 1, 2:
				k := 1 + r.Intn(3)
				for i := 0; i < k; i++ {
					b := mnBadGlobals[r.Intn(len(mnBadGlobals))]
					fields[b.K] = b.V
					classes[b.Class] = true
				}
				mut = "bad-entries"
			case 3:
				fields = map[string]string{}
				b := mnBadGlobals[r.Intn(len(mnBadGlobals))]
				fields[b.K] = b.V
				classes[b.Class] = true
				mut = "bad-entry"
			case 4:
				raw = [][]byte{[]byte(`null`), []byte(`{"fields":[]}`), []byte(`{"fields":{"server_chain.round_range":5}}`), []byte(`[]`), []byte(`{}`), []byte(`7`)}[r.Intn(6)]
				mut = "garbage-input"
			}
		}
		// boundary values of the setting's kind (just inside / outside int32 and int64, float spellings, durations without unit, ...)
		// mixed into an ordinary update or sent alone; accept / reject is not predicted here, the monitors judge what gets stored.
		// Only when C48 itself is checked: engines that finalize blocks apply the stored globals to the harness' own chain.
		if h.Focus == "C48" && mut == "" && raw == nil && r.Chance(0.3) {
			k, v := gfEdgeEntry(r)
			if r.Chance(0.5) {
				fields = map[string]string{}
			}
			fields[k] = v
			mut = "edge-value"
		}
		if mut == "bad-entries" || mut == "bad-entry" {
			var cs []string
			for c := range classes {
				cs = append(cs, c)
			}
			sort.Strings(cs)
			mut += ":" + fmt.Sprint(cs)
		}
		st := map[string]interface{}{}
		for k, v := range fields {
			st[k] = v
		}
		meta := map[string]interface{}{"settings": st, "owner_call": h.mnOwner() != nil && from.ID == h.mnOwner().ID}
		var in interface{} = map[string]interface{}{"fields": fields}
		if raw != nil {
			in = raw
		}
		return mnCall("miner.update_globals", mut, from, "update_globals", 0, h.fee(r)%1000, in, meta, func(h *Hist, o *TxnObs) {
			if o.Outcome == "success" && raw == nil {
				for k, v := range fields {
					m.Globals[k] = v
				}
			}
		})
	}

	addHardfork := func(h *Hist, r *mon.Rand) *Call {
		m := h.S.Mn
		hp := h.hostile()
		from, mut := govCaller(h, r, hp*0.35)
		round := h.mnRound()
		names := []string{"demeter", "electra", "ares", "apollo", "hermes", "athena", fmt.Sprintf("verif-%d", r.Intn(4))}
		pickRound := func() int64 {
			switch r.Intn(8) {
			case 0:
				return round // activates in this very block
			case 1:
				return round + 1
			case 2:
				return round + int64(2+r.Intn(10))
			case 3:
				return round + int64(20+r.Intn(100))
			case 4:
				if round > 1 {
					return round - 1 - int64(r.Intn(int(round-1))) // in the past
				}
				return 0
			case 5:
				return 0
			case 6:
				return 1 << 40
			default:
				return round + int64(r.Intn(5))
			}
		}
		fields := map[string]string{}
		var forks []map[string]interface{}
		k := 1
		if r.Chance(0.2) {
			k = 2 + r.Intn(2)
		}
		for i := 0; i < k; i++ {
			nm := names[r.Intn(len(names))]
			if _, dup := fields[nm]; dup {
				continue
			}
			if _, known := m.Forks[nm]; known && !r.Chance(0.3+hp) {
				continue // re-recording an existing fork (moves its round) only now and then
			}
			rd := pickRound()
			fields[nm] = strconv.FormatInt(rd, 10)
			forks = append(forks, map[string]interface{}{"name": nm, "round": rd})
		}
		if len(fields) == 0 {
			return nil
		}
		var raw []byte
		if mut == "" && r.Chance(hp*0.5) {
			switch r.Intn(5) {
			case 0:
				bad := names[r.Intn(len(names))]
				fields[bad] = []string{"soon", "1.5", "", "9223372036854775808", "0x10"}[r.Intn(5)]
				for i := 0; i < len(forks); i++ {
					if forks[i]["name"] == bad {
						forks = append(forks[:i], forks[i+1:]...)
						i--
					}
				}
				mut = "unparsable-round"
			case 1:
				fields["zz-late"] = "-5"
				forks = append(forks, map[string]interface{}{"name": "zz-late", "round": int64(-5)})
				mut = "negative-round"
			case 2:
				fields[""] = "5"
				forks = append(forks, map[string]interface{}{"name": "", "round": int64(5)})
				mut = "empty-name"
			case 3: // valid first entries, failing last entry (sorted order): nothing must stick
				fields["zzz"] = "x"
				mut = "partial-failure"
			case 4:
				raw = [][]byte{[]byte(`null`), []byte(`{"fields":{"demeter":5}}`), []byte(`[]`), []byte(`{}`), []byte(`7`)}[r.Intn(5)]
				mut = "garbage-input"
			}
		}
		sort.Slice(forks, func(i, j int) bool { return forks[i]["name"].(string) < forks[j]["name"].(string) })
		meta := map[string]interface{}{"forks": forks, "round": round, "owner_call": h.mnOwner() != nil && from.ID == h.mnOwner().ID, "known_forks": mnCopyForks(m.Forks)}
		if len(forks) > 0 {
			meta["fork"] = forks[0]
		}
		var in interface{} = map[string]interface{}{"fields": fields}
		if raw != nil {
			in = raw
		}
		return mnCall("miner.add_hardfork", mut, from, "add_hardfork", 0, h.fee(r)%1000, in, meta, func(h *Hist, o *TxnObs) {
			if o.Outcome != "success" || raw != nil {
				return
			}
			for nm, v := range fields {
				if rd, err := strconv.ParseInt(v, 10, 64); err == nil {
					m.Forks[nm] = rd
					m.ForkLog = append(m.ForkLog, mnFork{Name: nm, Round: rd, At: o.PreRound})
				}
			}
		})
	}

	// DKG / view change: with view change off the phase node never leaves "start", so these fail at the phase check; the payloads
	// are nevertheless well formed.
	dkgSender := func(h *Hist, r *mon.Rand, typ string) (*mnNode, *world.Wallet, string) {
		m := h.S.Mn
		n := m.anyNode(r, func(n *mnNode) bool { return n.Type == typ })
		if r.Chance(h.hostile() * 0.4) {
			return n, h.anyWallet(r), "not-a-node"
		}
		return n, n.W, ""
	}
	sharderKeep := func(h *Hist, r *mon.Rand) *Call {
		n, from, mut := dkgSender(h, r, "sharder")
		in := mnPayload(n.ID, n.W.PubKey, n.Host, n.Port, mnSettings(n.Delegate.ID, 0.1, 10))
		return mnCall("miner.sharder_keep", mut, from, "sharder_keep", 0, h.fee(r)%1000, in, n.meta(), nil)
	}
	contributeMpk := func(h *Hist, r *mon.Rand) *Call {
		n, from, mut := dkgSender(h, r, "miner")
		t := (len(h.W.Miners)*66 + 99) / 100
		if r.Chance(h.hostile() * 0.3) {
			t += 1 - 2*r.Intn(2)
			mut = "mpk-size"
		}
		var mpk []string
		for i := 0; i < t; i++ {
			mpk = append(mpk, h.W.Miners[(n.Index+i)%len(h.W.Miners)].PubKey)
		}
		return mnCall("miner.contributeMpk", mut, from, "contributeMpk", 0, h.fee(r)%1000, map[string]interface{}{"ID": from.ID, "Mpk": mpk}, n.meta(), nil)
	}
	shareSigns := func(h *Hist, r *mon.Rand) *Call {
		n, from, mut := dkgSender(h, r, "miner")
		shares := map[string]interface{}{}
		for _, o := range h.W.Miners {
			if o.ID == n.ID {
				continue
			}
			msg := fmt.Sprintf("%064x", r.U64())
			shares[o.ID] = map[string]interface{}{"id": o.ID, "message": msg, "share": "", "sign": o.Sign(msg)}
		}
		return mnCall("miner.shareSignsOrShares", mut, from, "shareSignsOrShares", 0, h.fee(r)%1000, map[string]interface{}{"id": from.ID, "share_or_sign": shares}, n.meta(), nil)
	}
	wait := func(h *Hist, r *mon.Rand) *Call {
		n, from, mut := dkgSender(h, r, "miner")
		return mnCall("miner.wait", mut, from, "wait", 0, h.fee(r)%1000, map[string]interface{}{}, n.meta(), nil)
	}

	// crashers: inputs that make contract code dereference a nil pointer (see mnCrashers)
	crasher := func(h *Hist, r *mon.Rand) *Call {
		if !mnCrashers("input") {
			return nil
		}
		m := h.S.Mn
		n := m.anyNode(r, nil)
		which := r.Intn(4)
		if v := os.Getenv("VERIF_MINER_CRASHERS"); len(v) == 1 && v[0] >= '0' && v[0] <= '9' {
			which = int(v[0] - '0')
		}
		upd := "update_" + n.Type + "_settings"
		switch which {
		case 0:
			p := mnPayload(n.ID, n.W.PubKey, n.Host, n.Port, nil)
			p["stake_pool"] = nil
			raw, _ := json.Marshal(p)
			return mnCall("miner."+n.addFn(), "null-stake-pool", h.anyClient(r), n.addFn(), 0, 0, raw, n.meta(), nil)
		case 1:
			return mnCall("miner."+upd, "null-stake-pool", h.anyClient(r), upd, 0, 0, []byte(`{"simple_miner":{"id":"`+n.ID+`"},"stake_pool":null}`), n.meta(), nil)
		case 2:
			return mnCall("miner."+upd, "null-simple-miner", h.anyClient(r), upd, 0, 0, []byte(`{"simple_miner":null}`), n.meta(), nil)
		default:
			return mnCall("miner."+upd, "null-input", h.anyClient(r), upd, 0, 0, []byte(`null`), n.meta(), nil)
		}
	}

	return []OpDef{
		{Name: "miner.kill_miner", Tags: []string{"miner", "kill", "C23"}, Build: kill("miner")},
		{Name: "miner.kill_sharder", Tags: []string{"miner", "kill", "C23"}, Build: kill("sharder")},
		{Name: "miner.update_settings", Tags: []string{"miner", "gov", "C48"}, Build: updateSettings},
		{Name: "miner.update_globals", Tags: []string{"miner", "gov", "C48", "vc"}, Build: updateGlobals},
		{Name: "miner.add_hardfork", Tags: []string{"miner", "gov", "hardfork", "C43"}, Build: addHardfork},
		{Name: "miner.sharder_keep", Tags: []string{"miner", "vc"}, Build: sharderKeep},
		{Name: "miner.contributeMpk", Tags: []string{"miner", "vc"}, Build: contributeMpk},
		{Name: "miner.shareSignsOrShares", Tags: []string{"miner", "vc"}, Build: shareSigns},
		{Name: "miner.wait", Tags: []string{"miner", "vc"}, Build: wait},
		{Name: "miner.crasher", Tags: []string{"miner"}, Build: crasher},
	}
}

func mnCopyForks(f map[string]int64) map[string]int64 {
	out := map[string]int64{}
	for k, v := range f {
		out[k] = v
	}
	return out
}
