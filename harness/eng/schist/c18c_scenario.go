package schist

import (
	"encoding/json"
	"fmt"

	"0chain.net/chaincore/transaction"
	"0chain.net/smartcontract/zcnsc"

	"verifh/mon"
	"verifh/world"
)

// Directed scenario (C18): long runs of successful mints, then earlier nonces again.
//
// "Each mint nonce succeeds at most once" has to hold for every history of prior mints. The contract remembers the minted nonces
// in a partitioned list (partition size 5): the five most recent ones sit in the open Last partition that travels with the
// partitions node, every older one is packed into a partition of its own key and found only through a per-item location record.
// A short history (fewer than six successful mints) therefore exercises the Last partition only. Every history here
//
//	registers    2-4 authorizers (all of them sign every request, so the quorum holds for every configured fraction), stakes one
//	mints        12-30 distinct nonces successfully, for one or for several receiving clients, ascending / descending / shuffled /
//	             with gaps and very large nonces, spread over blocks of 1-6 (or 4-9) transactions. Now and then a request that
//	             fails AFTER the nonce was booked (a forged signature) goes first: the booking - sometimes the packing of a full
//	             partition - has to be rolled back and the valid request with that nonce has to be the one and only success
//	re-submits   earlier nonces: in the block in which a full partition has just been packed (nonces of the partition packed a
//	             moment ago, of older ones, of the new Last one) and in the next block; after the run a sweep over the 1st, 3rd,
//	             5th, 6th, 10th, 11th successful mint, the last packed one, the first and the most recent one of the Last partition,
//	             the middle of the middle partition and random ones; then a few more new nonces and the former Last ones again.
//	             Payload variants: the ORIGINAL payload byte for byte in a new transaction, freshly signed with the same fields,
//	             with another burn reference, another amount, another receiving client, another amount and receiver.
//
// All of them are ordinary mint transactions through h.Submit; the C18 monitor judges them with its own set of nonces that
// succeeded before (and quorum, submitter, amount split as for every mint). The scenario only counts, from its own record of the
// order of the successful mints and the partition size, how many re-submissions aimed at a nonce outside the Last partition.

const (
	mncPartSize      = 5 // wzcnMintedNoncePartitionSize (zcnsc/nonce_partitions.go, anchor of the property)
	mncPackedCounter = "mnc:resubmissions_of_nonce_in_packed_partition"
)

func init() {
	RegisterScenario(Scenario{Prop: "C18", Name: "long-mint-runs-then-old-nonces-again", Every: 1, Fn: mncScenario})
	if schistMins["C18"] == nil {
		schistMins["C18"] = map[string]int64{}
	}
	schistMins["C18"][mncPackedCounter] = 150
}

func mncCount(h *Hist, k string) { h.C("C18", "mnc:"+k) }

// mncMint is one mint request as submitted.
type mncMint struct {
	nonce  int64
	eth    string
	amount uint64
	recv   *world.Wallet
	sigs   []map[string]string
	raw    []byte // the input exactly as it went into the transaction
}

type mncRun struct {
	h        *Hist
	r        *mon.Rand
	mons     []Monitor
	succ     []int64            // nonces of the successful mints of this history, in order (the scenario's own record)
	first    map[int64]int      // position in succ of the first success of a nonce
	pay      map[int64]*mncMint // the request of that first success
	recvs    []*world.Wallet
	longBlk  bool
	packRnd  int64 // round of the block in which the latest packing mint ran
	ethN     int
	resubs   int
	variants []string
	vi       int
}

var mncVariants = []string{"replay-bytes", "resigned-same-fields", "new-burn-ref", "other-amount", "other-receiver", "other-amount-and-receiver", "replay-bytes"}

// mncPacked: does the successful mint at position pos sit outside the Last partition, given n successful mints so far?
// Items are appended to Last; a full Last (5 items) is packed by the next addition.
func mncPacked(pos, n int) bool {
	if n == 0 {
		return false
	}
	return pos/mncPartSize < (n-1)/mncPartSize
}

func (x *mncRun) submit(c *Call) *TxnObs {
	h := x.h
	o := h.Submit(c, x.mons)
	if o.Outcome != "rejected" {
		h.S.Accepted = append(h.S.Accepted, o.Txn)
		if len(h.S.Accepted) > 64 {
			h.S.Accepted = h.S.Accepted[1:]
		}
	}
	return o
}

// endBlockMaybe seals the block after 1-6 (4-9) transactions.
func (x *mncRun) endBlockMaybe() {
	lim := 1 + x.r.Intn(6)
	if x.longBlk {
		lim = 4 + x.r.Intn(6)
	}
	if x.h.TxInBlk >= lim {
		x.h.EndBlock()
		x.h.advanceTime(x.r)
	}
}

func (x *mncRun) newEth() string {
	x.ethN++
	return fmt.Sprintf("0xmnc%s-%d-%d", x.h.ID, x.ethN, x.r.Intn(100000))
}

// amount: at or above both configured floors (minimum mint amount, maximum fee)
func (x *mncRun) amount() uint64 {
	h := x.h
	minMint, _ := zbMinimums(h)
	base := uint64(2e10)
	if minMint > base {
		base = minMint
	}
	for _, n := range h.NodesOfType(h.Cur, "*zcnsc.GlobalNode") {
		if f := U(n.Val, "ZCNSConfig.MaxFee"); f > base {
			base = f
		}
	}
	return base + []uint64{0, 1, 1e10, 5e11, 1e12 - 1, 3e12, 7}[x.r.Intn(7)]
}

// build signs a request with every live authorizer (in random order); forged: one signature comes from a client's key instead.
func (x *mncRun) build(nonce int64, eth string, amount uint64, recv *world.Wallet, forged bool) *mncMint {
	h, r := x.h, x.r
	l := zcLive(h)
	toSign := mintStringToSign(eth, amount, nonce, recv.ID)
	var sigs []map[string]string
	for _, a := range l {
		sigs = append(sigs, map[string]string{"authorizer_id": a.W.ID, "signature": a.W.Sign(toSign)})
	}
	r.Shuffle(len(sigs), func(i, j int) { sigs[i], sigs[j] = sigs[j], sigs[i] })
	if forged && len(sigs) > 0 {
		sigs[r.Intn(len(sigs))]["signature"] = h.anyClient(r).Sign(toSign)
	}
	raw, err := json.Marshal(map[string]interface{}{"ethereum_txn_id": eth, "amount": amount, "nonce": nonce, "receiving_client_id": recv.ID, "signatures": sigs})
	if err != nil {
		panic(err)
	}
	return &mncMint{nonce: nonce, eth: eth, amount: amount, recv: recv, sigs: sigs, raw: raw}
}

// send submits a request in a new transaction of its receiving client and keeps the scenario's record of successes.
func (x *mncRun) send(m *mncMint, kind, mut string) *TxnObs {
	h := x.h
	z := h.S.Zc
	meta := map[string]interface{}{
		"mint":         map[string]interface{}{"eth": m.eth, "amount": m.amount, "nonce": m.nonce, "recv": m.recv.ID, "sigs": m.sigs},
		"c18_directed": "mnc-" + kind, "scenario": "mnc",
	}
	c := &Call{Name: "zcn.mint", Mut: mut, Meta: meta, Spec: world.TxnSpec{From: m.recv, To: zcnsc.ADDRESS, Fee: Coin(h.fee(x.r) % 1000),
		Type: transaction.TxnTypeSmartContract, Func: "mint", RawInput: m.raw}}
	o := x.submit(c)
	if o.Outcome == "success" {
		if len(x.succ) > 0 && len(x.succ)%mncPartSize == 0 {
			x.packRnd = h.Round
			mncCount(h, "packing_mints")
		}
		x.succ = append(x.succ, m.nonce)
		if _, ok := x.first[m.nonce]; !ok {
			x.first[m.nonce] = len(x.succ) - 1
			x.pay[m.nonce] = m
		}
		// generator memory shared with the random mint operation
		z.Minted = append(z.Minted, m.nonce)
		if z.MintedEth == nil {
			z.MintedEth = map[int64]string{}
		}
		z.MintedEth[m.nonce] = m.eth
		for {
			if _, ok := x.first[z.NextNonce]; !ok {
				break
			}
			z.NextNonce++
		}
	}
	return o
}

func (x *mncRun) anyRecv() *world.Wallet { return x.recvs[x.r.Intn(len(x.recvs))] }

// fresh mints a nonce that has not succeeded before; now and then a request with a forged signature goes first.
func (x *mncRun) fresh(nonce int64) {
	h, r := x.h, x.r
	recv := x.anyRecv()
	if r.Chance(0.12) {
		o := x.send(x.build(nonce, x.newEth(), x.amount(), recv, true), "forged-first", "forged-signature")
		mncCount(h, fmt.Sprintf("forged_request_before_valid|would_pack=%v|%s", len(x.succ) > 0 && len(x.succ)%mncPartSize == 0, o.Outcome))
	}
	o := x.send(x.build(nonce, x.newEth(), x.amount(), recv, false), "fresh", "")
	mncCount(h, "fresh_mint|"+o.Outcome)
}

func (x *mncRun) nextVariant() string {
	if x.vi%len(x.variants) == 0 {
		x.r.Shuffle(len(x.variants), func(i, j int) { x.variants[i], x.variants[j] = x.variants[j], x.variants[i] })
	}
	v := x.variants[x.vi%len(x.variants)]
	x.vi++
	return v
}

// resubmit sends the nonce of the successful mint at position pos again.
func (x *mncRun) resubmit(pos int, variant, when string) {
	h, r := x.h, x.r
	if pos < 0 || pos >= len(x.succ) {
		return
	}
	nonce := x.succ[pos]
	orig := x.pay[nonce]
	pos = x.first[nonce]
	if orig == nil {
		return
	}
	other := func() *world.Wallet {
		for i := 0; i < 8; i++ {
			if w := h.anyClient(r); w != orig.recv {
				return w
			}
		}
		return orig.recv
	}
	otherAmount := func() uint64 {
		a := x.amount()
		if a == orig.amount {
			a++
		}
		return a
	}
	var m *mncMint
	switch variant {
	case "replay-bytes":
		m = &mncMint{nonce: nonce, eth: orig.eth, amount: orig.amount, recv: orig.recv, sigs: orig.sigs, raw: orig.raw}
	case "resigned-same-fields":
		m = x.build(nonce, orig.eth, orig.amount, orig.recv, false)
	case "new-burn-ref":
		m = x.build(nonce, x.newEth(), orig.amount, orig.recv, false)
	case "other-amount":
		m = x.build(nonce, orig.eth, otherAmount(), orig.recv, false)
	case "other-receiver":
		m = x.build(nonce, orig.eth, orig.amount, other(), false)
	default:
		m = x.build(nonce, x.newEth(), otherAmount(), other(), false)
	}
	n := len(x.succ)
	packed := mncPacked(pos, n)
	sameBlock := h.BC != nil && x.packRnd == h.Round
	where := "last-partition"
	if packed {
		where = "packed-partition"
		h.C("C18", mncPackedCounter)
		if sameBlock {
			mncCount(h, "resubmissions_of_packed_nonce_in_block_of_packing_mint")
		}
	} else {
		mncCount(h, "resubmissions_of_nonce_in_last_partition")
	}
	o := x.send(m, variant, "nonce-reuse-"+variant)
	x.resubs++
	mncCount(h, fmt.Sprintf("resubmit:%s|%s|%s", variant, where, o.Outcome))
	mncCount(h, fmt.Sprintf("resubmit_when:%s|%s|%s", when, where, o.Outcome))
	if run := h.Runs["C18"]; run != nil {
		part := "first"
		switch p, lastPacked := pos/mncPartSize, (n-1)/mncPartSize-1; {
		case !packed:
			part = "last"
		case p == 0:
			part = "first"
		case p == lastPacked:
			part = "latest-packed"
		default:
			part = "middle"
		}
		run.Distinct(fmt.Sprintf("mnc|%s|part=%s|slot=%d|packed_parts=%d|same_block_as_pack=%v|recvs=%d|%s", variant, part, pos%mncPartSize, (n-1)/mncPartSize, sameBlock, len(x.recvs), o.Outcome))
	}
}

// packBlock: the Last partition is full. One block holds the mint that packs it and, right behind it, re-submissions of nonces
// of the partition packed a moment ago, of an older one and of the new Last one; the next block repeats one of them.
func (x *mncRun) packBlock(nonce int64) {
	h, r := x.h, x.r
	if r.Chance(0.7) {
		h.EndBlock()
		h.advanceTime(r)
	}
	x.fresh(nonce)
	n := len(x.succ)
	if n < mncPartSize+1 || n%mncPartSize != 1 {
		return // the mint did not succeed
	}
	lo := n - 1 - mncPartSize // first position of the partition packed by this mint
	targets := []int{lo + []int{0, mncPartSize - 1}[r.Intn(2)], lo + r.Intn(mncPartSize)}
	if lo > 0 && r.Chance(0.6) {
		targets = append(targets, r.Intn(lo))
	}
	if r.Chance(0.4) {
		targets = append(targets, n-1)
	}
	for _, t := range targets {
		x.resubmit(t, x.nextVariant(), "in-block-of-packing-mint")
	}
	h.EndBlock()
	h.advanceTime(r)
	x.resubmit(targets[r.Intn(2)], x.nextVariant(), "block-after-packing-mint")
	x.endBlockMaybe()
}

// nonceSet: n distinct positive nonces not used so far, in the order in which they will be minted.
func (x *mncRun) nonceSet(n int) (out []int64, mode string) {
	r := x.r
	base := x.h.S.Zc.NextNonce
	for i := 0; i < n; i++ {
		out = append(out, base+int64(i))
	}
	switch r.Intn(5) {
	case 0:
		mode = "ascending"
	case 1:
		mode = "descending"
		for i, j := 0, len(out)-1; i < j; i, j = i+1, j-1 {
			out[i], out[j] = out[j], out[i]
		}
	case 2:
		mode = "shuffled"
		r.Shuffle(len(out), func(i, j int) { out[i], out[j] = out[j], out[i] })
	case 3:
		mode = "gaps-and-large"
		cur := base
		for i := range out {
			cur += int64(1 + r.Intn(4)*r.Intn(50))
			out[i] = cur
			if r.Chance(0.15) {
				out[i] = 1<<40 + cur
			}
			if r.Chance(0.05) {
				out[i] = 1<<62 + cur
			}
		}
		if r.Chance(0.6) {
			r.Shuffle(len(out), func(i, j int) { out[i], out[j] = out[j], out[i] })
		}
	default:
		mode = "ascending-with-swaps"
		for k := 0; k < n/3; k++ {
			i := r.Intn(n - 1)
			out[i], out[i+1] = out[i+1], out[i]
		}
	}
	return
}

func mncScenario(h *Hist, mons []Monitor) {
	r := h.R.Fork("c18c-long-mint-runs")
	x := &mncRun{h: h, r: r, mons: mons, first: map[int64]int{}, pay: map[int64]*mncMint{}, packRnd: -1, longBlk: r.Chance(0.3),
		variants: append([]string{}, mncVariants...)}
	z := h.S.Zc
	// successful mints of this history so far (none when this scenario runs first)
	for i, n := range z.Minted {
		x.succ = append(x.succ, n)
		if _, ok := x.first[n]; !ok {
			x.first[n] = i
		}
	}
	byName := map[string]OpDef{}
	for _, op := range zcnOps() {
		byName[op.Name] = op
	}
	want := 2 + r.Intn(3)
	for try := 0; len(zcLive(h)) < want && try < 12; try++ {
		if c := byName["zcn.add-authorizer"].Build(h, r); c != nil {
			x.submit(c)
			x.endBlockMaybe()
		}
	}
	if len(zcLive(h)) == 0 {
		mncCount(h, "no_authorizer_registered")
		return
	}
	if c := byName["zcn.stake"].Build(h, r); c != nil && r.Chance(0.7) {
		x.submit(c)
		x.endBlockMaybe()
	}
	// receiving clients: one, or several
	nr := 1
	if r.Chance(0.6) {
		nr = 2 + r.Intn(3)
	}
	perm := make([]int, len(h.W.Clients))
	for i := range perm {
		perm[i] = i
	}
	r.Shuffle(len(perm), func(i, j int) { perm[i], perm[j] = perm[j], perm[i] })
	for i := 0; i < nr && i < len(perm); i++ {
		x.recvs = append(x.recvs, h.W.Clients[perm[i]])
	}
	n := 12 + r.Intn(19)
	if r.Chance(0.5) {
		n = 12 + r.Intn(8)
	}
	nonces, mode := x.nonceSet(n)
	mncCount(h, "order:"+mode)
	mncCount(h, fmt.Sprintf("receivers=%d", len(x.recvs)))
	packBlocks := 0
	for _, nonce := range nonces {
		full := len(x.succ) > 0 && len(x.succ)%mncPartSize == 0 // the next successful mint packs the Last partition
		if full && (packBlocks == 0 || r.Chance(0.3)) {
			packBlocks++
			x.packBlock(nonce)
			continue
		}
		x.fresh(nonce)
		x.endBlockMaybe()
		if len(x.succ) > mncPartSize && r.Chance(0.06) {
			x.resubmit(r.Intn(len(x.succ)), x.nextVariant(), "during-run")
			x.endBlockMaybe()
		}
	}
	h.EndBlock()
	h.advanceTime(r)
	mncCount(h, fmt.Sprintf("run_packed_partitions=%d", (len(x.succ)-1)/mncPartSize))
	// the sweep
	ns := len(x.succ)
	lastLo := (ns - 1) / mncPartSize * mncPartSize // first position of the Last partition
	cand := []int{0, 2, 4, 5, 9, 10, lastLo - 1, lastLo, ns - 1, (lastLo/mncPartSize/2)*mncPartSize + 2, r.Intn(ns), r.Intn(ns)}
	r.Shuffle(len(cand), func(i, j int) { cand[i], cand[j] = cand[j], cand[i] })
	seen := map[int]bool{}
	k := 0
	for _, p := range cand {
		if p < 0 || p >= ns || seen[p] || k >= 9 {
			continue
		}
		seen[p] = true
		k++
		x.resubmit(p, x.nextVariant(), "sweep-after-run")
		x.endBlockMaybe()
	}
	// a few more new nonces move the Last partition on; what was in Last during the sweep is asked for again
	var top int64
	for _, v := range x.succ {
		if v > top && v < 1<<40 {
			top = v
		}
	}
	for i, more := 0, 2+r.Intn(5); i < more; i++ {
		top++
		x.fresh(top)
		x.endBlockMaybe()
	}
	for i := 0; i < 3; i++ {
		p := lastLo + r.Intn(ns-lastLo)
		if i == 2 {
			p = r.Intn(len(x.succ))
		}
		x.resubmit(p, x.nextVariant(), "after-more-mints")
		x.endBlockMaybe()
	}
	h.EndBlock()
	h.advanceTime(r)
}
