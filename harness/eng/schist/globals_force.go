package schist

// C48, last clause: "the settings in force for a block are the same on every node".
//
// A node puts the on-chain global settings in force through Chain.updateConfig -> ConfigImpl.Update(fields, version); every typed
// read there falls back to the node's OWN local configuration (viper / 0chain.yaml) when the stored string does not parse for the
// type the consumer reads. So a value that update_globals accepts and stores, but that the consumer cannot use, silently leaves every
// node on its private local value.
//
// Oracle (two-node differential, after every successful miner update_globals):
//   - the stored *minersc.GlobalSettings (Fields, Version) of the POST state is fed through the real ConfigImpl.FromViper + Update
//     for two simulated nodes A and B whose local values of EVERY global key differ;
//   - per key the set of ConfigImpl getters the key drives is calibrated once per process: the getters that differ between A and B
//     with nothing stored and agree when a small valid value is stored for that key alone;
//   - every driven getter must also agree between A and B for the value actually stored on chain (in isolation and in the context of
//     the whole stored map). Otherwise `stored-global-not-in-force:<key>`; a consumer that panics on the stored value is
//     `stored-global-crashes-consumer:<key>`.
//   - rule checks on the state diff: a changed key must be one marked mutable (harness reference list AND the repository's table), known,
//     not one of the entries the workload labels as rejectable, and a change of the stored map must advance the version (nodes apply
//     a settings map only when its version is higher than the one they hold).
//
// Workload: gfScenarioC48 sweeps, over the histories of a run, every (mutable global, boundary value of its kind) pair as a single-field
// owner transaction; the random update_globals builder mixes boundary values into ordinary updates (C48 runs only).

import (
	"encoding/json"
	"fmt"
	"reflect"
	"sort"
	"strconv"
	"strings"
	"time"

	"0chain.net/chaincore/chain"
	"0chain.net/core/config"
	"0chain.net/core/encryption"
	"0chain.net/core/viper"
	"0chain.net/smartcontract/minersc"

	"verifh/mon"
	"verifh/snap"
)

type gfKind int

const (
	gfBool gfKind = iota
	gfInt
	gfInt32
	gfInt64
	gfDur
	gfFloat
	gfStr
	gfStrs
)

var gfKindName = map[gfKind]string{gfBool: "bool", gfInt: "int", gfInt32: "int32", gfInt64: "int64", gfDur: "duration", gfFloat: "float64", gfStr: "string", gfStrs: "strings"}

// gfMutable is the harness' reference list of the global settings marked mutable, with the type their value has (read off
// core/config/globals.go at the pinned commit; kept here so that a change of the repository's table shows up as a disagreement).
var gfMutable = map[string]gfKind{
	"server_chain.view_change":                                          gfBool,
	"server_chain.block_rewards":                                        gfBool,
	"server_chain.smart_contract.multisig":                              gfBool,
	"server_chain.smart_contract.vesting":                               gfBool,
	"server_chain.block.min_block_size":                                 gfInt32,
	"server_chain.block.max_block_size":                                 gfInt32,
	"server_chain.block.max_block_cost":                                 gfInt,
	"server_chain.block.max_byte_size":                                  gfInt64,
	"server_chain.block.replicators":                                    gfInt,
	"server_chain.block.generation.timeout":                             gfInt,
	"server_chain.block.generation.retry_wait_time":                     gfInt,
	"server_chain.block.proposal.max_wait_time":                         gfDur,
	"server_chain.block.proposal.wait_mode":                             gfStr,
	"server_chain.block.consensus.threshold_by_count":                   gfInt,
	"server_chain.block.consensus.threshold_by_stake":                   gfInt,
	"server_chain.block.sharding.min_active_sharders":                   gfInt,
	"server_chain.block.sharding.min_active_replicators":                gfInt,
	"server_chain.block.validation.batch_size":                          gfInt,
	"server_chain.block.reuse_txns":                                     gfBool,
	"server_chain.block.finalization.timeout":                           gfDur,
	"server_chain.block.min_generators":                                 gfInt,
	"server_chain.block.generators_percent":                             gfFloat,
	"server_chain.round_range":                                          gfInt64,
	"server_chain.round_timeouts.softto_min":                            gfInt,
	"server_chain.round_timeouts.softto_mult":                           gfInt,
	"server_chain.round_timeouts.round_restart_mult":                    gfInt,
	"server_chain.round_timeouts.timeout_cap":                           gfInt,
	"server_chain.transaction.payload.max_size":                         gfInt,
	"server_chain.transaction.min_fee":                                  gfFloat,
	"server_chain.transaction.max_fee":                                  gfFloat,
	"server_chain.transaction.exempt":                                   gfStrs,
	"server_chain.transaction.cost_fee_coeff":                           gfInt,
	"server_chain.transaction.future_nonce":                             gfInt,
	"server_chain.client.signature_scheme":                              gfStr,
	"server_chain.messages.verification_tickets_to":                     gfStr,
	"server_chain.state.prune_below_count":                              gfInt,
	"server_chain.state.sync.timeout":                                   gfDur,
	"server_chain.stuck.check_interval":                                 gfDur,
	"server_chain.stuck.time_threshold":                                 gfDur,
	"server_chain.smart_contract.timeout":                               gfDur,
	"server_chain.smart_contract.setting_update_period":                 gfInt64,
	"server_chain.lfb_ticket.rebroadcast_timeout":                       gfDur,
	"server_chain.lfb_ticket.ahead":                                     gfInt,
	"server_chain.async_blocks_fetching.max_simultaneous_from_miners":   gfInt,
	"server_chain.async_blocks_fetching.max_simultaneous_from_sharders": gfInt,
	"server_chain.dbs.settings.debug":                                   gfBool,
	"server_chain.dbs.settings.aggregate_period":                        gfInt64,
	"server_chain.dbs.settings.partition_change_period":                 gfInt64,
	"server_chain.dbs.settings.partition_keep_count":                    gfInt64,
	"server_chain.dbs.settings.rolling_partition_change_period":         gfInt64,
	"server_chain.dbs.settings.rolling_partition_keep_count":            gfInt64,
	"server_chain.dbs.settings.page_limit":                              gfInt64,
}

// gfKindOfKey: the reference kind of a mutable key, otherwise the kind the repository declares (needed only to give the two
// simulated nodes well-formed, different local values for the immutable / local-only keys too).
func gfKindOfKey(key string) (gfKind, bool) {
	if k, ok := gfMutable[key]; ok {
		return k, true
	}
	info, ok := config.GlobalSettingInfo[key]
	if !ok {
		return gfStr, false
	}
	switch info.SettingType {
	case config.Int:
		return gfInt, true
	case config.Int32:
		return gfInt32, true
	case config.Int64:
		return gfInt64, true
	case config.Duration:
		return gfDur, true
	case config.Float64:
		return gfFloat, true
	case config.Boolean:
		return gfBool, true
	case config.Strings:
		return gfStrs, true
	}
	return gfStr, true
}

// ---- boundary values ---------------------------------------------------------------------------------------------------------------------

var gfIntEdges = []string{
	"0", "-1", "1", "+5", "007", "2147483647", "2147483648", "-2147483648", "-2147483649", "4294967295", "4294967296", "4294967306",
	"9223372036854775807", "9223372036854775808", "-9223372036854775808", "-9223372036854775809", "18446744073709551616",
	"99999999999999999999999999", "1.0", "100.0", "1e3", "0x10", "1_000", " 7", "7 ", "",
}

var gfDurEdges = []string{
	"15", "0", "1.5", "1.5s", "-5s", "1h", "1h30m", "1d", "10 s", "1e3ms", "1ns", "1us", ".5s", "s", "+3s", "9223372036854775807ns",
	"9223372036854775808ns", "2562047h47m16.854775807s", "2562048h", "",
}

var gfFloatEdges = []string{
	"0", "1", "-1", "-0.001", ".5", "5.", "5e-1", "1e30", "1e-11", "0.00000000001", "0.12345678901", "1e9", "922337203.6854775807", "922337203.7", "1e18",
	"NaN", "Inf", "-Inf", "1e400", "0x1p-2", "1_0", "1,5", "",
}

var gfBoolEdges = []string{"1", "0", "t", "F", "TRUE", "True", "tRuE", "yes", "on", ""}

var gfStrsEdges = []string{"", ",", "a,,b", " pour", "pour,pour"}

var gfStrEdges = map[string][]string{
	"server_chain.block.proposal.wait_mode":         {"static", "dynamic", "Static", "", "adaptive"},
	"server_chain.messages.verification_tickets_to": {"all_miners", "generator", "", "11", "everyone"},
	"server_chain.client.signature_scheme":          {"bls0chain", "ed25519", "", "rsa"},
}

func gfEdges(key string, k gfKind) []string {
	switch k {
	case gfInt, gfInt32, gfInt64:
		return gfIntEdges
	case gfDur:
		return gfDurEdges
	case gfFloat:
		return gfFloatEdges
	case gfBool:
		return gfBoolEdges
	case gfStrs:
		return gfStrsEdges
	}
	return gfStrEdges[key]
}

// gfRefParses: does a value denote a value of the kind at all (the reference for "values that parse"; whether the value then is in
// force on every node is the differential's business, not this function's).
func gfRefParses(k gfKind, v string) bool {
	var err error
	switch k {
	case gfInt, gfInt64:
		_, err = strconv.ParseInt(v, 10, 64)
	case gfInt32:
		_, err = strconv.ParseInt(v, 10, 32)
	case gfDur:
		_, err = time.ParseDuration(v)
	case gfFloat:
		_, err = strconv.ParseFloat(v, 64)
	case gfBool:
		_, err = strconv.ParseBool(v)
	}
	return err == nil
}

func gfMutableKeys() []string {
	keys := make([]string, 0, len(gfMutable))
	for k := range gfMutable {
		keys = append(keys, k)
	}
	sort.Strings(keys)
	return keys
}

// gfBadBoundaryGlobals: for every numeric / duration / boolean mutable global the boundary spellings that do NOT denote a value of
// its kind (just outside int32 / int64, float spellings for ints, durations without unit, ...). Appended to mnBadGlobals.
func gfBadBoundaryGlobals() []struct{ K, V, Class string } {
	var out []struct{ K, V, Class string }
	for _, key := range gfMutableKeys() {
		k := gfMutable[key]
		if k == gfStr || k == gfStrs {
			continue
		}
		for _, v := range gfEdges(key, k) {
			if !gfRefParses(k, v) {
				out = append(out, struct{ K, V, Class string }{key, v, "unparsable"})
			}
		}
	}
	return out
}

type gfPair struct {
	K, V string
	Kind gfKind
}

// gfSweepPairs: every (mutable global, boundary value) pair, in a fixed order.
func gfSweepPairs() []gfPair {
	var out []gfPair
	for _, key := range gfMutableKeys() {
		k := gfMutable[key]
		for _, v := range gfEdges(key, k) {
			out = append(out, gfPair{key, v, k})
		}
	}
	return out
}

// gfEdgeEntry picks one pair at random (no verdict predicted: the contract's accept / reject is judged by the monitors).
func gfEdgeEntry(r *mon.Rand) (string, string) {
	keys := gfMutableKeys()
	for i := 0; i < 8; i++ {
		key := keys[r.Intn(len(keys))]
		if e := gfEdges(key, gfMutable[key]); len(e) > 0 {
			return key, e[r.Intn(len(e))]
		}
	}
	return "server_chain.block.max_block_size", "2147483647"
}

// ---- the directed sweep --------------------------------------------------------------------------------------------------------------------

const gfSlots = 40 // quick tier: 8 children x 5 histories; every slot takes the pairs with index = slot (mod gfSlots)

func init() {
	RegisterScenario(Scenario{Prop: "C48", Name: "global-boundary-sweep", Every: 1, Fn: gfScenarioC48})
}

func gfScenarioC48(h *Hist, mons []Monitor) {
	pairs := gfSweepPairs()
	var sd, ci, hi int
	_, _ = fmt.Sscanf(h.ID, "s%d-c%d-h%d", &sd, &ci, &hi)
	slot := (hi*8 + ci) % gfSlots
	r := mon.NewRand(mon.Seed()).Fork("gf-sweep-" + h.ID)
	// the order of the list depends on the run seed, the coverage (all pairs over the slots) does not
	order := mon.NewRand(mon.Seed()).Fork("gf-sweep-order")
	order.Shuffle(len(pairs), func(i, j int) { pairs[i], pairs[j] = pairs[j], pairs[i] })
	for i := slot; i < len(pairs); i += gfSlots {
		owner := h.mnOwner()
		if owner == nil {
			return
		}
		p := pairs[i]
		fields := map[string]string{p.K: p.V}
		mut := "edge-sweep"
		if r.Chance(0.25) { // together with an ordinary valid entry: the pair decides accept / reject for both
			e := mnValidGlobals[r.Intn(len(mnValidGlobals))]
			if e.K != p.K {
				fields[e.K] = e.V[r.Intn(len(e.V))]
				mut = "edge-sweep+valid"
			}
		}
		st := map[string]interface{}{}
		for k, v := range fields {
			st[k] = v
		}
		sent := fields
		c := mnCall("miner.update_globals", mut, owner, "update_globals", 0, h.fee(r)%1000, map[string]interface{}{"fields": fields},
			map[string]interface{}{"settings": st, "owner_call": true}, func(h *Hist, o *TxnObs) {
				if o.Outcome == "success" {
					for k, v := range sent {
						h.S.Mn.Globals[k] = v
					}
				}
			})
		o := h.Submit(c, mons)
		h.C("C48", "gf_sweep:"+gfKindName[p.Kind]+"|"+o.Outcome)
		if h.TxInBlk >= 1+r.Intn(5) {
			h.EndBlock()
			h.advanceTime(r)
		}
	}
	h.EndBlock()
}

// ---- two simulated nodes -------------------------------------------------------------------------------------------------------------------

// gfLocal: the value node 0 / node 1 has in its own 0chain.yaml for a global key (well formed, different on the two nodes).
func gfLocal(key string, k gfKind, node int) interface{} {
	switch k {
	case gfBool:
		return node == 1
	case gfInt, gfInt32, gfInt64:
		return []int{111, 222}[node]
	case gfDur:
		return []string{"111ms", "222ms"}[node]
	case gfFloat:
		return []float64{0.111, 0.222}[node]
	case gfStrs:
		return [][]string{{"a_local"}, {"b_local"}}[node]
	}
	switch key {
	case "server_chain.block.proposal.wait_mode":
		return []string{"static", "dynamic"}[node]
	case "server_chain.messages.verification_tickets_to":
		return []string{"all_miners", "generator"}[node]
	case "server_chain.client.signature_scheme":
		return []string{"ed25519", "bls0chain"}[node]
	}
	return []string{"local-a", "local-b"}[node]
}

// gfSmallValid: a small, certainly valid stored value of a key (calibration).
func gfSmallValid(key string, k gfKind) string {
	switch k {
	case gfBool:
		return "true"
	case gfInt, gfInt32, gfInt64:
		return "7"
	case gfDur:
		return "7ms"
	case gfFloat:
		return "0.5"
	case gfStrs:
		return "x,y"
	}
	switch key {
	case "server_chain.block.proposal.wait_mode":
		return "static"
	case "server_chain.messages.verification_tickets_to":
		return "generator"
	case "server_chain.client.signature_scheme":
		return "bls0chain"
	}
	return "seven"
}

func gfAllKeys() []string {
	set := map[string]bool{}
	for k := range config.GlobalSettingInfo {
		set[k] = true
	}
	for k := range gfMutable {
		set[k] = true
	}
	keys := make([]string, 0, len(set))
	for k := range set {
		if k != "" {
			keys = append(keys, k)
		}
	}
	sort.Strings(keys)
	return keys
}

// gfOut is what one simulated node ends up with: every zero-argument getter of its ConfigImpl, printed.
type gfOut struct {
	Get map[string]string
	Err string // error returned by FromViper / Update
	Pan string // panic raised by FromViper / Update
}

func gfNode(fields map[string]string, version int64) (out gfOut) {
	c := chain.NewConfigImpl(&chain.ConfigData{})
	func() {
		defer func() {
			if e := recover(); e != nil {
				out.Pan = trunc(fmt.Sprint(e), 200)
			}
		}()
		if err := c.FromViper(); err != nil {
			out.Err = "FromViper: " + err.Error()
			return
		}
		cp := make(map[string]string, len(fields))
		for k, v := range fields {
			cp[k] = v
		}
		if err := c.Update(cp, version); err != nil {
			out.Err = trunc(err.Error(), 200)
		}
	}()
	out.Get = gfGetters(c)
	return out
}

func gfGetters(c *chain.ConfigImpl) map[string]string {
	out := map[string]string{}
	rv := reflect.ValueOf(c)
	rt := rv.Type()
	for i := 0; i < rt.NumMethod(); i++ {
		m := rt.Method(i)
		if m.Type.NumIn() != 1 || m.Type.NumOut() < 1 || m.Name == "FromViper" || m.Name == "ConfDataForTest" {
			continue
		}
		func() {
			defer func() {
				if e := recover(); e != nil {
					out[m.Name] = "panic: " + trunc(fmt.Sprint(e), 80)
				}
			}()
			res := rv.Method(i).Call(nil)
			out[m.Name] = fmt.Sprintf("%+v", res[0].Interface())
		}()
	}
	return out
}

// gfJob: one stored map evaluated on both nodes.
type gfJob struct {
	Fields  map[string]string
	Version int64
	A, B    gfOut
}

// gfRunJobs evaluates the jobs on node A and node B. The local configuration is process global (viper): it is switched to node A's,
// then node B's values for every global key and put back exactly afterwards (checked against viper.AllSettings()).
func gfRunJobs(jobs []*gfJob) (problem string) {
	keys := gfAllKeys()
	before := viper.AllSettings()
	old := make(map[string]interface{}, len(keys))
	for _, k := range keys {
		old[k] = viper.Get(k)
	}
	defer func() {
		for _, k := range keys {
			viper.Set(k, old[k])
		}
		after := viper.AllSettings()
		if !reflect.DeepEqual(before, after) {
			// put back whatever still differs, leaf by leaf, and say so
			bf, af := map[string]interface{}{}, map[string]interface{}{}
			gfFlatten("", before, bf)
			gfFlatten("", after, af)
			var diff []string
			for k, v := range bf {
				if !reflect.DeepEqual(v, af[k]) {
					viper.Set(k, v)
					diff = append(diff, k)
				}
			}
			for k := range af {
				if _, ok := bf[k]; !ok {
					viper.Set(k, nil)
					diff = append(diff, k)
				}
			}
			sort.Strings(diff)
			if !reflect.DeepEqual(before, viper.AllSettings()) {
				problem = "local configuration not restored: " + trunc(strings.Join(diff, ","), 300)
			}
		}
	}()
	for node := 0; node < 2; node++ {
		for _, k := range keys {
			kind, _ := gfKindOfKey(k)
			viper.Set(k, gfLocal(k, kind, node))
		}
		for _, j := range jobs {
			if node == 0 {
				j.A = gfNode(j.Fields, j.Version)
			} else {
				j.B = gfNode(j.Fields, j.Version)
			}
		}
	}
	return ""
}

func gfFlatten(prefix string, m map[string]interface{}, out map[string]interface{}) {
	for k, v := range m {
		p := k
		if prefix != "" {
			p = prefix + "." + k
		}
		if sub, ok := v.(map[string]interface{}); ok {
			gfFlatten(p, sub, out)
			continue
		}
		out[p] = v
	}
}

// calibration (once per process)
type gfCal struct {
	Driven []string // getters the key drives
	OK     bool     // the calibration run itself went through (no error / panic)
}

var (
	gfEmpty   *gfJob // nothing stored: which getters depend on the local configuration at all
	gfCalOf   = map[string]*gfCal{}
	gfLabelOf map[string]string // "key\x00value" -> class of the entries the workload labels as rejectable
)

func gfStored(s snap.Snapshot) *minersc.GlobalSettings {
	raw, ok := s[encryption.Hash(minersc.GLOBALS_KEY)]
	if !ok {
		return nil
	}
	gl := &minersc.GlobalSettings{Fields: map[string]string{}}
	if _, err := gl.UnmarshalMsg(raw); err != nil {
		return nil
	}
	if gl.Fields == nil {
		gl.Fields = map[string]string{}
	}
	return gl
}

// gfRequested: the fields map the transaction really carried (nil when the input was not a fields map).
func gfRequested(o *TxnObs) map[string]string {
	if o.Call == nil {
		return nil
	}
	if raw := o.Call.Spec.RawInput; raw != nil {
		var sm struct {
			Fields map[string]string `json:"fields"`
		}
		if json.Unmarshal(raw, &sm) != nil {
			return nil
		}
		return sm.Fields
	}
	if in, ok := o.Call.Spec.Input.(map[string]interface{}); ok {
		if f, ok := in["fields"].(map[string]string); ok {
			return f
		}
	}
	return nil
}

func gfDiffGetters(driven []string, a, b gfOut) []string {
	var d []string
	for _, g := range driven {
		if a.Get[g] != b.Get[g] {
			d = append(d, g)
		}
	}
	return d
}

func gfMonGlobalsInForce(h *Hist, o *TxnObs) {
	if o.Outcome != "success" || o.Txn == nil || o.Txn.ToClientID != minersc.ADDRESS || o.Txn.FunctionName != "update_globals" {
		return
	}
	run := h.Runs["C48"]
	if run == nil {
		return
	}
	post, pre := gfStored(o.Post), gfStored(o.Pre)
	if post == nil {
		h.C("C48", "gf_globals_node_unreadable_after_update")
		return
	}
	h.C("C48", "gf_successful_updates_judged")
	requested := gfRequested(o)
	changed := map[string]bool{}
	for k, v := range post.Fields {
		if pre == nil {
			changed[k] = true
		} else if pv, ok := pre.Fields[k]; !ok || pv != v {
			changed[k] = true
		}
	}
	removed := 0
	if pre != nil {
		for k := range pre.Fields {
			if _, ok := post.Fields[k]; !ok {
				removed++
			}
		}
	}

	// ---- rule checks on the state diff
	if pre != nil && (len(changed) > 0 || removed > 0) && post.Version <= pre.Version {
		h.V("C48", "stored-globals-changed-without-version-advance", fmt.Sprintf("%d stored global(s) changed, version %d -> %d: nodes holding version %d never apply the change, restarted nodes do", len(changed)+removed, pre.Version, post.Version, pre.Version), o)
	}
	if removed > 0 {
		h.V("C48", "stored-global-removed", fmt.Sprintf("%d stored global(s) disappeared in a successful update_globals", removed), o)
	}
	if pre != nil { // (the very first write copies the node's local configuration: judged below through the requested keys only)
		var ck []string
		for k := range changed {
			ck = append(ck, k)
		}
		sort.Strings(ck)
		for _, k := range ck {
			info, declared := config.GlobalSettingInfo[k]
			_, ref := gfMutable[k]
			switch {
			case !declared && !ref:
				h.V("C48", "unknown-global-stored", fmt.Sprintf("update_globals stored %q=%q, which is not a global setting", trunc(k, 60), trunc(post.Fields[k], 40)), o)
			case !declared || !info.Mutable:
				h.V("C48", "immutable-global-changed:"+k, fmt.Sprintf("update_globals changed %s to %q; the setting is not marked mutable", k, trunc(post.Fields[k], 40)), o)
			case !ref:
				h.V("C48", "immutable-global-changed:"+k, fmt.Sprintf("update_globals changed %s to %q; the setting is not in the reference list of mutable settings", k, trunc(post.Fields[k], 40)), o)
			}
			if _, asked := requested[k]; !asked && requested != nil {
				h.V("C48", "unmentioned-global-changed", fmt.Sprintf("update_globals changed %s (%q) without it being in the request", k, trunc(post.Fields[k], 40)), o)
			}
		}
	}
	if gfLabelOf == nil {
		gfLabelOf = map[string]string{}
		for _, b := range mnBadGlobals {
			gfLabelOf[b.K+"\x00"+b.V] = b.Class
		}
	}
	var rk []string
	for k := range requested {
		rk = append(rk, k)
	}
	sort.Strings(rk)
	for _, k := range rk {
		if class, ok := gfLabelOf[k+"\x00"+requested[k]]; ok {
			sigKey := k
			if class == "unknown" {
				sigKey = "-"
			}
			h.V("C48", "rejectable-global-accepted:"+class+":"+sigKey, fmt.Sprintf("update_globals succeeded with %q=%q (%s)", trunc(k, 60), trunc(requested[k], 40), class), o)
		}
		if v, ok := post.Fields[k]; !ok || v != requested[k] {
			h.V("C48", "global-readback-mismatch", fmt.Sprintf("update_globals succeeded with %q=%q but the state holds %q", trunc(k, 60), trunc(requested[k], 40), trunc(v, 40)), o)
		}
	}

	// ---- the differential: keys of the request and keys that changed
	judged := map[string]bool{}
	for k := range requested {
		judged[k] = true
	}
	if pre != nil {
		for k := range changed {
			judged[k] = true
		}
	}
	var jk []string
	for k := range judged {
		if _, known := gfKindOfKey(k); !known {
			continue
		}
		if _, stored := post.Fields[k]; !stored {
			continue
		}
		jk = append(jk, k)
	}
	sort.Strings(jk)
	if len(jk) > 16 {
		jk = jk[:16]
	}
	if len(jk) == 0 {
		return
	}
	full := &gfJob{Fields: post.Fields, Version: post.Version}
	jobs := []*gfJob{full}
	iso := map[string]*gfJob{}
	cal := map[string]*gfJob{}
	for _, k := range jk {
		iso[k] = &gfJob{Fields: map[string]string{k: post.Fields[k]}, Version: 1}
		jobs = append(jobs, iso[k])
		if gfCalOf[k] == nil {
			kind, _ := gfKindOfKey(k)
			cal[k] = &gfJob{Fields: map[string]string{k: gfSmallValid(k, kind)}, Version: 1}
			jobs = append(jobs, cal[k])
		}
	}
	var empty *gfJob
	if gfEmpty == nil {
		empty = &gfJob{Fields: map[string]string{}, Version: 1}
		jobs = append(jobs, empty)
	}
	if problem := gfRunJobs(jobs); problem != "" {
		run.Inconclusive("C48 globals-in-force: " + problem)
	}
	if empty != nil {
		gfEmpty = empty
		n := 0
		for g, a := range empty.A.Get {
			if a != empty.B.Get[g] {
				n++
			}
		}
		run.Count("gf_getters_depending_on_local_configuration", int64(n))
		if empty.A.Err != "" || empty.A.Pan != "" || empty.B.Err != "" || empty.B.Pan != "" {
			run.Inconclusive("C48 globals-in-force: the simulated nodes cannot apply an empty settings map: " + empty.A.Err + empty.A.Pan + empty.B.Err + empty.B.Pan)
		}
	}
	for k, j := range cal {
		c := &gfCal{OK: j.A.Err == "" && j.A.Pan == "" && j.B.Err == "" && j.B.Pan == ""}
		if c.OK {
			var gs []string
			for g, a := range gfEmpty.A.Get {
				if a != gfEmpty.B.Get[g] && j.A.Get[g] == j.B.Get[g] {
					gs = append(gs, g)
				}
			}
			sort.Strings(gs)
			c.Driven = gs
		}
		gfCalOf[k] = c
		switch {
		case !c.OK:
			h.C("C48", "gf_calibration_failed:"+k)
		case len(c.Driven) == 0:
			h.C("C48", "gf_obs_no_getter_switches_from_local_to_stored_value:"+k)
		default:
			h.C("C48", "gf_keys_calibrated")
		}
	}
	fullBroken := full.A.Err != "" || full.A.Pan != "" || full.B.Err != "" || full.B.Pan != ""
	for _, k := range jk {
		c := gfCalOf[k]
		if c == nil || !c.OK || len(c.Driven) == 0 {
			continue
		}
		v := post.Fields[k]
		j := iso[k]
		run.Eval(1)
		h.C("C48", "gf_stored_values_judged")
		verdict := "in-force"
		switch {
		case j.A.Pan != "" || j.B.Pan != "":
			verdict = "crash"
			h.V("C48", "stored-global-crashes-consumer:"+k, fmt.Sprintf("update_globals stored %s=%q; ConfigImpl.Update (Chain.updateConfig, run by every node at each finalized block) panics on it: %s", k, trunc(v, 40), j.A.Pan+j.B.Pan), o)
		case j.A.Err != "" || j.B.Err != "" || len(gfDiffGetters(c.Driven, j.A, j.B)) > 0:
			verdict = "not-in-force"
			d := gfDiffGetters(c.Driven, j.A, j.B)
			ex := ""
			if len(d) > 0 {
				ex = fmt.Sprintf("; %s() is %s on a node whose local value is %v and %s on a node whose local value is %v", d[0], j.A.Get[d[0]], gfLocalOf(k, 0), j.B.Get[d[0]], gfLocalOf(k, 1))
			}
			if j.A.Err != "" {
				ex += "; ConfigImpl.Update returns: " + j.A.Err + " (the settings read after it stay local too)"
			}
			h.V("C48", "stored-global-not-in-force:"+k, fmt.Sprintf("update_globals stored %s=%q, but the nodes do not put it in force: each keeps its own local value%s", k, trunc(v, 40), ex), o)
		case fullBroken:
			verdict = "masked"
			h.C("C48", "gf_obs_value_fine_alone_but_consumer_fails_on_another_stored_global")
		default:
			if d := gfDiffGetters(c.Driven, full.A, full.B); len(d) > 0 {
				verdict = "not-in-force-in-context"
				h.V("C48", "stored-global-not-in-force:"+k, fmt.Sprintf("update_globals stored %s=%q; with the whole stored map %s() is %s on one node and %s on the other", k, trunc(v, 40), d[0], full.A.Get[d[0]], full.B.Get[d[0]]), o)
			}
		}
		run.Distinct("gf|" + k + "|" + trunc(v, 28) + "|" + verdict)
	}
}

func gfLocalOf(key string, node int) interface{} {
	k, _ := gfKindOfKey(key)
	return gfLocal(key, k, node)
}
