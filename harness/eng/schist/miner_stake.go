package schist

import (
	"sort"

	"verifh/mon"
	"verifh/world"
)

// staking, reward collection and the block fee / reward payment

func (h *Hist) mnStakeValue(r *mon.Rand, cfg mnCfg) uint64 {
	opts := []uint64{1e10, 2e10, 5e10, 1e11, 7e11, 1e12, 33333333333, 1e13}
	v := opts[r.Intn(len(opts))]
	if r.Chance(0.2) {
		v = 1 + r.U64()%uint64(1e12)
	}
	if v < cfg.MinStake {
		v = cfg.MinStake
	}
	if v > cfg.MaxStake {
		v = cfg.MaxStake
	}
	return v
}

func minerStakeOps() []OpDef {
	lock := func(h *Hist, r *mon.Rand) *Call {
		m := h.S.Mn
		cfg := h.mnCfg()
		hp := h.hostile()
		n := m.anyNode(r, mnLive)
		if n == nil {
			n = m.anyNode(r, nil)
		}
		pool := h.mnStakerPool()
		staker := pool[r.Intn(len(pool))]
		if r.Chance(0.3) && len(n.Stakers) > 0 { // top up an existing pool
			if w := h.W.Wallets[n.Stakers[r.Intn(len(n.Stakers))]]; w != nil {
				staker = w
			}
		}
		has := func(n *mnNode, id string) bool {
			for _, s := range n.Stakers {
				if s == id {
					return true
				}
			}
			return false
		}
		// by construction valid: room for one more delegate unless the staker already has a pool
		if n.Registered && !has(n, staker.ID) && len(n.Stakers) >= n.NumDelegates {
			if o := m.anyNode(r, func(o *mnNode) bool { return mnLive(o) && len(o.Stakers) < o.NumDelegates }); o != nil {
				n = o
			}
		}
		v := h.mnStakeValue(r, cfg)
		bal, _ := h.Bal(h.Cur, staker.ID)
		if v > bal/2 && bal > 0 {
			v = bal / 2
		}
		pt, pid := n.PType, n.ID
		mut := ""
		if r.Chance(hp * 0.8) {
			switch r.Intn(12) {
			case 0:
				v = 0
				mut = "value-zero"
			case 1:
				if cfg.MinStake > 1 {
					v = cfg.MinStake - 1
					mut = "below-min"
				} else {
					v = 1 // min_stake is 0 by default: the smallest stake there is
					mut = "tiny-stake"
				}
			case 2:
				v = cfg.MaxStake + 1
				mut = "above-max"
			case 3: // pool total above max by topping up
				if len(n.Stakers) > 0 {
					if w := h.W.Wallets[n.Stakers[0]]; w != nil {
						staker = w
						v = cfg.MaxStake
						mut = "topup-above-max"
					}
				}
			case 4:
				v = bal + 1 + uint64(r.Intn(1000))
				mut = "above-balance"
			case 5:
				staker = h.S.Extra[r.Intn(len(h.S.Extra))]
				mut = "unfunded-staker"
			case 6: // one delegate more than num_delegates allows
				if o := m.anyNode(r, func(o *mnNode) bool { return o.Registered && len(o.Stakers) >= o.NumDelegates }); o != nil {
					n, pt, pid = o, o.PType, o.ID
					for _, w := range pool {
						if !has(o, w.ID) {
							staker = w
							break
						}
					}
					mut = "delegates-exceeded"
				}
			case 7:
				pt = 3 - pt
				mut = "wrong-type"
			case 8:
				pt = []int{0, 3, 4, 5, 99, -1}[r.Intn(6)]
				mut = "foreign-provider-type"
			case 9:
				pid = h.anyClient(r).ID
				mut = "unknown-provider"
				if f := h.mnForeign(r); f != nil && r.Chance(0.5) {
					pid = f.ID
					mut = "foreign-provider-id"
				}
			case 10:
				if len(m.Killed) > 0 {
					k := m.Killed[r.Intn(len(m.Killed))]
					n, pt, pid = k, k.PType, k.ID
					mut = "killed-provider"
				}
			case 11:
				pid = ""
				mut = "empty-provider"
			}
		}
		meta := map[string]interface{}{"provider_type": n.Type, "provider_id": pid, "staker": staker.ID, "value": v, "sent_provider_type": pt}
		return mnCall("miner.addToDelegatePool", mut, staker, "addToDelegatePool", v, h.fee(r)%1000, map[string]interface{}{"provider_type": pt, "provider_id": pid}, meta, nil)
	}

	unlock := func(h *Hist, r *mon.Rand) *Call {
		m := h.S.Mn
		hp := h.hostile()
		var refs []mnStakeRef
		for _, n := range m.Nodes {
			for _, s := range n.Stakers {
				if w := h.W.Wallets[s]; w != nil {
					refs = append(refs, mnStakeRef{n, w})
				}
			}
		}
		var ref mnStakeRef
		mut := ""
		switch {
		case len(m.Unlocked) > 0 && r.Chance(hp*0.3):
			ref = m.Unlocked[r.Intn(len(m.Unlocked))]
			mut = "unlock-twice"
		case len(refs) == 0 || r.Chance(hp*0.25):
			n := m.anyNode(r, nil)
			ref = mnStakeRef{n, h.anyWallet(r)}
			mut = "non-staker"
			for _, s := range n.Stakers {
				if s == ref.Staker.ID {
					mut = ""
				}
			}
		default:
			// keep some stake in the system: unlock only now and then when few pools are left
			if len(refs) <= 6 && !r.Chance(0.3) {
				return nil
			}
			ref = refs[r.Intn(len(refs))]
		}
		n := ref.Node
		pt, pid := n.PType, n.ID
		if mut == "" && r.Chance(hp*0.3) {
			switch r.Intn(4) {
			case 0:
				pt = 3 - pt
				mut = "wrong-type"
			case 1:
				pt = []int{0, 3, 5, 42}[r.Intn(4)]
				mut = "foreign-provider-type"
			case 2:
				pid = h.anyClient(r).ID
				mut = "unknown-provider"
				if f := h.mnForeign(r); f != nil && r.Chance(0.5) {
					pid = f.ID
					mut = "foreign-provider-id"
				}
			case 3: // stake of one node, unlock at another
				if o := m.anyNode(r, func(o *mnNode) bool { return o != n && o.Registered }); o != nil {
					pt, pid = o.PType, o.ID
					mut = "other-node"
					for _, s := range o.Stakers {
						if s == ref.Staker.ID {
							mut = ""
							n = o
						}
					}
				}
			}
		}
		meta := map[string]interface{}{"provider_type": n.Type, "provider_id": pid, "staker": ref.Staker.ID, "sent_provider_type": pt}
		staker := ref.Staker
		return mnCall("miner.deleteFromDelegatePool", mut, staker, "deleteFromDelegatePool", uint64(r.Intn(2)), h.fee(r)%1000, map[string]interface{}{"provider_type": pt, "provider_id": pid}, meta, func(h *Hist, o *TxnObs) {
			if o.Outcome == "success" {
				m.Unlocked = append(m.Unlocked, mnStakeRef{n, staker})
				if len(m.Unlocked) > 8 {
					m.Unlocked = m.Unlocked[1:]
				}
			}
		})
	}

	collect := func(h *Hist, r *mon.Rand) *Call {
		m := h.S.Mn
		hp := h.hostile()
		var n *mnNode
		var from *world.Wallet
		// prefer somebody who has something to collect: a delegate reward or the service charge
		var rich []mnStakeRef
		for _, x := range m.Nodes {
			if !x.Registered {
				continue
			}
			ids := make([]string, 0, len(x.Rewards))
			for id := range x.Rewards {
				ids = append(ids, id)
			}
			sort.Strings(ids)
			for _, id := range ids {
				if w := h.W.Wallets[id]; w != nil {
					rich = append(rich, mnStakeRef{x, w})
				}
			}
			if w := h.W.Wallets[x.DelegateID]; w != nil && x.Charge > 0 {
				rich = append(rich, mnStakeRef{x, w})
			}
		}
		if len(rich) > 0 && r.Chance(0.75) {
			ref := rich[r.Intn(len(rich))]
			n, from = ref.Node, ref.Staker
		} else {
			if len(rich) == 0 && !r.Chance(0.5) {
				return nil
			}
			n = m.anyNode(r, func(n *mnNode) bool { return n.Registered && len(n.Stakers) > 0 })
			if n == nil {
				n = m.anyNode(r, nil)
			}
			if len(n.Stakers) > 0 && r.Chance(0.6) {
				from = h.W.Wallets[n.Stakers[r.Intn(len(n.Stakers))]]
			}
			if from == nil {
				for _, sid := range n.Stakers {
					if w := h.W.Wallets[sid]; w != nil {
						from = w // a delegate without reward: collects 0, still succeeds
						break
					}
				}
			}
			if from == nil {
				return nil // nobody the harness holds a key for has a pool here, and there is no service charge to collect
			}
		}
		pt, pid := n.PType, n.ID
		mut := ""
		if r.Chance(hp * 0.6) {
			switch r.Intn(7) {
			case 0:
				from = h.anyWallet(r)
				mut = "nothing-to-collect"
				if from.ID == n.DelegateID {
					mut = ""
				}
				for _, s := range n.Stakers {
					if s == from.ID {
						mut = ""
					}
				}
			case 1:
				pt = []int{3, 4, 5}[r.Intn(3)]
				mut = "other-provider-type"
			case 2:
				pt = 3 - pt
				mut = "wrong-type"
			case 3:
				pt = []int{0, -1, 77}[r.Intn(3)]
				mut = "bad-provider-type"
			case 4:
				pid = ""
				mut = "empty-provider"
			case 5:
				pid = h.anyClient(r).ID
				mut = "unknown-provider"
				if f := h.mnForeign(r); f != nil && r.Chance(0.5) {
					pid = f.ID
					mut = "foreign-provider-id"
				}
			case 6: // the node wallet itself (neither delegate wallet nor staker, unless it staked)
				from = n.W
				mut = "node-wallet"
			}
		}
		meta := map[string]interface{}{"provider_type": n.Type, "provider_id": pid, "staker": from.ID, "sent_provider_type": pt, "is_delegate_wallet": from.ID == n.DelegateID,
			"expected_delegate_reward": n.Rewards[from.ID], "uncollected_service_charge": n.Charge}
		return mnCall("miner.collect_reward", mut, from, "collect_reward", 0, h.fee(r)%1000, map[string]interface{}{"provider_type": pt, "provider_id": pid}, meta, nil)
	}

	payFees := func(h *Hist, r *mon.Rand) *Call {
		m := h.S.Mn
		hp := h.hostile()
		mut := ""
		if h.BC != nil && m.PaidRound == h.Round && m.PaidCount > 0 {
			// this block has already been paid for
			if m.WantTwice || r.Chance(hp*0.6) {
				mut = "twice-in-block"
			} else {
				h.EndBlock()
			}
		}
		m.WantTwice = false
		round := h.mnRound()
		gen := h.mnGenerator()
		from := gen
		inRound := round
		var raw []byte
		if mut == "" && r.Chance(hp*0.6) {
			switch r.Intn(8) {
			case 0: // another miner of the magic block
				from = h.W.Miners[(int(round)+1+r.Intn(len(h.W.Miners)-1))%len(h.W.Miners)]
				mut = "not-generator"
			case 1:
				from = h.anyClient(r)
				mut = "stranger"
			case 2:
				from = h.W.Sharders[r.Intn(len(h.W.Sharders))]
				mut = "sharder"
			case 3:
				if o := h.mnOwner(); o != nil {
					from = o
					mut = "owner"
				}
			case 4:
				inRound = []int64{round - 1, round + 1, 0, -1, 1 << 40}[r.Intn(5)]
				mut = "wrong-round"
				if inRound == round {
					mut = ""
				}
			case 5:
				raw = [][]byte{[]byte(`{}`), []byte(`{"round":"1"}`), []byte(`[]`), []byte(`null`), []byte(`7`)}[r.Intn(5)]
				mut = "garbage-input"
			case 6: // the delegate wallet of the generator
				if n := m.ByID[gen.ID]; n != nil {
					from = n.Delegate
					mut = "generators-delegate"
				}
			case 7:
				from = h.W.Miners[(int(round)+1)%len(h.W.Miners)]
				inRound = round + 1 // the generator of the NEXT round pays for the next round in this block
				mut = "next-generator-next-round"
			}
		}
		genNode := m.ByID[gen.ID]
		meta := map[string]interface{}{"round": round, "input_round": inRound, "is_generator": from.ID == gen.ID, "generator_id": gen.ID,
			"provider_type": "miner", "provider_id": gen.ID, "paid_before_in_round": h.BC != nil && m.PaidRound == round && m.PaidCount > 0,
			"generator_registered": genNode != nil && genNode.Registered, "generator_killed": genNode != nil && genNode.Killed}
		var in interface{} = map[string]interface{}{"round": inRound}
		if raw != nil {
			in = raw
		}
		keepOpen := r.Chance(0.25)
		wantTwice := mut == "" && r.Chance(hp*0.3) // plan a second payment in the same block
		return mnCall("miner.payFees", mut, from, "payFees", 0, h.fee(r)%1000, in, meta, func(h *Hist, o *TxnObs) {
			if o.Outcome != "success" {
				return
			}
			m.PaidTotal++
			if m.PaidRound == o.PreRound {
				m.PaidCount++
			} else {
				m.PaidRound, m.PaidCount = o.PreRound, 1
			}
			switch {
			case wantTwice:
				m.WantTwice = true
				h.TxInBlk = -1 // the driver closes a block by transaction count: keep this one open for a few more transactions
			case !keepOpen:
				h.EndBlock() // the fee payment is the last transaction of its block
			}
		})
	}

	// every real block ends with a fee payment; the entry is listed several times so that a good share of the generated blocks has one
	pf := OpDef{Name: "miner.payFees", Tags: []string{"miner", "fees", "C22", "C23"}, Build: payFees}
	return []OpDef{
		{Name: "miner.addToDelegatePool", Tags: []string{"miner", "stake", "C11"}, Build: lock},
		{Name: "miner.deleteFromDelegatePool", Tags: []string{"miner", "stake", "C11"}, Build: unlock},
		{Name: "miner.collect_reward", Tags: []string{"miner", "stake", "fees", "C22"}, Build: collect},
		pf, pf, pf, pf,
	}
}
