// Package schist drives generated transaction histories through the real Chain.UpdateState on a real genesis
// state and evaluates the ledger / diff monitors after every transaction.
package schist

import (
	"os"
	"encoding/json"
	"fmt"
	"reflect"
	"sort"
	"strings"

	"0chain.net/chaincore/block"
	"0chain.net/chaincore/state"
	"0chain.net/chaincore/transaction"
	"0chain.net/core/common"
	"0chain.net/smartcontract/dbs/event"
	"github.com/0chain/common/core/currency"
	"github.com/0chain/common/core/util"

	"verifh/mon"
	"verifh/obs"
	"verifh/snap"
	"verifh/world"
)

// Call is one transaction the workload wants to submit.
type Call struct {
	Name  string // catalogue name, e.g. "faucet.pour"
	Mut   string // hostile mutation applied ("" = valid by construction)
	Spec  world.TxnSpec
	Meta  map[string]interface{}
	After func(h *Hist, o *TxnObs) // shadow-knowledge update
}

// OpDef is a catalogue entry.
type OpDef struct {
	Name  string
	Tags  []string // contract / property tags used by profiles
	Build func(h *Hist, r *mon.Rand) *Call
}

// TxnObs is everything observed around one UpdateState call.
type TxnObs struct {
	Idx      int
	Call     *Call
	Txn      *transaction.Transaction
	Err      error
	Outcome  string // "success", "failed" (chargeable), "rejected"
	Events   []event.Event
	Pre      snap.Snapshot
	Post     snap.Snapshot
	Delta    snap.Delta
	Ops      []obs.Op
	Tr       []*state.Transfer
	STr      []*state.SignedTransfer
	Block    *block.Block
	Now      common.Timestamp
	PreRound int64
}

// OpRecord is the replayable log line of one transaction.
type OpRecord struct {
	Idx     int    `json:"i"`
	Name    string `json:"op"`
	Mut     string `json:"mut,omitempty"`
	From    string `json:"from"`
	To      string `json:"to"`
	Value   uint64 `json:"value"`
	Fee     uint64 `json:"fee"`
	Nonce   int64  `json:"nonce"`
	Time    int64  `json:"time"`
	Round   int64  `json:"round"`
	Data    string `json:"data,omitempty"`
	Outcome string `json:"outcome"`
	Output  string `json:"output,omitempty"`
}

// Monitor judges one transaction observation.
type Monitor struct {
	Prop string
	Name string
	Fn   func(h *Hist, o *TxnObs)
}

// Hist is one history: a chain of blocks grown from genesis.
type Hist struct {
	ID       string
	W        *world.World
	R        *mon.Rand
	Obs      *obs.Observer
	Runs     map[string]*mon.Run // per property
	Focus    string
	Head     *block.Block
	BC       *world.BlockCtx
	Round    int64
	RefNonce map[string]int64
	Cur      snap.Snapshot
	Log      []OpRecord
	TxInBlk  int
	S        *Shadow
	Names    map[string]string // wallet id -> name
	Vars     map[string]interface{}
	// per block (by hash): events and op names of the applied transactions, in order (used by the determinism engine;
	// operation builders may submit prerequisite transactions and seal blocks themselves, so this is recorded here)
	BlockEv    map[string][]event.Event
	BlockNames map[string][]string
}

// V reports a violation for property p with history context attached.
func (h *Hist) V(p, sig, detail string, o *TxnObs) {
	r := h.Runs[p]
	if r == nil {
		return
	}
	tail := h.Log
	if len(tail) > 40 {
		tail = tail[len(tail)-40:]
	}
	r.Violate(sig, detail, map[string]interface{}{"history": h.ID, "seed": r.SeedV, "txn_index": o.Idx, "op_log_tail": tail})
}

// C counts a monitor evaluation.
func (h *Hist) C(p, name string) {
	if r := h.Runs[p]; r != nil {
		r.Count(name, 1)
	}
}

func (h *Hist) name(id string) string {
	if n, ok := h.Names[id]; ok {
		return n
	}
	for k, v := range world.SCAddresses {
		if v == id {
			return "sc:" + k
		}
	}
	if len(id) > 8 {
		return id[:8]
	}
	return id
}

// NewHist starts a history at genesis.
func NewHist(id string, w *world.World, o *obs.Observer, r *mon.Rand, runs map[string]*mon.Run, focus string) *Hist {
	h := &Hist{ID: id, W: w, R: r, Obs: o, Runs: runs, Focus: focus, Head: w.GB, RefNonce: map[string]int64{}, Names: map[string]string{}, Vars: map[string]interface{}{}}
	for id, wl := range w.Wallets {
		h.Names[id] = wl.Name
	}
	w.Now = world.Epoch + 1000
	cur, err := snap.Take(w.GB.ClientState)
	if err != nil {
		panic(fmt.Sprintf("genesis snapshot: %v", err))
	}
	h.Cur = cur
	for p, raw := range cur {
		if o.Lookup(p) != nil {
			continue
		}
		if cl, ok := snap.DecodeClient(raw); ok {
			h.RefNonce[p] = cl.Nonce
		}
	}
	h.S = newShadow(h)
	return h
}

func (h *Hist) openBlock() {
	h.Round++
	h.W.Advance(0)
	h.BC = h.W.NewBlock(h.Head, h.Round, int(h.Round))
	h.TxInBlk = 0
}

func (h *Hist) sealBlock() {
	if h.BC == nil {
		return
	}
	h.Head = h.BC.Seal()
	h.BC = nil
}

// NextNonce returns the reference next nonce of a wallet.
func (h *Hist) NextNonce(id string) int64 { return h.RefNonce[id] + 1 }

// Submit executes one call and runs the monitors.
func (h *Hist) Submit(c *Call, monitors []Monitor) *TxnObs {
	if h.BC == nil {
		h.openBlock()
	}
	if c.Spec.Nonce == 0 && c.Mut != "nonce-zero" {
		c.Spec.Nonce = h.NextNonce(c.Spec.From.ID)
	}
	if c.Spec.Time == 0 {
		c.Spec.Time = h.W.Now
	}
	txn := h.W.MakeTxn(c.Spec)
	if f, ok := c.Meta["post_sign"]; ok {
		f.(func(*transaction.Transaction))(txn)
	}
	h.Obs.ResetTxn()
	rec := OpRecord{Idx: len(h.Log), Name: c.Name, Mut: c.Mut, From: h.name(txn.ClientID), To: h.name(txn.ToClientID), Value: uint64(txn.Value), Fee: uint64(txn.Fee),
		Nonce: txn.Nonce, Time: int64(txn.CreationDate), Round: h.Round, Data: trunc(txn.TransactionData, 1500)}
	// log before the call: a crash inside the contract still leaves the input
	fmt.Printf("OP %s %s\n", h.ID, mustJSON(rec))
	var ev []event.Event
	var err error
	if adm, ok := c.Meta["admission"].(func(*transaction.Transaction) error); ok {
		// Chain.UpdateState relies on the checks a node runs before a transaction may enter a block (ComputeProperties,
		// ValidateWrtTime); calls that are NOT built by world.MakeTxn's own canonical path go through them first
		err = adm(txn)
	}
	if err == nil {
		ev, err = h.BC.Exec(txn)
	}
	ops, tr, st := h.Obs.ResetTxn()
	post, serr := snap.Take(h.BC.State)
	if serr != nil {
		panic(fmt.Sprintf("snapshot after txn: %v", serr))
	}
	o := &TxnObs{Idx: len(h.Log), Call: c, Txn: txn, Err: err, Events: ev, Pre: h.Cur, Post: post, Delta: snap.Diff(h.Cur, post), Ops: ops, Tr: tr, STr: st, Block: h.BC.B, Now: h.W.Now, PreRound: h.Round}
	switch {
	case err != nil:
		o.Outcome = "rejected"
		rec.Output = trunc(err.Error(), 300)
	case txn.Status == transaction.TxnError:
		o.Outcome = "failed"
		rec.Output = trunc(txn.TransactionOutput, 300)
	default:
		o.Outcome = "success"
		rec.Output = trunc(txn.TransactionOutput, 120)
	}
	rec.Outcome = o.Outcome
	if o.Outcome != "rejected" && h.BlockEv != nil {
		h.BlockEv[h.BC.B.Hash] = append(h.BlockEv[h.BC.B.Hash], ev...)
		h.BlockNames[h.BC.B.Hash] = append(h.BlockNames[h.BC.B.Hash], c.Name+"/"+o.Outcome)
	}
	h.Log = append(h.Log, rec)
	fmt.Printf("RES %s %d %s %s\n", h.ID, rec.Idx, rec.Outcome, trunc(rec.Output, 400))
	debugOps(h, o)
	for _, m := range monitors {
		m.Fn(h, o)
	}
	// reference nonce follows the *specification* (C03), not the observed state
	if o.Outcome != "rejected" {
		h.RefNonce[txn.ClientID] = h.RefNonce[txn.ClientID] + 1
	}
	if c.After != nil {
		c.After(h, o)
	}
	h.Cur = post
	h.TxInBlk++
	return o
}

// EndBlock seals the current block (if any) and optionally advances logical time.
func (h *Hist) EndBlock() { h.sealBlock() }

func mustJSON(v interface{}) string {
	b, err := json.Marshal(v)
	if err != nil {
		return fmt.Sprintf("%v", v)
	}
	return string(b)
}

func trunc(s string, n int) string {
	if len(s) > n {
		return s[:n] + "…"
	}
	return s
}

// ---- typed access to contract nodes -------------------------------------------------------------------------------

// Decode turns the raw bytes of a registered contract node into a value of its Go type.
func Decode(ki *obs.KeyInfo, raw []byte) (interface{}, error) {
	if ki == nil || ki.Type == nil {
		return nil, fmt.Errorf("no type")
	}
	t := ki.Type
	if t.Kind() != reflect.Ptr {
		return nil, fmt.Errorf("non-pointer type %s", t)
	}
	v := reflect.New(t.Elem()).Interface()
	ms, ok := v.(util.MPTSerializable)
	if !ok {
		return nil, fmt.Errorf("%s not MPTSerializable", t)
	}
	if _, err := ms.UnmarshalMsg(raw); err != nil {
		return nil, err
	}
	return v, nil
}

// Node is a decoded contract node.
type Node struct {
	Key  string
	Path string
	Type string
	Val  interface{}
}

// NodesOfType decodes every leaf of the snapshot whose registered type name matches one of names.
func (h *Hist) NodesOfType(s snap.Snapshot, names ...string) []Node {
	var out []Node
	want := map[string]bool{}
	for _, n := range names {
		want[n] = true
	}
	var paths []string
	for p := range s {
		paths = append(paths, p)
	}
	sort.Strings(paths)
	for _, p := range paths {
		ki := h.Obs.Lookup(p)
		if ki == nil || ki.Type == nil || !want[ki.Type.String()] {
			continue
		}
		v, err := Decode(ki, s[p])
		if err != nil {
			continue
		}
		out = append(out, Node{Key: ki.Key, Path: p, Type: ki.Type.String(), Val: v})
	}
	return out
}

// NodeByKey decodes the node stored under a contract key (nil if absent).
func (h *Hist) NodeByKey(s snap.Snapshot, key string) *Node {
	ki := h.Obs.ByKeyLookup(key)
	if ki == nil {
		return nil
	}
	raw, ok := s[ki.Path]
	if !ok {
		return nil
	}
	v, err := Decode(ki, raw)
	if err != nil {
		return nil
	}
	return &Node{Key: key, Path: ki.Path, Type: ki.Type.String(), Val: v}
}

// F reads a (possibly nested, dot separated) field of a decoded value through reflection; pointers and
// interfaces are followed. Returns the zero Value when the path does not exist.
func F(v interface{}, path string) (out reflect.Value) {
	defer func() {
		// FieldByName through a nil embedded pointer panics: treat as "field absent"
		if e := recover(); e != nil {
			out = reflect.Value{}
		}
	}()
	rv := reflect.ValueOf(v)
	// version-wrapped entities (entitywrapper.Wrapper): look at the wrapped entity
	if rv.IsValid() && rv.Kind() == reflect.Ptr && !rv.IsNil() {
		if m := rv.MethodByName("Entity"); m.IsValid() && m.Type().NumIn() == 0 && m.Type().NumOut() == 1 {
			if e := m.Call(nil)[0]; e.IsValid() && !(e.Kind() == reflect.Interface && e.IsNil()) {
				rv = e
			}
		}
	}
	for _, part := range strings.Split(path, ".") {
		for rv.IsValid() && (rv.Kind() == reflect.Ptr || rv.Kind() == reflect.Interface) {
			if rv.IsNil() {
				return reflect.Value{}
			}
			rv = rv.Elem()
		}
		if !rv.IsValid() || rv.Kind() != reflect.Struct {
			return reflect.Value{}
		}
		rv = rv.FieldByName(part)
	}
	for rv.IsValid() && (rv.Kind() == reflect.Ptr || rv.Kind() == reflect.Interface) {
		if rv.IsNil() {
			return reflect.Value{}
		}
		rv = rv.Elem()
	}
	return rv
}

// U reads an unsigned/signed integer field as uint64 (0 if missing).
func U(v interface{}, path string) uint64 {
	rv := F(v, path)
	if !rv.IsValid() {
		return 0
	}
	switch rv.Kind() {
	case reflect.Uint, reflect.Uint8, reflect.Uint16, reflect.Uint32, reflect.Uint64:
		return rv.Uint()
	case reflect.Int, reflect.Int8, reflect.Int16, reflect.Int32, reflect.Int64:
		return uint64(rv.Int())
	}
	return 0
}

// I reads an integer field as int64.
func I(v interface{}, path string) int64 { return int64(U(v, path)) }

// Str reads a string field.
func Str(v interface{}, path string) string {
	rv := F(v, path)
	if rv.IsValid() && rv.Kind() == reflect.String {
		return rv.String()
	}
	return ""
}

// B reads a bool field.
func B(v interface{}, path string) bool {
	rv := F(v, path)
	return rv.IsValid() && rv.Kind() == reflect.Bool && rv.Bool()
}

// Bal returns the balance of a client leaf in a snapshot (0, false if absent).
func (h *Hist) Bal(s snap.Snapshot, id string) (uint64, bool) {
	raw, ok := s[id]
	if !ok {
		return 0, false
	}
	if h.Obs.Lookup(id) != nil {
		return 0, false
	}
	cl, ok := snap.DecodeClient(raw)
	return cl.Balance, ok
}

// ClientLeaves returns every account leaf of a snapshot.
func (h *Hist) ClientLeaves(s snap.Snapshot) map[string]snap.ClientLeaf {
	out := map[string]snap.ClientLeaf{}
	for p, raw := range s {
		if h.Obs.Lookup(p) != nil {
			continue
		}
		if cl, ok := snap.DecodeClient(raw); ok {
			out[p] = cl
		}
	}
	return out
}

// Coin is a shorthand.
type Coin = currency.Coin

// debugOps prints the hook's op log of a txn when VERIF_DEBUG_KEY is a substring of a touched key.
func debugOps(h *Hist, o *TxnObs) {
	k := os.Getenv("VERIF_DEBUG_KEY")
	if k == "" {
		return
	}
	for _, op := range o.Ops {
		if strings.Contains(op.Key, k) {
			fmt.Printf("DBGOP %s i=%d %s %s key=%s type=%s len=%d\n", h.ID, o.Idx, o.Call.Name, op.Kind, op.Key, op.Type, len(op.Bytes))
			if os.Getenv("VERIF_DEBUG_DUMP") != "" && op.Kind != "insert" {
				if n := h.NodeByKey(o.Pre, op.Key); n != nil {
					fmt.Printf("DBGDUMP %s i=%d key=%s %s\n", h.ID, o.Idx, op.Key, dumpVal(n.Val))
				}
			}
		}
	}
}

func dumpVal(v interface{}) string {
	b, err := json.Marshal(v)
	if err != nil {
		return fmt.Sprintf("%+v", v)
	}
	return string(b)
}
