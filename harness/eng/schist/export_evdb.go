package schist

import (
	"fmt"

	"0chain.net/chaincore/transaction"
	"0chain.net/smartcontract/dbs/event"
	"0chain.net/smartcontract/zcnsc"

	"verifh/mon"
	"verifh/obs"
	"verifh/world"
)

// ---- real bridge blocks for the C20 engine (package evdb) ----------------------------------------------------------------------
//
// The C20 engine judges what the event database does with a block's events. Its own generator synthesises the event lists; this
// helper produces blocks whose events come from the REAL contracts: bridge transactions (burn, mint, add-authorizer) are executed
// through Chain.UpdateState and the events that execution returned are handed over together with the transactions themselves, so
// that the consumer can compute its reference from the transactions (who burned how much toward which address) and not from the
// events.

// EvdbRealTxn is one transaction that entered a real block: as submitted, plus what the chain recorded for it.
type EvdbRealTxn struct {
	Op          string `json:"op"`      // catalogue name: zcn.burn, zcn.mint, zcn.add-authorizer, send
	Mut         string `json:"mut"`     // deliberate defect of the request ("" = valid by construction)
	Outcome     string `json:"outcome"` // success | failed
	Hash        string `json:"hash"`
	ClientID    string `json:"client"`
	Value       uint64 `json:"value"`
	Fee         uint64 `json:"fee"`
	Data        string `json:"data"`         // transaction data as submitted
	Output      string `json:"output"`       // transaction output as recorded in the block
	ClientDelta int64  `json:"client_delta"` // balance change of the submitting client over this transaction (state diff)
}

// EvdbRealBlock is one sealed block of a real history.
type EvdbRealBlock struct {
	History string            `json:"history"`
	Round   int64             `json:"round"`
	Hash    string            `json:"hash"`
	Shape   string            `json:"shape"` // what the workload aimed at (label only; the consumer classifies from the transactions)
	Txns    []EvdbRealTxn     `json:"txns"`
	Events  []event.Event     `json:"-"` // events the real execution returned, in block order
	Names   map[string]string `json:"-"` // wallet id -> name (for witnesses)
}

// EvdbRealShapes are the block shapes of the workload, in the order they are cycled through (every shape is reached once per
// len(EvdbRealShapes) blocks; the parameters inside a shape are random).
var EvdbRealShapes = []string{"two-clients-one-address", "one-client-two-addresses", "one-client-twice-one-address", "cross", "random", "random-with-refused", "mints", "random"}

// EvdbRealRun grows one history of `blocks` bridge blocks from genesis on world w and calls emit for every sealed block that
// carries at least one transaction. tag must be unique per history of a process and of a consumer database: it is part of the
// target Ethereum addresses (every history restarts at genesis, so the burn nonces of an address restart, too).
func EvdbRealRun(w *world.World, o *obs.Observer, r *mon.Rand, tag string, blocks int, emit func(*EvdbRealBlock)) {
	h := NewHist("evdb-"+tag, w, o, r, map[string]*mon.Run{}, "C20")
	h.Vars["hostile"] = 0.0
	sc := zcnsc.ADDRESS
	T := transaction.TxnTypeSmartContract
	var eths []string
	for i := 0; i < 6; i++ {
		eths = append(eths, fmt.Sprintf("0x%s%02d", tag, i))
	}
	var cur *EvdbRealBlock
	submit := func(c *Call) *TxnObs {
		if c == nil {
			return nil
		}
		ob := h.Submit(c, nil)
		if cur == nil {
			cur = &EvdbRealBlock{History: h.ID, Round: ob.Block.Round, Hash: ob.Block.Hash, Names: h.Names}
		}
		if ob.Outcome == "rejected" {
			return ob
		}
		cur.Events = append(cur.Events, ob.Events...)
		cur.Txns = append(cur.Txns, EvdbRealTxn{Op: c.Name, Mut: c.Mut, Outcome: ob.Outcome, Hash: ob.Txn.Hash, ClientID: ob.Txn.ClientID, Value: uint64(ob.Txn.Value),
			Fee: uint64(ob.Txn.Fee), Data: ob.Txn.TransactionData, Output: ob.Txn.TransactionOutput, ClientDelta: h.deltas(ob)[ob.Txn.ClientID]})
		return ob
	}
	seal := func(shape string) {
		h.EndBlock()
		if cur != nil && len(cur.Txns) > 0 {
			cur.Shape = shape
			emit(cur)
		}
		cur = nil
		h.advanceTime(r)
	}
	amount := func() uint64 {
		switch r.Intn(5) {
		case 0:
			return 1e10 // exactly the minimum
		case 1:
			return 1e10 + 1
		case 2:
			return 7e10
		}
		return 1e10 + r.U64()%(9e10)
	}
	burn := func(from *world.Wallet, eth string, v uint64, mut string) *Call {
		return &Call{Name: "zcn.burn", Mut: mut, Meta: map[string]interface{}{"eth": eth, "c20_real": true},
			Spec: world.TxnSpec{From: from, To: sc, Value: Coin(v), Fee: Coin(h.fee(r) % 1000), Type: T, Func: "burn", Input: map[string]interface{}{"ethereum_address": eth}}}
	}
	refused := func() *Call {
		if r.Chance(0.5) {
			return burn(h.anyClient(r), eths[r.Intn(len(eths))], []uint64{0, 1, 1e10 - 1, 5e9}[r.Intn(4)], "below-minimum")
		}
		return burn(h.anyClient(r), "", amount(), "no-address")
	}
	byName := map[string]OpDef{}
	for _, op := range zcnOps() {
		byName[op.Name] = op
	}
	// authorizers (the mints need their signatures)
	want := 2 + r.Intn(3)
	for try := 0; len(zcLive(h)) < want && try < 8; try++ {
		submit(byName["zcn.add-authorizer"].Build(h, r))
		if h.TxInBlk >= 2 {
			seal("setup")
		}
	}
	seal("setup")
	two := func() (*world.Wallet, *world.Wallet) {
		p := r.Intn(len(h.W.Clients))
		q := (p + 1 + r.Intn(len(h.W.Clients)-1)) % len(h.W.Clients)
		return h.W.Clients[p], h.W.Clients[q]
	}
	twoEth := func() (string, string) {
		p := r.Intn(len(eths))
		q := (p + 1 + r.Intn(len(eths)-1)) % len(eths)
		return eths[p], eths[q]
	}
	for bi := 0; bi < blocks; bi++ {
		shape := EvdbRealShapes[bi%len(EvdbRealShapes)]
		var calls []func() *Call // built lazily: a mint reads the nonce the previous mint of the block left
		add := func(f func() *Call) { calls = append(calls, f) }
		addBurn := func(from *world.Wallet, eth string) { add(func() *Call { return burn(from, eth, amount(), "") }) }
		switch shape {
		case "two-clients-one-address":
			a, b := two()
			x, _ := twoEth()
			addBurn(a, x)
			addBurn(b, x)
			if r.Chance(0.3) {
				addBurn(h.anyClient(r), x)
			}
		case "one-client-two-addresses":
			a, _ := two()
			x, y := twoEth()
			addBurn(a, x)
			addBurn(a, y)
			if r.Chance(0.3) {
				addBurn(a, eths[r.Intn(len(eths))])
			}
		case "one-client-twice-one-address":
			a, _ := two()
			x, _ := twoEth()
			for i, n := 0, 2+r.Intn(2); i < n; i++ {
				addBurn(a, x)
			}
		case "cross":
			// two clients, two addresses, three or four of the four combinations
			a, b := two()
			x, y := twoEth()
			combos := [][2]interface{}{{a, x}, {b, x}, {a, y}, {b, y}}
			r.Shuffle(len(combos), func(i, j int) { combos[i], combos[j] = combos[j], combos[i] })
			for _, c := range combos[:3+r.Intn(2)] {
				addBurn(c[0].(*world.Wallet), c[1].(string))
			}
		case "mints":
			for i, n := 0, 1+r.Intn(3); i < n; i++ {
				add(func() *Call { return zcBuildMint(h, r, "plain") })
			}
			for i, n := 0, r.Intn(3); i < n; i++ {
				addBurn(h.anyClient(r), eths[r.Intn(len(eths))])
			}
		default: // random, random-with-refused
			sizes := []int{1, 2, 6}
			nc, ne := sizes[r.Intn(3)], sizes[r.Intn(3)]
			c0, e0 := r.Intn(len(h.W.Clients)), r.Intn(len(eths))
			for i, n := 0, 1+r.Intn(6); i < n; i++ {
				addBurn(h.W.Clients[(c0+r.Intn(nc))%len(h.W.Clients)], eths[(e0+r.Intn(ne))%len(eths)])
			}
			if r.Chance(0.4) {
				add(func() *Call { return zcBuildMint(h, r, "plain") })
			}
			if shape == "random-with-refused" {
				for i, n := 0, 1+r.Intn(2); i < n; i++ {
					add(refused)
				}
			}
		}
		if shape != "mints" && shape != "random" && shape != "random-with-refused" && r.Chance(0.25) {
			// something else of the bridge in the same block
			if r.Chance(0.5) {
				add(func() *Call { return zcBuildMint(h, r, "plain") })
			} else {
				add(refused)
			}
		}
		r.Shuffle(len(calls), func(i, j int) { calls[i], calls[j] = calls[j], calls[i] })
		for _, f := range calls {
			submit(f())
		}
		seal(shape)
	}
}
