package schist

import (
	"encoding/hex"
	"encoding/json"
	"fmt"
	"math"
	"strconv"
	"strings"
	"time"

	"0chain.net/core/encryption"

	"verifh/mon"
	"verifh/snap"
	"verifh/world"
)

// ---- allocations ------------------------------------------------------------------------------------------------------------

func stBSize(size int64, data int) int64 {
	if data <= 0 {
		return size
	}
	return int64(math.Ceil(float64(size) / float64(data)))
}

// write price of a blobber as the contract currently stores it (falls back to what the generator registered)
func (h *Hist) stTermsOf(p *stProv) stTerms {
	if n := h.stNode(p.W.ID); n != nil && n.ProviderType == 3 {
		return n.Terms
	}
	return stTerms{ReadPrice: p.ReadPrice, WritePrice: p.WritePrice}
}

func (h *Hist) stCost(ps []*stProv, bsize int64) uint64 {
	var c uint64
	for _, p := range ps {
		c += uint64(float64(h.stTermsOf(p).WritePrice) * (float64(bsize) / stGB))
	}
	return c
}

func (h *Hist) stAuthTickets(ps []*stProv, owner string) []string {
	out := make([]string, len(ps))
	for i, p := range ps {
		if p != nil && p.Restricted {
			out[i] = p.W.Sign(owner) // the blobber signs the owner's client id
		}
	}
	return out
}

// stUsable tells whether the contract would currently accept the blobber for a new offer of bsize bytes (the checks of
// storageAllocationBase.isActive, recomputed from the state view).
func (h *Hist) stUsable(p *stProv, bsize int64) bool {
	n := h.stNode(p.W.ID)
	sp := h.stSP("blobber", p.W.ID)
	if n == nil || sp == nil || n.ProviderType != 3 || n.IsKilled || n.IsShutDown || n.NotAvailable {
		return false
	}
	stake, wp := sp.stake(), n.Terms.WritePrice
	if wp == 0 {
		return n.Capacity-n.Allocated >= bsize
	}
	stakedCap := int64(float64(stake) / float64(wp) * stGB)
	if n.Capacity-n.Allocated < bsize || stakedCap-n.Allocated < bsize || stake <= sp.TotalOffers {
		return false
	}
	return int64(float64(stake-sp.TotalOffers)/float64(wp)*stGB) >= bsize
}

func (h *Hist) stUsableFirst(r *mon.Rand, in []*stProv, bsize int64) []*stProv {
	var ok, rest []*stProv
	for _, p := range stShuffled(r, in) {
		if h.stUsable(p, bsize) {
			ok = append(ok, p)
		} else {
			rest = append(rest, p)
		}
	}
	if r.Chance(0.92) {
		return append(ok, rest...)
	}
	return stShuffled(r, in) // now and then an unusable blobber comes first: late failure in blobber validation
}

func stIDs(ps []*stProv) []string {
	out := make([]string, len(ps))
	for i, p := range ps {
		out[i] = p.W.ID
	}
	return out
}

func stShuffled(r *mon.Rand, in []*stProv) []*stProv {
	out := append([]*stProv{}, in...)
	r.Shuffle(len(out), func(i, j int) { out[i], out[j] = out[j], out[i] })
	return out
}

func (h *Hist) stRegisterAlloc(id string, owner *world.Wallet, free bool) *stAlloc {
	a := &stAlloc{ID: id, Owner: owner, Free: free, WM: map[string]*stWM{}, RC: map[string]int64{}, RMRaw: map[string][]byte{}, Readers: map[string]*world.Wallet{}}
	h.S.St.Allocs = append(h.S.St.Allocs, a)
	return a
}

func stNewAlloc(h *Hist, r *mon.Rand) *Call {
	st := h.S.St
	conf := h.stConf()
	sizes := []int64{conf.MinAllocSize, 4 * stMB, 64 * stMB, 256 * stMB, stGB, 3 * stGB}
	size := sizes[r.Intn(len(sizes))]
	owner := h.stClient(r)
	d, p := 1+r.Intn(3), 1+r.Intn(2)
	live := h.stUsableFirst(r, st.live(st.Blobbers), stBSize(size, d))
	for d+p > len(live) && d+p > 2 {
		if d > 1 {
			d--
		} else {
			p--
		}
	}
	mut := ""
	n := d + p
	if n > len(live) {
		n = len(live)
	}
	if n == 0 {
		return stAddProvider(h, r, "blobber")
	}
	chosen := append([]*stProv{}, live[:n]...)
	if len(live) > n && r.Chance(0.25) {
		chosen = append(chosen, live[n]) // a spare blobber: the contract takes the first d+p valid ones
	}
	in := map[string]interface{}{
		"data_shards": d, "parity_shards": p, "size": size,
		"read_price_range":       map[string]uint64{"min": 0, "max": conf.MaxReadPrice},
		"write_price_range":      map[string]uint64{"min": 0, "max": conf.MaxWritePrice},
		"third_party_extendable": r.Chance(0.3),
	}
	if r.Chance(0.3) {
		in["file_options_changed"], in["file_options"] = true, r.Intn(64)
	}
	allocOwner := owner
	switch r.Intn(4) {
	case 0:
		in["owner_id"], in["owner_public_key"] = owner.ID, owner.PubKey
	case 1:
		if r.Chance(0.3) { // allocation created on behalf of another client
			allocOwner = h.stClient(r)
			in["owner_id"], in["owner_public_key"] = allocOwner.ID, allocOwner.PubKey
		}
	}
	ids := stIDs(chosen)
	tickets := h.stAuthTickets(chosen, allocOwner.ID)
	cost := h.stCost(chosen[:n], stBSize(size, d))
	val := cost*uint64(2+r.Intn(3)) + 1e9
	if r.Chance(0.15) {
		val = cost + 1 // float rounding of the contract's own sum may differ by a unit
	}
	if h.stHostile(r, 0.8) {
		switch r.Intn(14) {
		case 0:
			mut = "dup-blobber"
			if len(ids) > 1 {
				ids[1] = ids[0]
			}
		case 1:
			mut = "unknown-blobber"
			ids[r.Intn(len(ids))] = stHash(fmt.Sprintf("ghost-blobber-%d", st.next()))
		case 2:
			mut = "dead-blobber"
			if dd := st.dead(st.Blobbers); len(dd) > 0 {
				ids[0] = dd[r.Intn(len(dd))].W.ID
			} else {
				mut = "too-few-blobbers"
				ids = ids[:len(ids)-1]
				tickets = tickets[:len(ids)]
			}
		case 3:
			mut = "too-few-blobbers"
			ids = ids[:len(ids)-1]
			tickets = tickets[:len(ids)]
		case 4:
			mut = "underfunded"
			val = cost / 2
		case 5:
			mut = "value-0"
			val = 0
		case 6:
			mut = "value-1"
			val = 1
		case 7:
			mut = "value-above-balance"
			bal, _ := h.Bal(h.Cur, owner.ID)
			val = bal + 1 + uint64(r.Intn(1000))
		case 8:
			mut = "size-below-min"
			in["size"] = []int64{0, -1, 1, conf.MinAllocSize - 1}[r.Intn(4)]
		case 9:
			mut = "size-huge"
			in["size"] = []int64{1 << 50, math.MaxInt64, 5000 * stGB}[r.Intn(3)]
		case 10:
			mut = "bad-price-range"
			in["write_price_range"] = map[string]uint64{"min": 5, "max": 1}
		case 11:
			mut = "narrow-price-range"
			in["write_price_range"] = map[string]uint64{"min": 0, "max": 1e7}
			in["read_price_range"] = map[string]uint64{"min": 0, "max": 0}
		case 12:
			mut = "shards-0"
			if r.Chance(0.5) {
				in["data_shards"] = 0
			} else {
				in["parity_shards"] = -1
			}
		case 13:
			mut = "tickets-missing"
			tickets = tickets[:len(tickets)/2]
		}
	}
	in["blobbers"], in["blobber_auth_tickets"] = ids, tickets
	c := stCall(h, r, "new_allocation_request", owner, in, val)
	c.Mut = mut
	c.Meta["blobbers"], c.Meta["owner"], c.Meta["size"] = ids, allocOwner.ID, size
	c.After = func(h *Hist, o *TxnObs) {
		if o.Outcome != "success" {
			return
		}
		var out struct {
			ID string `json:"id"`
		}
		id := o.Txn.Hash
		if json.Unmarshal([]byte(o.Txn.TransactionOutput), &out) == nil && out.ID != "" {
			id = out.ID
		}
		o.Call.Meta["alloc"] = id
		h.stRegisterAlloc(id, allocOwner, false)
	}
	return c
}

// pick an allocation id to operate on; with a hostile chance a closed or unknown one
func (h *Hist) stAllocTarget(r *mon.Rand, scale float64) (a *stAlloc, v *stAllocView, id, mut string) {
	st := h.S.St
	if h.stHostile(r, scale) {
		if cl := st.closed(); len(cl) > 0 && r.Chance(0.7) {
			a = cl[r.Intn(len(cl))]
			return a, nil, a.ID, "closed-alloc"
		}
		return nil, nil, stUnknownID(r), "unknown-alloc"
	}
	if len(st.open()) < 2 && r.Chance(0.6) {
		return nil, nil, "", "" // callers fall back to creating an allocation
	}
	a, v = h.stPickAlloc(r)
	if a == nil {
		return nil, nil, "", ""
	}
	return a, v, a.ID, ""
}

func stUpdateAlloc(h *Hist, r *mon.Rand) *Call {
	st := h.S.St
	a, v, id, mut := h.stAllocTarget(r, 0.15)
	if id == "" && mut == "" {
		return stNewAlloc(h, r)
	}
	from := h.stClient(r)
	if a != nil {
		from = a.Owner
	}
	in := map[string]interface{}{"id": id}
	var val uint64
	var newOwner *world.Wallet
	kind := ""
	if v != nil {
		inAlloc := map[string]bool{}
		var members []*stProv
		for _, b := range v.BlobberAllocs {
			inAlloc[b.BlobberID] = true
			if p := st.blobberByID(b.BlobberID); p != nil {
				members = append(members, p)
			}
		}
		bs := stBSize(v.Size, v.DataShards)
		var outside []*stProv
		for _, p := range h.stUsableFirst(r, st.live(st.Blobbers), bs) {
			if !inAlloc[p.W.ID] {
				outside = append(outside, p)
			}
		}
		full := h.stCost(members, bs)
		kinds := []string{"extend", "extend", "grow", "grow", "add-blobber", "replace-blobber", "replace-blobber", "third-party-flag", "file-options", "owner-change", "third-party-extend", "extend-and-grow"}
		kind = kinds[r.Intn(len(kinds))]
		for _, m := range members {
			if m.Dead != "" && r.Chance(0.8) && (kind == "grow" || kind == "extend-and-grow" || kind == "add-blobber") {
				kind = "replace-blobber" // growing needs every member alive: replace the dead one first
			}
		}
		switch kind {
		case "extend":
			in["extend"] = true
			val = full + 1e9
		case "grow", "extend-and-grow":
			inc := []int64{1, 64 * stKB, stMB, v.Size / 2, v.Size}[r.Intn(5)]
			in["size"] = inc
			if kind == "extend-and-grow" {
				in["extend"] = true
			}
			val = h.stCost(members, stBSize(v.Size+inc, v.DataShards))*2 + 1e9
		case "add-blobber":
			if len(outside) == 0 {
				in["extend"] = true
				break
			}
			np := outside[0]
			in["add_blobber_id"] = np.W.ID
			in["add_blobber_auth_ticket"] = h.stAuthTickets([]*stProv{np}, v.Owner)[0]
			val = full + h.stCost([]*stProv{np}, bs) + 1e9
		case "replace-blobber":
			if len(outside) == 0 || len(members) == 0 {
				in["extend"] = true
				break
			}
			np := outside[0]
			rm := members[r.Intn(len(members))]
			for _, m := range members { // prefer replacing a killed / shut-down member
				if m.Dead != "" {
					rm = m
					kind = "replace-dead-blobber"
				}
			}
			in["add_blobber_id"], in["remove_blobber_id"] = np.W.ID, rm.W.ID
			in["add_blobber_auth_ticket"] = h.stAuthTickets([]*stProv{np}, v.Owner)[0]
			val = full + h.stCost([]*stProv{np}, bs) + 1e9
		case "third-party-flag":
			in["set_third_party_extendable"] = true
		case "file-options":
			in["file_options_changed"], in["file_options"] = true, (int(v.FileOptions)+1+r.Intn(62))%64
		case "owner-change":
			newOwner = h.stClient(r)
			in["owner_id"], in["owner_public_key"] = newOwner.ID, newOwner.PubKey
			if newOwner.ID == v.Owner {
				in["set_third_party_extendable"] = true
				newOwner = nil
			}
			if r.Chance(0.5) {
				val = 1e9 + uint64(r.Intn(5))*1e10 // the hand-over also locks tokens: they are the SENDER's
			}
		case "third-party-extend":
			from = h.stClient(r)
			in["extend"] = true
			val = full + 1e9
			if !v.ThirdPartyExtendable && from.ID != v.Owner {
				mut = "third-party-not-allowed"
			}
			if r.Chance(0.5) {
				// the request names the allocation's owner (or any other funded wallet) in its owner_id field: whoever is named,
				// the tokens locked by the transaction are the sender's
				named := v.Owner
				if r.Chance(0.3) {
					named = h.stClient(r).ID
				}
				if w := h.W.Wallets[named]; w != nil {
					in["owner_id"], in["owner_public_key"] = w.ID, w.PubKey
				}
			}
		}
		if r.Chance(0.3) {
			val = 0 // rely on what is already locked
		}
		if mut == "" && h.stHostile(r, 0.7) {
			switch r.Intn(9) {
			case 0:
				mut = "stranger"
				from = h.stStranger(r)
			case 1:
				mut = "reduce-size"
				in["size"] = -int64(1 + r.Intn(int(stMB)))
			case 2:
				mut = "changes-nothing"
				in = map[string]interface{}{"id": id}
			case 3:
				mut = "remove-without-add"
				if len(members) > 0 {
					in["remove_blobber_id"] = members[0].W.ID
				}
				delete(in, "add_blobber_id")
			case 4:
				mut = "add-member-again"
				if len(members) > 0 {
					in["add_blobber_id"] = members[r.Intn(len(members))].W.ID
				}
			case 5:
				mut = "remove-non-member"
				if len(outside) > 1 {
					in["add_blobber_id"], in["remove_blobber_id"] = outside[0].W.ID, outside[1].W.ID
				} else {
					in["remove_blobber_id"] = stHash("ghost")
				}
			case 6:
				mut = "file-options-64"
				in["file_options_changed"], in["file_options"] = true, 64+r.Intn(1000)
			case 7:
				mut = "owner-change-no-key"
				in["owner_id"] = h.stClient(r).ID
				delete(in, "owner_public_key")
				newOwner = nil
			case 8:
				mut = "grow-huge"
				in["size"] = int64(1) << (40 + uint(r.Intn(20)))
			}
		}
	} else {
		in["extend"] = true
		if a != nil {
			from = a.Owner
		}
	}
	c := stCall(h, r, "update_allocation_request", from, in, val)
	c.Mut = mut
	c.Meta["alloc"], c.Meta["kind"] = id, kind
	if b, ok := in["add_blobber_id"].(string); ok {
		c.Meta["blobber"] = b
	}
	probe := ""
	if rm, ok := in["remove_blobber_id"].(string); ok && rm != "" {
		c.Meta["removed_blobber"] = rm
		probe = h.stPartialProbe(id, rm, "replace", false)
		c.Meta["partial_pass"] = probe != ""
	}
	c.After = stProbeAfter(probe, func(h *Hist, o *TxnObs) {
		if o.Outcome == "success" && a != nil && newOwner != nil {
			if _, set := in["owner_id"]; set {
				a.Owner = newOwner
			}
		}
	})
	return c
}

func (h *Hist) stExpiredSplit() (expired, running []*stAlloc, views map[string]*stAllocView) {
	views = map[string]*stAllocView{}
	now := int64(h.W.Now)
	for _, a := range h.S.St.open() {
		v := h.stGetAlloc(a.ID)
		if v == nil {
			a.Closed = "gone"
			continue
		}
		views[a.ID] = v
		if ow := h.W.Wallets[v.Owner]; ow != nil {
			a.Owner = ow
		}
		if v.Expiration <= now {
			expired = append(expired, a)
		} else {
			running = append(running, a)
		}
	}
	return
}

func stCloseAfter(a *stAlloc, how string) func(h *Hist, o *TxnObs) {
	return func(h *Hist, o *TxnObs) {
		if o.Outcome == "success" && a != nil && a.Closed == "" {
			a.Closed = how
		}
	}
}

func stFinalize(h *Hist, r *mon.Rand) *Call {
	st := h.S.St
	expired, running, views := h.stExpiredSplit()
	var a *stAlloc
	mut := ""
	id := ""
	switch {
	case h.stHostile(r, 0.15) && len(st.closed()) > 0:
		cl := st.closed()
		a = cl[r.Intn(len(cl))]
		id, mut = a.ID, "second-close"
	case h.stHostile(r, 0.05):
		id, mut = stUnknownID(r), "unknown-alloc"
	case len(expired) > 0:
		a = expired[r.Intn(len(expired))]
		id = a.ID
	case len(running) > 0 && (r.Chance(0.08) || h.stHostile(r, 0.4)):
		a = running[r.Intn(len(running))]
		id, mut = a.ID, "before-expiry"
	default:
		if len(running) > 0 && r.Chance(0.5) {
			return stTimeJump(h, r)
		}
		return nil
	}
	from := h.stClient(r)
	if a != nil {
		from = a.Owner
		if v := views[a.ID]; v != nil && len(v.BlobberAllocs) > 0 && r.Chance(0.3) {
			if bp := st.blobberByID(v.BlobberAllocs[r.Intn(len(v.BlobberAllocs))].BlobberID); bp != nil {
				from = bp.W // one of the allocation's blobbers may finalize
				if mut == "before-expiry" {
					mut = "blobber-before-expiry"
				}
			}
		}
		if mut == "" && h.stHostile(r, 0.4) {
			mut = "stranger"
			from = h.stStranger(r)
			if r.Chance(0.4) { // a blobber that is not part of the allocation
				for _, p := range st.live(st.Blobbers) {
					if v := views[a.ID]; v != nil && v.ba(p.W.ID) == nil {
						from, mut = p.W, "foreign-blobber"
						break
					}
				}
			}
		}
	}
	c := stCall(h, r, "finalize_allocation", from, map[string]string{"allocation_id": id}, uint64(r.Intn(2)*r.Intn(1000)))
	c.Mut = mut
	c.Meta["alloc"], c.Meta["closes"] = id, "finalize"
	probe := h.stPartialProbe(id, "", "finalize", false)
	c.Meta["partial_pass"] = probe != ""
	c.After = stProbeAfter(probe, stCloseAfter(a, "finalize"))
	if mut == "second-close" {
		c.After = nil
	}
	return c
}

func stCancel(h *Hist, r *mon.Rand) *Call {
	st := h.S.St
	expired, running, views := h.stExpiredSplit()
	var a *stAlloc
	mut, id := "", ""
	switch {
	case h.stHostile(r, 0.15) && len(st.closed()) > 0:
		cl := st.closed()
		a = cl[r.Intn(len(cl))]
		id, mut = a.ID, "second-close"
	case h.stHostile(r, 0.05):
		id, mut = stUnknownID(r), "unknown-alloc"
	case len(expired) > 0 && h.stHostile(r, 0.6):
		a = expired[r.Intn(len(expired))]
		id, mut = a.ID, "after-expiry"
	case len(running) > 2 || (len(running) > 0 && r.Chance(0.3)):
		a = running[r.Intn(len(running))]
		id = a.ID
		// prefer allocations that already carry data and challenges: their close path is the interesting one
		for _, b := range running {
			if v := views[b.ID]; v != nil && v.Stats != nil && v.Stats.UsedSize > 0 && r.Chance(0.4) {
				a, id = b, b.ID
			}
		}
	default:
		return nil
	}
	from := h.stClient(r)
	if a != nil {
		from = a.Owner
		if mut == "" && h.stHostile(r, 0.4) {
			mut = "stranger"
			from = h.stStranger(r)
			if v := views[a.ID]; v != nil && len(v.BlobberAllocs) > 0 && r.Chance(0.5) {
				if bp := st.blobberByID(v.BlobberAllocs[0].BlobberID); bp != nil {
					from, mut = bp.W, "blobber-cancels"
				}
			}
		}
	}
	c := stCall(h, r, "cancel_allocation", from, map[string]string{"allocation_id": id}, 0)
	c.Mut = mut
	c.Meta["alloc"], c.Meta["closes"] = id, "cancel"
	probe := h.stPartialProbe(id, "", "cancel", false)
	c.Meta["partial_pass"] = probe != ""
	c.After = stProbeAfter(probe, stCloseAfter(a, "cancel"))
	if mut == "second-close" {
		c.After = nil
	}
	return c
}

func stWritePoolLock(h *Hist, r *mon.Rand) *Call {
	a, _, id, mut := h.stAllocTarget(r, 0.25)
	if id == "" && mut == "" {
		return stNewAlloc(h, r)
	}
	conf := h.stConf()
	min := conf.writeMinLock()
	from := h.stClient(r)
	if a != nil && r.Chance(0.7) {
		from = a.Owner
	}
	vals := []uint64{min, min + 1, 5e9, 1e10, 1e11, 1e9 + r.U64()%uint64(1e11)}
	val := vals[r.Intn(len(vals))]
	if mut == "" && h.stHostile(r, 0.6) {
		bal, _ := h.Bal(h.Cur, from.ID)
		switch r.Intn(6) {
		case 0:
			mut, val = "value-0", 0
		case 1:
			mut, val = "value-1", 1
		case 2:
			mut, val = "below-min-lock", min-1
		case 3:
			mut, val = "value-above-balance", bal+1
		case 4:
			mut, id = "empty-alloc-id", ""
		case 5:
			mut = "unfunded-sender"
			from = h.S.Extra[r.Intn(len(h.S.Extra))]
		}
	}
	c := stCall(h, r, "write_pool_lock", from, map[string]string{"allocation_id": id}, val)
	c.Mut = mut
	c.Meta["alloc"] = id
	return c
}

// ---- free storage -----------------------------------------------------------------------------------------------------------

func stAddAssigner(h *Hist, r *mon.Rand) *Call {
	st := h.S.St
	conf := h.stConf()
	var as *stAssigner
	if len(st.Assigners) > 0 && (len(st.Assigners) >= 3 || r.Chance(0.6)) {
		as = st.Assigners[r.Intn(len(st.Assigners))] // update limits of an existing assigner
	} else {
		as = &stAssigner{W: h.stWallet(fmt.Sprintf("assigner%d", st.next())), Used: map[int64]bool{}, Next: 1}
		st.Assigners = append(st.Assigners, as)
	}
	maxI, maxT := float64(conf.MaxIndivFree)/1e10, float64(conf.MaxTotalFree)/1e10
	indiv := []float64{0.5, 2, 20, maxI}[r.Intn(4)]
	total := []float64{1, 5, 100, 1000, maxT}[r.Intn(5)]
	if as.Reg && r.Chance(0.4) { // tighten: later markers of this assigner run over the new limits
		indiv, total = 0.05, float64(as.Redeemed)/1e10+0.1
	}
	from := h.W.Owner
	mut := ""
	if h.stHostile(r, 0.6) {
		switch r.Intn(4) {
		case 0:
			mut, from = "stranger", h.stStranger(r)
		case 1:
			mut, indiv = "indiv-above-max", maxI+1
		case 2:
			mut, total = "total-above-max", maxT*2
		case 3:
			mut, indiv = "negative-limit", -1
		}
	}
	in := map[string]interface{}{"name": as.W.ID, "public_key": as.W.PubKey, "individual_limit": indiv, "total_limit": total}
	c := stCall(h, r, "add_free_storage_assigner", from, in, 0)
	c.Mut = mut
	c.Meta["assigner"] = as.W.ID
	c.After = func(h *Hist, o *TxnObs) {
		if o.Outcome == "success" {
			as.Reg, as.Indiv, as.Total = true, uint64(indiv*1e10), uint64(total*1e10)
		}
	}
	return c
}

func stFreeMarkerString(recipient string, tokens float64, nonce int64, blobbers []string) string {
	ids := ""
	for _, b := range blobbers {
		ids += b
	}
	return fmt.Sprintf("%s:%f:%d:%s", recipient, tokens, nonce, ids)
}

// frRedeemed is one redeemed free-storage marker as the generator sent it.
type frRedeemed struct {
	Nonce int64
	Coin  uint64
	Raw   []byte // exact input bytes of the accepted free_allocation_request
	By    *world.Wallet
}

// frState is the generator's memory per assigner: every redeemed marker in redemption order, and the nonces it handed out.
type frState struct {
	Redeemed []*frRedeemed
	Issued   map[int64]bool
	Down     int64 // next value of a strictly decreasing nonce series
}

func frStateOf(h *Hist, as *stAssigner) *frState {
	m, _ := h.Vars["frState"].(map[*stAssigner]*frState)
	if m == nil {
		m = map[*stAssigner]*frState{}
		h.Vars["frState"] = m
	}
	if m[as] == nil {
		m[as] = &frState{Issued: map[int64]bool{}, Down: 1 << 40}
	}
	return m[as]
}

// frNonce hands out a fresh nonce in NO particular order: small counters, a middle range, large values, second / millisecond
// timestamps around the logical clock, a strictly decreasing series, now and then zero or a negative value.
func frNonce(h *Hist, r *mon.Rand, as *stAssigner, kind int) int64 {
	fs := frStateOf(h, as)
	now := int64(h.W.Now)
	for try := 0; try < 40; try++ {
		k := kind
		if k < 0 || try > 0 {
			k = r.Intn(8)
		}
		var n int64
		switch k {
		case 0:
			n = 1 + int64(r.Intn(60)) // low
		case 1:
			n = 1000 + int64(r.Intn(9000)) // middle
		case 2:
			n = 1000000 - int64(r.Intn(5000)) // high
		case 3:
			n = now - int64(r.Intn(200000)) // a timestamp in seconds, issued out of order
		case 4:
			n = now*1000 + int64(r.Intn(1000)) - int64(r.Intn(3))*86400000 // a timestamp in milliseconds
		case 5:
			fs.Down -= 1 + int64(r.Intn(1000))
			n = fs.Down
		case 6:
			n = as.Next // the plain counter
			as.Next++
		case 7:
			n = []int64{0, -1, -int64(r.Intn(100000)), 1<<62 + int64(r.Intn(1000))}[r.Intn(4)]
		}
		if !as.Used[n] && !fs.Issued[n] {
			fs.Issued[n] = true
			return n
		}
	}
	n := as.Next + 1<<32
	as.Next++
	return n
}

// frBlobbers picks the blobbers of a free allocation: inside the free-allocation price ranges if there are enough of them
// (ok), otherwise filled up with others (the request fails late, in blobber validation).
func frBlobbers(h *Hist, r *mon.Rand) (ids []string, ok bool) {
	st := h.S.St
	conf := h.stConf()
	var fit []*stProv
	for _, p := range h.stUsableFirst(r, st.live(st.Blobbers), stBSize(conf.Free.Size, conf.Free.DataShards)) {
		t := h.stTermsOf(p)
		if !h.stUsable(p, stBSize(conf.Free.Size, conf.Free.DataShards)) && r.Chance(0.9) {
			continue
		}
		if t.ReadPrice >= conf.Free.Read.Min && t.ReadPrice <= conf.Free.Read.Max && t.WritePrice >= conf.Free.Write.Min && t.WritePrice <= conf.Free.Write.Max && !p.Restricted {
			fit = append(fit, p)
		}
	}
	need := conf.Free.DataShards + conf.Free.ParityShards
	if len(fit) > need {
		fit = fit[:need]
	}
	ok = len(fit) >= need
	if !ok {
		for _, p := range st.live(st.Blobbers) {
			dup := false
			for _, q := range fit {
				dup = dup || q == p
			}
			if !dup && len(fit) < need {
				fit = append(fit, p)
			}
		}
	}
	return stIDs(fit), ok
}

// frSpec is one free_allocation_request as it goes on the wire.
type frSpec struct {
	As                        *stAssigner
	AssignerName              string
	Recipient, Sender, Signer *world.Wallet
	Tokens                    float64
	Nonce                     int64
	Blobbers                  []string
	Mut                       string
	GarbageSig                bool
	Replay                    *frRedeemed // byte-identical resubmission of a redeemed request
}

func frBuildCall(h *Hist, r *mon.Rand, s *frSpec) *Call {
	as := s.As
	coin := uint64(0)
	if s.Tokens > 0 {
		coin = uint64(math.Round(s.Tokens * 1e10))
	}
	sig := s.Signer.Sign(hex.EncodeToString([]byte(stFreeMarkerString(s.Recipient.ID, s.Tokens, s.Nonce, s.Blobbers))))
	if s.GarbageSig {
		sig = stHash("not-a-signature") + stHash("at-all")
	}
	marker, _ := json.Marshal(map[string]interface{}{"assigner": s.AssignerName, "recipient": s.Recipient.ID, "free_tokens": s.Tokens, "nonce": s.Nonce, "signature": sig, "blobbers": s.Blobbers})
	in := map[string]interface{}{"recipient_public_key": s.Recipient.PubKey, "marker": string(marker), "blobbers": s.Blobbers}
	c := stCall(h, r, "free_allocation_request", s.Sender, in, 0)
	nonce := s.Nonce
	replay := s.Replay
	if replay != nil {
		c.Spec.RawInput = replay.Raw
		nonce, coin = replay.Nonce, replay.Coin
	}
	c.Mut = s.Mut
	// a marker is good for one redemption: a replayed input and a re-signed marker with a used nonce are never valid
	valid := replay == nil && s.Sender == s.Recipient && s.Signer == as.W && !s.GarbageSig && s.AssignerName == as.W.ID && as.Reg && !as.Used[nonce] && s.Tokens > 0 &&
		coin <= as.Indiv && as.Redeemed+coin <= as.Total
	c.Meta["free_marker_valid"] = valid
	c.Meta["assigner"], c.Meta["recipient"], c.Meta["blobbers"] = s.AssignerName, s.Recipient.ID, s.Blobbers
	c.Meta["marker"] = map[string]interface{}{"nonce": nonce, "tokens": coin, "signer": s.Signer.ID, "client": s.Recipient.ID, "sender": s.Sender.ID,
		"individual_limit": as.Indiv, "total_limit": as.Total, "redeemed": as.Redeemed, "replay": replay != nil, "nonce_used_before": as.Used[nonce]}
	raw := stFreeze(c)
	recipient, sender := s.Recipient, s.Sender
	c.After = func(h *Hist, o *TxnObs) {
		if o.Outcome != "success" {
			return
		}
		var out struct {
			ID string `json:"id"`
		}
		id := o.Txn.Hash
		if json.Unmarshal([]byte(o.Txn.TransactionOutput), &out) == nil && out.ID != "" {
			id = out.ID
		}
		o.Call.Meta["alloc"] = id
		h.stRegisterAlloc(id, recipient, true)
		as.Redeemed += coin // the contract adds the marker's tokens on every accepted redemption
		if replay == nil {
			first := !as.Used[nonce]
			as.Used[nonce] = true
			as.LastRaw, as.LastBy = raw, sender
			if fs := frStateOf(h, as); first && len(fs.Redeemed) < 64 {
				fs.Redeemed = append(fs.Redeemed, &frRedeemed{Nonce: nonce, Coin: coin, Raw: raw, By: sender})
			}
		}
	}
	return c
}

func stFreeAlloc(h *Hist, r *mon.Rand) *Call {
	st := h.S.St
	var regd []*stAssigner
	for _, as := range st.Assigners {
		if as.Reg {
			regd = append(regd, as)
		}
	}
	if len(regd) == 0 {
		return stAddAssigner(h, r)
	}
	as := regd[r.Intn(len(regd))]
	fs := frStateOf(h, as)
	recipient := h.stClient(r)
	blobbers, ok := frBlobbers(h, r)
	if !ok && r.Chance(0.6) {
		return stNewAlloc(h, r)
	}
	tokens := []float64{0.01, 0.05, 0.1, 0.5, 1, 2.5, 5}[r.Intn(7)]
	if uint64(tokens*1e10) > as.Indiv || as.Redeemed+uint64(tokens*1e10) > as.Total {
		if r.Chance(0.7) { // keep most markers inside the limits
			tokens = 0.01
		}
	}
	s := &frSpec{As: as, AssignerName: as.W.ID, Recipient: recipient, Sender: recipient, Signer: as.W, Tokens: tokens, Blobbers: blobbers}
	s.Nonce = frNonce(h, r, as, -1)
	if h.stHostile(r, 1.0) {
		switch r.Intn(14) {
		case 0:
			s.Mut = "other-recipient"
			s.Sender = h.stClient(r)
			if s.Sender == recipient {
				s.Sender = h.W.Owner
			}
		case 1:
			s.Mut = "over-individual-limit"
			s.Tokens = float64(as.Indiv)/1e10 + []float64{0.000001, 1, 50}[r.Intn(3)]
		case 2, 3:
			if n := len(fs.Redeemed); n > 0 { // a freshly signed marker (other recipient / tokens / blobbers) carrying ANY used nonce
				s.Mut, s.Nonce = "reused-nonce", fs.Redeemed[r.Intn(n)].Nonce
			}
		case 4:
			s.Mut = "forged-signature"
			s.Signer = h.stClient(r)
			s.GarbageSig = r.Chance(0.5)
		case 5:
			s.Mut = "unknown-assigner"
			s.AssignerName = stHash("no-such-assigner")
		case 6:
			s.Mut = "over-total-limit"
			if as.Total > as.Redeemed {
				s.Tokens = float64(as.Total-as.Redeemed)/1e10 + 0.5
			}
		case 7, 8, 9:
			if n := len(fs.Redeemed); n > 0 { // ANY redeemed request again, byte for byte, by its original sender
				s.Mut, s.Replay = "replay", fs.Redeemed[r.Intn(n)]
				s.Sender = s.Replay.By
			}
		case 10:
			if n := len(fs.Redeemed); n > 0 { // the redeemed request of somebody else
				s.Mut, s.Replay = "replay-by-other-sender", fs.Redeemed[r.Intn(n)]
				s.Sender = h.stClient(r)
			}
		case 11:
			s.Mut = "tokens-negative"
			s.Tokens = -1
		case 12:
			s.Mut = "tokens-11-decimals"
			s.Tokens = 0.00000000001
		case 13:
			for _, other := range regd { // a nonce another assigner already redeemed: nonces are per assigner, this marker is fine
				if of := frStateOf(h, other); other != as && len(of.Redeemed) > 0 {
					if n := of.Redeemed[r.Intn(len(of.Redeemed))].Nonce; !as.Used[n] {
						s.Nonce = n
					}
				}
			}
		}
	}
	return frBuildCall(h, r, s)
}

// frWire is a free-storage marker as the transaction input carries it (decoded by the monitor itself).
type frWire struct {
	Assigner   string   `json:"assigner"`
	Recipient  string   `json:"recipient"`
	FreeTokens float64  `json:"free_tokens"`
	Nonce      int64    `json:"nonce"`
	Signature  string   `json:"signature"`
	Blobbers   []string `json:"blobbers"`
}

// frDecode extracts the marker of a free_allocation_request input.
func frDecode(input []byte) *frWire {
	var in struct {
		Marker string `json:"marker"`
	}
	if json.Unmarshal(input, &in) != nil {
		return nil
	}
	m := &frWire{}
	if json.Unmarshal([]byte(in.Marker), m) != nil {
		return nil
	}
	return m
}

// frModel is the monitor's own reference: per assigner name the public key of its last successful registration, the set of
// nonces of the markers it saw redeemed, and their redemption order.
type frModel struct {
	Key    map[string]string
	Nonces map[string]map[int64]bool
	Order  map[string][]int64
	// limits of the assigner's last successful registration the monitor saw (tokens, converted like the contract converts the
	// registration input) and the monitor's OWN running total of the grants it saw redeemed under that assigner's name
	Lim map[string]frLimits
	Sum map[string]uint64
}

type frLimits struct{ Indiv, Total uint64 }

// frCoin converts a marker's free_tokens (ZCN, a JSON number) into tokens the way the statement's "amount" is defined on
// chain: an exact decimal shift by ten places of the number as written (no rounding); negative values, more than ten
// decimals and amounts beyond the int64 range have no token amount.
func frCoin(f float64) (uint64, bool) {
	if f < 0 || math.IsNaN(f) || math.IsInf(f, 0) {
		return 0, false
	}
	str := strconv.FormatFloat(f, 'f', -1, 64)
	ip, fp := str, ""
	if i := strings.IndexByte(str, '.'); i >= 0 {
		ip, fp = str[:i], str[i+1:]
	}
	if len(fp) > 10 || len(ip) > 9 {
		return 0, false
	}
	for len(fp) < 10 {
		fp += "0"
	}
	v, err := strconv.ParseUint(ip+fp, 10, 64)
	if err != nil {
		return 0, false
	}
	return v, true
}

// frLimitCoin converts a registration limit (ZCN float) into tokens: multiplied by 1e10 and truncated.
func frLimitCoin(f float64) uint64 {
	if v := f * 1e10; v > 0 && v < 1.8e19 {
		return uint64(v)
	}
	return 0
}

// frReadPoolFraction reads free_allocation_settings.read_pool_fraction from the stored configuration of snapshot s.
func frReadPoolFraction(h *Hist, s snap.Snapshot) float64 {
	n := h.NodeByKey(s, stSC+encryption.Hash("storagesc_config"))
	if n == nil {
		return 0
	}
	var v struct {
		Free struct {
			Fraction float64 `json:"read_pool_fraction"`
		} `json:"free_allocation_settings"`
	}
	if b, err := json.Marshal(n.Val); err != nil || json.Unmarshal(b, &v) != nil {
		return 0
	}
	return v.Free.Fraction
}

func frModelOf(h *Hist) *frModel {
	m, _ := h.Vars["frC24"].(*frModel)
	if m == nil {
		m = &frModel{Key: map[string]string{}, Nonces: map[string]map[int64]bool{}, Order: map[string][]int64{}, Lim: map[string]frLimits{}, Sum: map[string]uint64{}}
		h.Vars["frC24"] = m
	}
	return m
}

// outOfOrder tells whether the assigner's markers were redeemed in an order other than increasing nonce.
func (m *frModel) outOfOrder(assigner string) bool {
	o := m.Order[assigner]
	for i := 1; i < len(o); i++ {
		if o[i] < o[i-1] {
			return true
		}
	}
	return false
}

// frSignedByKey: does the marker's signature verify under public key pub? known = the harness owns a wallet with that key.
func frSignedByKey(h *Hist, pub string, m *frWire) (known, ok bool) {
	for _, w := range h.W.Wallets {
		if w.PubKey != pub {
			continue
		}
		func() {
			defer func() { _ = recover() }()
			v, err := w.Scheme.Verify(m.Signature, hex.EncodeToString([]byte(stFreeMarkerString(m.Recipient, m.FreeTokens, m.Nonce, m.Blobbers))))
			ok = v && err == nil
		}()
		return true, ok
	}
	return false, false
}

// frAuthorised tells whether a free_allocation_request may debit the contract owner's wallet: the marker in the transaction
// input names the sender as recipient, is signed by the key of an assigner the monitor saw registered, and carries a nonce that
// assigner's markers have not used before (the monitor's own set; C04 is evaluated before C24 records the current transaction).
//
// A marker is an authorisation over its token amount, inside what the owner granted the assigner: the amount must be a positive
// token amount within the individual limit of the assigner's registration in force (the last one the monitor saw applied), the
// monitor's OWN running total of everything redeemed under that assigner's name since its FIRST registration plus this amount
// must stay within the total limit in force, and the owner's wallet must not lose more than the marker's amount. Neither the
// nonce set nor the running total is reset by a later registration of the same name: a registration states limits, it does not
// hand spent markers back. The contract's stored CurrentRedeemed / RedeemedNonces play no part.
func frAuthorised(h *Hist, o *TxnObs) bool {
	if o.Txn.FunctionName != "free_allocation_request" {
		return false
	}
	why := func(reason string) bool {
		h.C("C04", "free_grant_not_authorised:"+reason)
		return false
	}
	m := frDecode(o.Txn.InputData)
	if m == nil || m.Recipient != o.Txn.ClientID {
		return why("no-marker-for-the-sender")
	}
	fm := frModelOf(h)
	pub, reg := fm.Key[m.Assigner]
	if !reg {
		return why("assigner-never-registered")
	}
	if fm.Nonces[m.Assigner][m.Nonce] {
		return why("marker-nonce-redeemed-before")
	}
	if known, ok := frSignedByKey(h, pub, m); !known || !ok {
		return why("not-signed-by-the-registered-key")
	}
	coin, okc := frCoin(m.FreeTokens)
	if !okc || coin == 0 {
		return why("marker-without-token-amount")
	}
	lim, okl := fm.Lim[m.Assigner]
	if !okl {
		return why("assigner-never-registered")
	}
	if coin > lim.Indiv {
		return why("marker-above-individual-limit-in-force")
	}
	if sum := fm.Sum[m.Assigner]; sum+coin < sum || sum+coin > lim.Total {
		return why("all-redemptions-plus-marker-above-total-limit-in-force")
	}
	if d := h.deltas(o)[h.S.StorageOwnerID()]; d < 0 && uint64(-d) > coin {
		return why("owner-debited-above-marker-amount")
	}
	h.C("C04", "free_grants_judged_against_own_nonces_and_running_total")
	if sum := fm.Sum[m.Assigner]; sum > 0 {
		h.C("C04", "free_grants_after_earlier_redemptions_of_the_assigner")
		if sum+coin == lim.Total {
			h.C("C04", "free_grants_reaching_the_total_limit_in_force_exactly")
		}
	}
	return true
}

// ---- directed scenario (C24, C04): redemptions OUT OF nonce order, then every redeemed marker again ------------------------------------

func init() {
	RegisterScenario(Scenario{Prop: "C24", Name: "free-markers-out-of-order-then-replayed", Every: 1, Fn: frScenario})
	RegisterScenario(Scenario{Prop: "C04", Name: "free-markers-out-of-order-then-replayed", Every: 1, Fn: frScenario})
}

// frScenario: one assigner's markers are redeemed in non-monotonic nonce order (high, low, middle, timestamps, a decreasing
// series), then EVERY redeemed request is sent again byte for byte, markers with used nonces are signed afresh, a fresh
// marker is redeemed and the replays are repeated. A second assigner reuses the first one's nonces (allowed: once per
// assigner). Every step is an ordinary free_allocation_request transaction.
//
// Around it (frLimits*): in most histories the owner first sets free_allocation_settings.read_pool_fraction to a non-zero value
// through update_settings + commit_settings_changes, and afterwards a fresh assigner with a SMALL total limit (2-4 x its
// individual limit) has distinct, validly signed markers redeemed up to the total limit, exactly onto it and beyond it.
func frScenario(h *Hist, mons []Monitor) {
	st := h.S.St
	r := h.R.Fork("fr-scenario")
	st.NoHostile = true
	defer func() { st.NoHostile = false }()
	rl := r.Fork("fr-limits")
	if rl.Chance(0.75) {
		frSetFraction(h, rl)
	}
	if rl.Chance(0.5) {
		frOrderPhase(h, r)
		frLimitPhase(h, rl)
	} else {
		frLimitPhase(h, rl)
		frOrderPhase(h, r)
	}
	h.EndBlock()
}

// frSetFraction: the owner stages a non-zero read pool fraction of free allocations, a miner commits the staged settings.
func frSetFraction(h *Hist, r *mon.Rand) {
	st := h.S.St
	v := []string{"0.1", "0.2", "0.25", "0.3", "0.4", "0.5"}[r.Intn(6)]
	f := map[string]string{"free_allocation_settings.read_pool_fraction": v}
	c := stCall(h, r, "update_settings", h.W.Owner, map[string]interface{}{"fields": f}, 0)
	c.Meta["fields"], c.Meta["scenario"] = f, "fr"
	if o := h.stInner(c); o.Outcome == "success" {
		for k, v := range f {
			st.Pending[k] = v
		}
		c = stCall(h, r, "commit_settings_changes", h.W.Miners[int(h.stExecRound())%len(h.W.Miners)], map[string]interface{}{}, 0)
		c.Meta["scenario"] = "fr"
		h.stInner(c)
	}
	h.stNextBlock(r, 10)
	if run := h.Runs[h.Focus]; run != nil && frReadPoolFraction(h, h.Cur) > 0 {
		run.Count("scenario_histories_with_read_pool_fraction_set", 1)
		run.Count("scenario_read_pool_fraction:"+v, 1)
	}
}

// frLimitPhase: a fresh assigner with individual limit L and total limit k*L (k in 2..4, also 2.5 / 3.5 so that the remainder
// is smaller than a full grant). Distinct valid markers (mostly of L, sometimes L/2 or L/4) are redeemed until the next one
// would pass the total limit; a marker overshooting the remainder (inside the individual limit) must be refused, the marker
// of exactly the remainder must be accepted, and with the total used up every further marker - the smallest amount, L/2, L -
// must be refused. Now and then the owner then raises the total limit by one grant: one more marker fits, the next does not.
func frLimitPhase(h *Hist, r *mon.Rand) {
	st := h.S.St
	run := h.Runs[h.Focus]
	count := func(what string, o *TxnObs) {
		if run != nil {
			run.Count("scenario_free_limit:"+what+"|"+o.Outcome, 1)
		}
	}
	L := []float64{0.2, 0.5, 1, 2}[r.Intn(4)]
	k := []float64{2, 3, 4, 2.5, 3.5}[r.Intn(5)]
	as := &stAssigner{W: h.stWallet(fmt.Sprintf("assigner%d", st.next())), Used: map[int64]bool{}, Next: 1}
	st.Assigners = append(st.Assigners, as)
	register := func(total float64) bool {
		c := stCall(h, r, "add_free_storage_assigner", h.W.Owner, map[string]interface{}{"name": as.W.ID, "public_key": as.W.PubKey, "individual_limit": L, "total_limit": total}, 0)
		c.Meta["assigner"], c.Meta["scenario"] = as.W.ID, "fr"
		if o := h.stInner(c); o.Outcome != "success" {
			return false
		}
		as.Reg, as.Indiv, as.Total = true, uint64(L*1e10), uint64(total*1e10)
		return true
	}
	if !register(L * k) {
		return
	}
	redeem := func(tokens float64, mut string) *TxnObs {
		blobbers, _ := frBlobbers(h, r)
		recipient := h.stClient(r)
		c := frBuildCall(h, r, &frSpec{As: as, AssignerName: as.W.ID, Recipient: recipient, Sender: recipient, Signer: as.W, Tokens: tokens, Nonce: frNonce(h, r, as, -1), Blobbers: blobbers, Mut: mut})
		c.Meta["scenario"] = "fr"
		o := h.stInner(c)
		what := mut
		if what == "" {
			what = "within"
		}
		count(what, o)
		if r.Chance(0.4) {
			h.stNextBlock(r, 5)
		}
		return o
	}
	coinOf := func(tokens float64) uint64 { return uint64(math.Round(tokens * 1e10)) }
	fill := func() bool { // redeem until the total limit is reached exactly
		for step := 0; step < 12 && as.Redeemed < as.Total; step++ {
			left := as.Total - as.Redeemed
			tokens := L / []float64{1, 1, 1, 1, 2, 4}[r.Intn(6)]
			what := ""
			if coinOf(tokens) > left {
				if r.Chance(0.6) {
					redeem(tokens, "over-total-limit") // inside the individual limit, past the remainder
				}
				tokens, what = float64(left)/1e10, "exact-remainder"
			} else if coinOf(tokens) == left {
				what = "exact-remainder"
			}
			o := redeem(tokens, "")
			if what != "" {
				count(what, o)
			}
			if o.Outcome != "success" {
				return false // free allocations cannot be created in this history (settings / blobbers / funds)
			}
		}
		return as.Redeemed == as.Total
	}
	beyond := func(n int) {
		for i := 0; i < n; i++ {
			redeem([]float64{0.01, L, L / 2, L / 4, 0.0000000001, 0.05}[r.Intn(6)], "over-total-limit")
		}
	}
	if !fill() {
		return
	}
	if run != nil {
		run.Count("scenario_free_limit_total_used_up", 1)
	}
	h.stNextBlock(r, 20)
	beyond(2 + r.Intn(3))
	if r.Chance(0.4) && register(float64(as.Total)/1e10+L) { // the owner grants this assigner one more marker's worth
		if fill() {
			if run != nil {
				run.Count("scenario_free_limit_total_used_up_after_raise", 1)
			}
			beyond(1 + r.Intn(2))
		}
	}
}

// frOrderPhase is the out-of-order / replay part described above.
func frOrderPhase(h *Hist, r *mon.Rand) {
	st := h.S.St
	var regd []*stAssigner
	for _, as := range st.Assigners {
		if as.Reg && as.Total >= as.Redeemed+1e10 { // room for this phase's markers (not an assigner whose total is used up)
			regd = append(regd, as)
		}
	}
	if len(regd) < 2 {
		nas := &stAssigner{W: h.stWallet(fmt.Sprintf("assigner%d", st.next())), Used: map[int64]bool{}, Next: 1}
		st.Assigners = append(st.Assigners, nas)
		c := stCall(h, r, "add_free_storage_assigner", h.W.Owner, map[string]interface{}{"name": nas.W.ID, "public_key": nas.W.PubKey, "individual_limit": 20.0, "total_limit": 500.0}, 0)
		c.Meta["assigner"] = nas.W.ID
		if o := h.stInner(c); o.Outcome == "success" {
			nas.Reg, nas.Indiv, nas.Total = true, 20e10, 500e10
			regd = append(regd, nas)
		}
	}
	if len(regd) == 0 {
		return
	}
	as := regd[r.Intn(len(regd))]
	fs := frStateOf(h, as)
	run := h.Runs[h.Focus]
	count := func(what string, o *TxnObs) {
		if run != nil {
			run.Count("scenario_free_request:"+what+"|"+o.Outcome, 1)
		}
	}
	redeem := func(as *stAssigner, nonce int64, mut string) *TxnObs {
		blobbers, _ := frBlobbers(h, r)
		recipient := h.stClient(r)
		tokens := []float64{0.01, 0.02, 0.05, 0.1}[r.Intn(4)]
		if uint64(tokens*1e10) > as.Indiv {
			tokens = float64(as.Indiv) / 1e10
		}
		c := frBuildCall(h, r, &frSpec{As: as, AssignerName: as.W.ID, Recipient: recipient, Sender: recipient, Signer: as.W, Tokens: tokens, Nonce: nonce, Blobbers: blobbers, Mut: mut})
		c.Meta["scenario"] = "fr"
		o := h.stInner(c)
		what := mut
		if what == "" {
			what = "fresh"
		}
		count(what, o)
		if r.Chance(0.4) {
			h.stNextBlock(r, 5)
		}
		return o
	}
	replay := func(as *stAssigner, rd *frRedeemed) {
		c := frBuildCall(h, r, &frSpec{As: as, AssignerName: as.W.ID, Recipient: rd.By, Sender: rd.By, Signer: as.W, Tokens: 0.01, Nonce: rd.Nonce, Mut: "replay", Replay: rd})
		c.Meta["scenario"] = "fr"
		count("replay", h.stInner(c))
		if r.Chance(0.3) {
			h.stNextBlock(r, 5)
		}
	}
	// (1) redemptions in non-monotonic nonce order
	kinds := [][]int{{2, 0, 1, 3, 4}, {3, 2, 0, 1}, {5, 5, 5, 5}, {4, 3, 1, 0, 2}, {2, 1, 0, 5, 3}, {0, 2, 1, 6, 3}}[r.Intn(6)]
	ok := 0
	for i, k := range kinds {
		if o := redeem(as, frNonce(h, r, as, k), ""); o.Outcome == "success" {
			ok++
		} else if i == 0 {
			return // free allocations cannot be created in this history (settings / blobbers): nothing to replay
		}
	}
	h.stNextBlock(r, 30)
	// (2) every redeemed request again, in random order; used nonces signed afresh
	again := func() {
		rs := append([]*frRedeemed{}, fs.Redeemed...)
		r.Shuffle(len(rs), func(i, j int) { rs[i], rs[j] = rs[j], rs[i] })
		if len(rs) > 6 {
			rs = rs[:6]
		}
		for _, rd := range rs {
			replay(as, rd)
		}
	}
	again()
	for i := 0; i < 2 && len(fs.Redeemed) > 0; i++ {
		redeem(as, fs.Redeemed[r.Intn(len(fs.Redeemed))].Nonce, "reused-nonce")
	}
	// (3) the other assigner redeems a nonce the first one used (fine), then that one is replayed too
	for _, other := range regd {
		if other != as && len(fs.Redeemed) > 0 {
			n := fs.Redeemed[r.Intn(len(fs.Redeemed))].Nonce
			if !other.Used[n] {
				if o := redeem(other, n, ""); o.Outcome == "success" {
					if of := frStateOf(h, other); len(of.Redeemed) > 0 {
						replay(other, of.Redeemed[len(of.Redeemed)-1])
					}
				}
			}
			break
		}
	}
	// (4) a fresh marker below / between the redeemed ones, then the replays once more
	redeem(as, frNonce(h, r, as, []int{0, 1, 5}[r.Intn(3)]), "")
	again()
}

// ---- logical time -----------------------------------------------------------------------------------------------------------

// stTimeJump moves the clock close to / past the expiration of an open allocation (time_unit is 720h, the engine's own
// jumps never get there). Nothing is submitted.
func stTimeJump(h *Hist, r *mon.Rand) *Call {
	st := h.S.St
	if st.Jumps >= 4 || st.SinceJump < 35 {
		return nil
	}
	_, running, views := h.stExpiredSplit()
	if len(running) == 0 {
		return nil
	}
	a := running[r.Intn(len(running))]
	for _, b := range running { // the allocation that expires first
		if views[b.ID].Expiration < views[a.ID].Expiration && r.Chance(0.7) {
			a = b
		}
	}
	left := views[a.ID].Expiration - int64(h.W.Now)
	var d int64
	switch r.Intn(10) {
	case 0, 1:
		d = left / 2
	case 2, 3:
		d = left - int64(1+r.Intn(600)) // just before expiry: cancel, markers and challenge responses still allowed
	case 4:
		d = left // exactly at expiry
	default:
		d = left + int64(1+r.Intn(7200))
	}
	if d <= 0 {
		return nil
	}
	st.Jumps++
	st.SinceJump = 0
	h.EndBlock()
	h.W.Advance(time.Duration(d) * time.Second)
	fmt.Printf("OP %s {\"op\":\"storage.time-jump\",\"seconds\":%d,\"alloc\":%q}\n", h.ID, d, a.ID)
	if run := h.Runs[h.Focus]; run != nil {
		run.Count("op:storage.time-jump|done", 1)
	}
	return nil
}

func stAllocOps() []OpDef {
	return []OpDef{
		{Name: "storage.new_allocation_request", Tags: []string{"storage", "alloc", "C12", "C13", "C14"}, Build: func(h *Hist, r *mon.Rand) *Call {
			if len(h.S.St.open()) >= 6 && r.Chance(0.75) {
				return stUpdateAlloc(h, r)
			}
			return stNewAlloc(h, r)
		}},
		{Name: "storage.new_allocation_request", Tags: []string{"storage", "alloc", "C12", "C13", "C14"}, Build: func(h *Hist, r *mon.Rand) *Call {
			if n := len(h.S.St.open()); n >= 3 && r.Chance(0.25*float64(n-2)) {
				return stCommit(h, r)
			}
			return stNewAlloc(h, r)
		}},
		{Name: "storage.update_allocation_request", Tags: []string{"storage", "alloc", "C13", "C14", "C23"}, Build: stUpdateAlloc},
		{Name: "storage.update_allocation_request", Tags: []string{"storage", "alloc", "C13"}, Build: stUpdateAlloc},
		{Name: "storage.finalize_allocation", Tags: []string{"storage", "alloc", "close", "C14"}, Build: stFinalize},
		{Name: "storage.finalize_allocation", Tags: []string{"storage", "close", "C14"}, Build: func(h *Hist, r *mon.Rand) *Call {
			if expired, _, _ := h.stExpiredSplit(); len(expired) == 0 {
				return stCommit(h, r)
			}
			return stFinalize(h, r)
		}},
		{Name: "storage.cancel_allocation", Tags: []string{"storage", "alloc", "close", "C14"}, Build: stCancel},
		{Name: "storage.write_pool_lock", Tags: []string{"storage", "alloc", "close", "C14"}, Build: stWritePoolLock},
		{Name: "storage.add_free_storage_assigner", Tags: []string{"storage", "free", "C24"}, Build: stAddAssigner},
		{Name: "storage.free_allocation_request", Tags: []string{"storage", "free", "alloc", "C24"}, Build: stFreeAlloc},
		{Name: "storage.free_allocation_request", Tags: []string{"storage", "free", "C24"}, Build: stFreeAlloc},
		{Name: "storage.time-jump", Tags: []string{"storage", "close", "C14", "challenge"}, Build: func(h *Hist, r *mon.Rand) *Call {
			if r.Chance(0.5) {
				return nil
			}
			return stTimeJump(h, r)
		}},
	}
}
