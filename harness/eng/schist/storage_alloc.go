package schist

import (
	"encoding/hex"
	"encoding/json"
	"fmt"
	"math"
	"time"

	"verifh/mon"
	"verifh/world"
)

// ---- allocations ------------------------------------------------------------------------------------------------------------

func stBSize(size int64, data int) int64 {
	if data <= 0 {
		return size
	}
	return int64(math.Ceil(float64(size) / float64(data)))
}

// write price of a blobber as the contract currently stores it (falls back to what the generator registered)
func (h *Hist) stTermsOf(p *stProv) stTerms {
	if n := h.stNode(p.W.ID); n != nil && n.ProviderType == 3 {
		return n.Terms
	}
	return stTerms{ReadPrice: p.ReadPrice, WritePrice: p.WritePrice}
}

func (h *Hist) stCost(ps []*stProv, bsize int64) uint64 {
	var c uint64
	for _, p := range ps {
		c += uint64(float64(h.stTermsOf(p).WritePrice) * (float64(bsize) / stGB))
	}
	return c
}

func (h *Hist) stAuthTickets(ps []*stProv, owner string) []string {
	out := make([]string, len(ps))
	for i, p := range ps {
		if p != nil && p.Restricted {
			out[i] = p.W.Sign(owner) // the blobber signs the owner's client id
		}
	}
	return out
}

// stUsable tells whether the contract would currently accept the blobber for a new offer of bsize bytes (the checks of
// storageAllocationBase.isActive, recomputed from the state view).
func (h *Hist) stUsable(p *stProv, bsize int64) bool {
	n := h.stNode(p.W.ID)
	sp := h.stSP("blobber", p.W.ID)
	if n == nil || sp == nil || n.ProviderType != 3 || n.IsKilled || n.IsShutDown || n.NotAvailable {
		return false
	}
	stake, wp := sp.stake(), n.Terms.WritePrice
	if wp == 0 {
		return n.Capacity-n.Allocated >= bsize
	}
	stakedCap := int64(float64(stake) / float64(wp) * stGB)
	if n.Capacity-n.Allocated < bsize || stakedCap-n.Allocated < bsize || stake <= sp.TotalOffers {
		return false
	}
	return int64(float64(stake-sp.TotalOffers)/float64(wp)*stGB) >= bsize
}

func (h *Hist) stUsableFirst(r *mon.Rand, in []*stProv, bsize int64) []*stProv {
	var ok, rest []*stProv
	for _, p := range stShuffled(r, in) {
		if h.stUsable(p, bsize) {
			ok = append(ok, p)
		} else {
			rest = append(rest, p)
		}
	}
	if r.Chance(0.92) {
		return append(ok, rest...)
	}
	return stShuffled(r, in) // now and then an unusable blobber comes first: late failure in blobber validation
}

func stIDs(ps []*stProv) []string {
	out := make([]string, len(ps))
	for i, p := range ps {
		out[i] = p.W.ID
	}
	return out
}

func stShuffled(r *mon.Rand, in []*stProv) []*stProv {
	out := append([]*stProv{}, in...)
	r.Shuffle(len(out), func(i, j int) { out[i], out[j] = out[j], out[i] })
	return out
}

func (h *Hist) stRegisterAlloc(id string, owner *world.Wallet, free bool) *stAlloc {
	a := &stAlloc{ID: id, Owner: owner, Free: free, WM: map[string]*stWM{}, RC: map[string]int64{}, RMRaw: map[string][]byte{}, Readers: map[string]*world.Wallet{}}
	h.S.St.Allocs = append(h.S.St.Allocs, a)
	return a
}

func stNewAlloc(h *Hist, r *mon.Rand) *Call {
	st := h.S.St
	conf := h.stConf()
	sizes := []int64{conf.MinAllocSize, 4 * stMB, 64 * stMB, 256 * stMB, stGB, 3 * stGB}
	size := sizes[r.Intn(len(sizes))]
	owner := h.stClient(r)
	d, p := 1+r.Intn(3), 1+r.Intn(2)
	live := h.stUsableFirst(r, st.live(st.Blobbers), stBSize(size, d))
	for d+p > len(live) && d+p > 2 {
		if d > 1 {
			d--
		} else {
			p--
		}
	}
	mut := ""
	n := d + p
	if n > len(live) {
		n = len(live)
	}
	if n == 0 {
		return stAddProvider(h, r, "blobber")
	}
	chosen := append([]*stProv{}, live[:n]...)
	if len(live) > n && r.Chance(0.25) {
		chosen = append(chosen, live[n]) // a spare blobber: the contract takes the first d+p valid ones
	}
	in := map[string]interface{}{
		"data_shards": d, "parity_shards": p, "size": size,
		"read_price_range":       map[string]uint64{"min": 0, "max": conf.MaxReadPrice},
		"write_price_range":      map[string]uint64{"min": 0, "max": conf.MaxWritePrice},
		"third_party_extendable": r.Chance(0.3),
	}
	if r.Chance(0.3) {
		in["file_options_changed"], in["file_options"] = true, r.Intn(64)
	}
	allocOwner := owner
	switch r.Intn(4) {
	case 0:
		in["owner_id"], in["owner_public_key"] = owner.ID, owner.PubKey
	case 1:
		if r.Chance(0.3) { // allocation created on behalf of another client
			allocOwner = h.stClient(r)
			in["owner_id"], in["owner_public_key"] = allocOwner.ID, allocOwner.PubKey
		}
	}
	ids := stIDs(chosen)
	tickets := h.stAuthTickets(chosen, allocOwner.ID)
	cost := h.stCost(chosen[:n], stBSize(size, d))
	val := cost*uint64(2+r.Intn(3)) + 1e9
	if r.Chance(0.15) {
		val = cost + 1 // float rounding of the contract's own sum may differ by a unit
	}
	if h.stHostile(r, 0.8) {
		switch r.Intn(14) {
		case 0:
			mut = "dup-blobber"
			if len(ids) > 1 {
				ids[1] = ids[0]
			}
		case 1:
			mut = "unknown-blobber"
			ids[r.Intn(len(ids))] = stHash(fmt.Sprintf("ghost-blobber-%d", st.next()))
		case 2:
			mut = "dead-blobber"
			if dd := st.dead(st.Blobbers); len(dd) > 0 {
				ids[0] = dd[r.Intn(len(dd))].W.ID
			} else {
				mut = "too-few-blobbers"
				ids = ids[:len(ids)-1]
				tickets = tickets[:len(ids)]
			}
		case 3:
			mut = "too-few-blobbers"
			ids = ids[:len(ids)-1]
			tickets = tickets[:len(ids)]
		case 4:
			mut = "underfunded"
			val = cost / 2
		case 5:
			mut = "value-0"
			val = 0
		case 6:
			mut = "value-1"
			val = 1
		case 7:
			mut = "value-above-balance"
			bal, _ := h.Bal(h.Cur, owner.ID)
			val = bal + 1 + uint64(r.Intn(1000))
		case 8:
			mut = "size-below-min"
			in["size"] = []int64{0, -1, 1, conf.MinAllocSize - 1}[r.Intn(4)]
		case 9:
			mut = "size-huge"
			in["size"] = []int64{1 << 50, math.MaxInt64, 5000 * stGB}[r.Intn(3)]
		case 10:
			mut = "bad-price-range"
			in["write_price_range"] = map[string]uint64{"min": 5, "max": 1}
		case 11:
			mut = "narrow-price-range"
			in["write_price_range"] = map[string]uint64{"min": 0, "max": 1e7}
			in["read_price_range"] = map[string]uint64{"min": 0, "max": 0}
		case 12:
			mut = "shards-0"
			if r.Chance(0.5) {
				in["data_shards"] = 0
			} else {
				in["parity_shards"] = -1
			}
		case 13:
			mut = "tickets-missing"
			tickets = tickets[:len(tickets)/2]
		}
	}
	in["blobbers"], in["blobber_auth_tickets"] = ids, tickets
	c := stCall(h, r, "new_allocation_request", owner, in, val)
	c.Mut = mut
	c.Meta["blobbers"], c.Meta["owner"], c.Meta["size"] = ids, allocOwner.ID, size
	c.After = func(h *Hist, o *TxnObs) {
		if o.Outcome != "success" {
			return
		}
		var out struct {
			ID string `json:"id"`
		}
		id := o.Txn.Hash
		if json.Unmarshal([]byte(o.Txn.TransactionOutput), &out) == nil && out.ID != "" {
			id = out.ID
		}
		o.Call.Meta["alloc"] = id
		h.stRegisterAlloc(id, allocOwner, false)
	}
	return c
}

// pick an allocation id to operate on; with a hostile chance a closed or unknown one
func (h *Hist) stAllocTarget(r *mon.Rand, scale float64) (a *stAlloc, v *stAllocView, id, mut string) {
	st := h.S.St
	if h.stHostile(r, scale) {
		if cl := st.closed(); len(cl) > 0 && r.Chance(0.7) {
			a = cl[r.Intn(len(cl))]
			return a, nil, a.ID, "closed-alloc"
		}
		return nil, nil, stUnknownID(r), "unknown-alloc"
	}
	if len(st.open()) < 2 && r.Chance(0.6) {
		return nil, nil, "", "" // callers fall back to creating an allocation
	}
	a, v = h.stPickAlloc(r)
	if a == nil {
		return nil, nil, "", ""
	}
	return a, v, a.ID, ""
}

func stUpdateAlloc(h *Hist, r *mon.Rand) *Call {
	st := h.S.St
	a, v, id, mut := h.stAllocTarget(r, 0.15)
	if id == "" && mut == "" {
		return stNewAlloc(h, r)
	}
	from := h.stClient(r)
	if a != nil {
		from = a.Owner
	}
	in := map[string]interface{}{"id": id}
	var val uint64
	var newOwner *world.Wallet
	kind := ""
	if v != nil {
		inAlloc := map[string]bool{}
		var members []*stProv
		for _, b := range v.BlobberAllocs {
			inAlloc[b.BlobberID] = true
			if p := st.blobberByID(b.BlobberID); p != nil {
				members = append(members, p)
			}
		}
		bs := stBSize(v.Size, v.DataShards)
		var outside []*stProv
		for _, p := range h.stUsableFirst(r, st.live(st.Blobbers), bs) {
			if !inAlloc[p.W.ID] {
				outside = append(outside, p)
			}
		}
		full := h.stCost(members, bs)
		kinds := []string{"extend", "extend", "grow", "grow", "add-blobber", "replace-blobber", "replace-blobber", "third-party-flag", "file-options", "owner-change", "third-party-extend", "extend-and-grow"}
		kind = kinds[r.Intn(len(kinds))]
		for _, m := range members {
			if m.Dead != "" && r.Chance(0.8) && (kind == "grow" || kind == "extend-and-grow" || kind == "add-blobber") {
				kind = "replace-blobber" // growing needs every member alive: replace the dead one first
			}
		}
		switch kind {
		case "extend":
			in["extend"] = true
			val = full + 1e9
		case "grow", "extend-and-grow":
			inc := []int64{1, 64 * stKB, stMB, v.Size / 2, v.Size}[r.Intn(5)]
			in["size"] = inc
			if kind == "extend-and-grow" {
				in["extend"] = true
			}
			val = h.stCost(members, stBSize(v.Size+inc, v.DataShards))*2 + 1e9
		case "add-blobber":
			if len(outside) == 0 {
				in["extend"] = true
				break
			}
			np := outside[0]
			in["add_blobber_id"] = np.W.ID
			in["add_blobber_auth_ticket"] = h.stAuthTickets([]*stProv{np}, v.Owner)[0]
			val = full + h.stCost([]*stProv{np}, bs) + 1e9
		case "replace-blobber":
			if len(outside) == 0 || len(members) == 0 {
				in["extend"] = true
				break
			}
			np := outside[0]
			rm := members[r.Intn(len(members))]
			for _, m := range members { // prefer replacing a killed / shut-down member
				if m.Dead != "" {
					rm = m
					kind = "replace-dead-blobber"
				}
			}
			in["add_blobber_id"], in["remove_blobber_id"] = np.W.ID, rm.W.ID
			in["add_blobber_auth_ticket"] = h.stAuthTickets([]*stProv{np}, v.Owner)[0]
			val = full + h.stCost([]*stProv{np}, bs) + 1e9
		case "third-party-flag":
			in["set_third_party_extendable"] = true
		case "file-options":
			in["file_options_changed"], in["file_options"] = true, (int(v.FileOptions)+1+r.Intn(62))%64
		case "owner-change":
			newOwner = h.stClient(r)
			in["owner_id"], in["owner_public_key"] = newOwner.ID, newOwner.PubKey
			if newOwner.ID == v.Owner {
				in["set_third_party_extendable"] = true
				newOwner = nil
			}
		case "third-party-extend":
			from = h.stClient(r)
			in["extend"] = true
			val = full + 1e9
			if !v.ThirdPartyExtendable && from.ID != v.Owner {
				mut = "third-party-not-allowed"
			}
		}
		if r.Chance(0.3) {
			val = 0 // rely on what is already locked
		}
		if mut == "" && h.stHostile(r, 0.7) {
			switch r.Intn(9) {
			case 0:
				mut = "stranger"
				from = h.stStranger(r)
			case 1:
				mut = "reduce-size"
				in["size"] = -int64(1 + r.Intn(int(stMB)))
			case 2:
				mut = "changes-nothing"
				in = map[string]interface{}{"id": id}
			case 3:
				mut = "remove-without-add"
				if len(members) > 0 {
					in["remove_blobber_id"] = members[0].W.ID
				}
				delete(in, "add_blobber_id")
			case 4:
				mut = "add-member-again"
				if len(members) > 0 {
					in["add_blobber_id"] = members[r.Intn(len(members))].W.ID
				}
			case 5:
				mut = "remove-non-member"
				if len(outside) > 1 {
					in["add_blobber_id"], in["remove_blobber_id"] = outside[0].W.ID, outside[1].W.ID
				} else {
					in["remove_blobber_id"] = stHash("ghost")
				}
			case 6:
				mut = "file-options-64"
				in["file_options_changed"], in["file_options"] = true, 64+r.Intn(1000)
			case 7:
				mut = "owner-change-no-key"
				in["owner_id"] = h.stClient(r).ID
				delete(in, "owner_public_key")
				newOwner = nil
			case 8:
				mut = "grow-huge"
				in["size"] = int64(1) << (40 + uint(r.Intn(20)))
			}
		}
	} else {
		in["extend"] = true
		if a != nil {
			from = a.Owner
		}
	}
	c := stCall(h, r, "update_allocation_request", from, in, val)
	c.Mut = mut
	c.Meta["alloc"], c.Meta["kind"] = id, kind
	if b, ok := in["add_blobber_id"].(string); ok {
		c.Meta["blobber"] = b
	}
	probe := ""
	if rm, ok := in["remove_blobber_id"].(string); ok && rm != "" {
		c.Meta["removed_blobber"] = rm
		probe = h.stPartialProbe(id, rm, "replace", false)
		c.Meta["partial_pass"] = probe != ""
	}
	c.After = stProbeAfter(probe, func(h *Hist, o *TxnObs) {
		if o.Outcome == "success" && a != nil && newOwner != nil {
			if _, set := in["owner_id"]; set {
				a.Owner = newOwner
			}
		}
	})
	return c
}

func (h *Hist) stExpiredSplit() (expired, running []*stAlloc, views map[string]*stAllocView) {
	views = map[string]*stAllocView{}
	now := int64(h.W.Now)
	for _, a := range h.S.St.open() {
		v := h.stGetAlloc(a.ID)
		if v == nil {
			a.Closed = "gone"
			continue
		}
		views[a.ID] = v
		if ow := h.W.Wallets[v.Owner]; ow != nil {
			a.Owner = ow
		}
		if v.Expiration <= now {
			expired = append(expired, a)
		} else {
			running = append(running, a)
		}
	}
	return
}

func stCloseAfter(a *stAlloc, how string) func(h *Hist, o *TxnObs) {
	return func(h *Hist, o *TxnObs) {
		if o.Outcome == "success" && a != nil && a.Closed == "" {
			a.Closed = how
		}
	}
}

func stFinalize(h *Hist, r *mon.Rand) *Call {
	st := h.S.St
	expired, running, views := h.stExpiredSplit()
	var a *stAlloc
	mut := ""
	id := ""
	switch {
	case h.stHostile(r, 0.15) && len(st.closed()) > 0:
		cl := st.closed()
		a = cl[r.Intn(len(cl))]
		id, mut = a.ID, "second-close"
	case h.stHostile(r, 0.05):
		id, mut = stUnknownID(r), "unknown-alloc"
	case len(expired) > 0:
		a = expired[r.Intn(len(expired))]
		id = a.ID
	case len(running) > 0 && (r.Chance(0.08) || h.stHostile(r, 0.4)):
		a = running[r.Intn(len(running))]
		id, mut = a.ID, "before-expiry"
	default:
		if len(running) > 0 && r.Chance(0.5) {
			return stTimeJump(h, r)
		}
		return nil
	}
	from := h.stClient(r)
	if a != nil {
		from = a.Owner
		if v := views[a.ID]; v != nil && len(v.BlobberAllocs) > 0 && r.Chance(0.3) {
			if bp := st.blobberByID(v.BlobberAllocs[r.Intn(len(v.BlobberAllocs))].BlobberID); bp != nil {
				from = bp.W // one of the allocation's blobbers may finalize
				if mut == "before-expiry" {
					mut = "blobber-before-expiry"
				}
			}
		}
		if mut == "" && h.stHostile(r, 0.4) {
			mut = "stranger"
			from = h.stStranger(r)
			if r.Chance(0.4) { // a blobber that is not part of the allocation
				for _, p := range st.live(st.Blobbers) {
					if v := views[a.ID]; v != nil && v.ba(p.W.ID) == nil {
						from, mut = p.W, "foreign-blobber"
						break
					}
				}
			}
		}
	}
	c := stCall(h, r, "finalize_allocation", from, map[string]string{"allocation_id": id}, uint64(r.Intn(2)*r.Intn(1000)))
	c.Mut = mut
	c.Meta["alloc"], c.Meta["closes"] = id, "finalize"
	probe := h.stPartialProbe(id, "", "finalize", false)
	c.Meta["partial_pass"] = probe != ""
	c.After = stProbeAfter(probe, stCloseAfter(a, "finalize"))
	if mut == "second-close" {
		c.After = nil
	}
	return c
}

func stCancel(h *Hist, r *mon.Rand) *Call {
	st := h.S.St
	expired, running, views := h.stExpiredSplit()
	var a *stAlloc
	mut, id := "", ""
	switch {
	case h.stHostile(r, 0.15) && len(st.closed()) > 0:
		cl := st.closed()
		a = cl[r.Intn(len(cl))]
		id, mut = a.ID, "second-close"
	case h.stHostile(r, 0.05):
		id, mut = stUnknownID(r), "unknown-alloc"
	case len(expired) > 0 && h.stHostile(r, 0.6):
		a = expired[r.Intn(len(expired))]
		id, mut = a.ID, "after-expiry"
	case len(running) > 2 || (len(running) > 0 && r.Chance(0.3)):
		a = running[r.Intn(len(running))]
		id = a.ID
		// prefer allocations that already carry data and challenges: their close path is the interesting one
		for _, b := range running {
			if v := views[b.ID]; v != nil && v.Stats != nil && v.Stats.UsedSize > 0 && r.Chance(0.4) {
				a, id = b, b.ID
			}
		}
	default:
		return nil
	}
	from := h.stClient(r)
	if a != nil {
		from = a.Owner
		if mut == "" && h.stHostile(r, 0.4) {
			mut = "stranger"
			from = h.stStranger(r)
			if v := views[a.ID]; v != nil && len(v.BlobberAllocs) > 0 && r.Chance(0.5) {
				if bp := st.blobberByID(v.BlobberAllocs[0].BlobberID); bp != nil {
					from, mut = bp.W, "blobber-cancels"
				}
			}
		}
	}
	c := stCall(h, r, "cancel_allocation", from, map[string]string{"allocation_id": id}, 0)
	c.Mut = mut
	c.Meta["alloc"], c.Meta["closes"] = id, "cancel"
	probe := h.stPartialProbe(id, "", "cancel", false)
	c.Meta["partial_pass"] = probe != ""
	c.After = stProbeAfter(probe, stCloseAfter(a, "cancel"))
	if mut == "second-close" {
		c.After = nil
	}
	return c
}

func stWritePoolLock(h *Hist, r *mon.Rand) *Call {
	a, _, id, mut := h.stAllocTarget(r, 0.25)
	if id == "" && mut == "" {
		return stNewAlloc(h, r)
	}
	conf := h.stConf()
	min := conf.writeMinLock()
	from := h.stClient(r)
	if a != nil && r.Chance(0.7) {
		from = a.Owner
	}
	vals := []uint64{min, min + 1, 5e9, 1e10, 1e11, 1e9 + r.U64()%uint64(1e11)}
	val := vals[r.Intn(len(vals))]
	if mut == "" && h.stHostile(r, 0.6) {
		bal, _ := h.Bal(h.Cur, from.ID)
		switch r.Intn(6) {
		case 0:
			mut, val = "value-0", 0
		case 1:
			mut, val = "value-1", 1
		case 2:
			mut, val = "below-min-lock", min-1
		case 3:
			mut, val = "value-above-balance", bal+1
		case 4:
			mut, id = "empty-alloc-id", ""
		case 5:
			mut = "unfunded-sender"
			from = h.S.Extra[r.Intn(len(h.S.Extra))]
		}
	}
	c := stCall(h, r, "write_pool_lock", from, map[string]string{"allocation_id": id}, val)
	c.Mut = mut
	c.Meta["alloc"] = id
	return c
}

// ---- free storage -----------------------------------------------------------------------------------------------------------

func stAddAssigner(h *Hist, r *mon.Rand) *Call {
	st := h.S.St
	conf := h.stConf()
	var as *stAssigner
	if len(st.Assigners) > 0 && (len(st.Assigners) >= 3 || r.Chance(0.6)) {
		as = st.Assigners[r.Intn(len(st.Assigners))] // update limits of an existing assigner
	} else {
		as = &stAssigner{W: h.stWallet(fmt.Sprintf("assigner%d", st.next())), Used: map[int64]bool{}, Next: 1}
		st.Assigners = append(st.Assigners, as)
	}
	maxI, maxT := float64(conf.MaxIndivFree)/1e10, float64(conf.MaxTotalFree)/1e10
	indiv := []float64{0.5, 2, 20, maxI}[r.Intn(4)]
	total := []float64{1, 5, 100, 1000, maxT}[r.Intn(5)]
	if as.Reg && r.Chance(0.4) { // tighten: later markers of this assigner run over the new limits
		indiv, total = 0.05, float64(as.Redeemed)/1e10+0.1
	}
	from := h.W.Owner
	mut := ""
	if h.stHostile(r, 0.6) {
		switch r.Intn(4) {
		case 0:
			mut, from = "stranger", h.stStranger(r)
		case 1:
			mut, indiv = "indiv-above-max", maxI+1
		case 2:
			mut, total = "total-above-max", maxT*2
		case 3:
			mut, indiv = "negative-limit", -1
		}
	}
	in := map[string]interface{}{"name": as.W.ID, "public_key": as.W.PubKey, "individual_limit": indiv, "total_limit": total}
	c := stCall(h, r, "add_free_storage_assigner", from, in, 0)
	c.Mut = mut
	c.Meta["assigner"] = as.W.ID
	c.After = func(h *Hist, o *TxnObs) {
		if o.Outcome == "success" {
			as.Reg, as.Indiv, as.Total = true, uint64(indiv*1e10), uint64(total*1e10)
		}
	}
	return c
}

func stFreeMarkerString(recipient string, tokens float64, nonce int64, blobbers []string) string {
	ids := ""
	for _, b := range blobbers {
		ids += b
	}
	return fmt.Sprintf("%s:%f:%d:%s", recipient, tokens, nonce, ids)
}

func stFreeAlloc(h *Hist, r *mon.Rand) *Call {
	st := h.S.St
	conf := h.stConf()
	var regd []*stAssigner
	for _, as := range st.Assigners {
		if as.Reg {
			regd = append(regd, as)
		}
	}
	if len(regd) == 0 {
		return stAddAssigner(h, r)
	}
	as := regd[r.Intn(len(regd))]
	recipient := h.stClient(r)
	sender := recipient
	// blobbers inside the free-allocation price ranges
	var fit []*stProv
	for _, p := range h.stUsableFirst(r, st.live(st.Blobbers), stBSize(conf.Free.Size, conf.Free.DataShards)) {
		t := h.stTermsOf(p)
		if !h.stUsable(p, stBSize(conf.Free.Size, conf.Free.DataShards)) && r.Chance(0.9) {
			continue
		}
		if t.ReadPrice >= conf.Free.Read.Min && t.ReadPrice <= conf.Free.Read.Max && t.WritePrice >= conf.Free.Write.Min && t.WritePrice <= conf.Free.Write.Max && !p.Restricted {
			fit = append(fit, p)
		}
	}
	need := conf.Free.DataShards + conf.Free.ParityShards
	if len(fit) > need {
		fit = fit[:need]
	}
	if len(fit) < need && r.Chance(0.6) {
		return stNewAlloc(h, r)
	}
	if len(fit) < need { // fill up with others: the request will fail late, in blobber validation
		for _, p := range st.live(st.Blobbers) {
			dup := false
			for _, q := range fit {
				dup = dup || q == p
			}
			if !dup && len(fit) < need {
				fit = append(fit, p)
			}
		}
	}
	blobbers := stIDs(fit)
	tokens := []float64{0.01, 0.05, 0.1, 0.5, 1, 2.5, 5}[r.Intn(7)]
	if uint64(tokens*1e10) > as.Indiv || as.Redeemed+uint64(tokens*1e10) > as.Total {
		if r.Chance(0.7) { // keep most markers inside the limits
			tokens = 0.01
		}
	}
	nonce := as.Next
	as.Next++
	signer := as.W
	assignerName := as.W.ID
	mut := ""
	var replay []byte
	if h.stHostile(r, 1.0) {
		switch r.Intn(9) {
		case 0:
			mut = "other-recipient"
			sender = h.stClient(r)
			if sender == recipient {
				sender = h.W.Owner
			}
		case 1:
			mut = "over-individual-limit"
			tokens = float64(as.Indiv)/1e10 + []float64{0.000001, 1, 50}[r.Intn(3)]
		case 2:
			for n := int64(1); n < as.Next-1; n++ { // the smallest nonce already redeemed
				if as.Used[n] {
					mut, nonce = "reused-nonce", n
					break
				}
			}
		case 3:
			mut = "forged-signature"
			signer = h.stClient(r)
		case 4:
			mut = "unknown-assigner"
			assignerName = stHash("no-such-assigner")
		case 5:
			mut = "over-total-limit"
			if as.Total > as.Redeemed {
				tokens = float64(as.Total-as.Redeemed)/1e10 + 0.5
			}
		case 6:
			if as.LastRaw != nil {
				mut = "replay"
				replay = as.LastRaw
				sender = as.LastBy
			}
		case 7:
			mut = "tokens-negative"
			tokens = -1
		case 8:
			mut = "tokens-11-decimals"
			tokens = 0.00000000001
		}
	}
	coin := uint64(0)
	if tokens > 0 {
		coin = uint64(math.Round(tokens * 1e10))
	}
	sig := signer.Sign(hex.EncodeToString([]byte(stFreeMarkerString(recipient.ID, tokens, nonce, blobbers))))
	if mut == "forged-signature" && r.Chance(0.5) {
		sig = stHash("not-a-signature") + stHash("at-all")
	}
	marker, _ := json.Marshal(map[string]interface{}{"assigner": assignerName, "recipient": recipient.ID, "free_tokens": tokens, "nonce": nonce, "signature": sig, "blobbers": blobbers})
	in := map[string]interface{}{"recipient_public_key": recipient.PubKey, "marker": string(marker), "blobbers": blobbers}
	c := stCall(h, r, "free_allocation_request", sender, in, 0)
	if replay != nil {
		c.Spec.RawInput = replay
		nonce = -1
	}
	c.Mut = mut
	valid := replay == nil && sender == recipient && signer == as.W && assignerName == as.W.ID && as.Reg && !as.Used[nonce] && tokens > 0 &&
		coin <= as.Indiv && as.Redeemed+coin <= as.Total
	c.Meta["free_marker_valid"] = valid
	c.Meta["assigner"], c.Meta["recipient"], c.Meta["blobbers"] = assignerName, recipient.ID, blobbers
	c.Meta["marker"] = map[string]interface{}{"nonce": nonce, "tokens": coin, "signer": signer.ID, "client": recipient.ID, "sender": sender.ID,
		"individual_limit": as.Indiv, "total_limit": as.Total, "redeemed": as.Redeemed}
	raw := stFreeze(c)
	c.After = func(h *Hist, o *TxnObs) {
		if o.Outcome != "success" {
			return
		}
		var out struct {
			ID string `json:"id"`
		}
		id := o.Txn.Hash
		if json.Unmarshal([]byte(o.Txn.TransactionOutput), &out) == nil && out.ID != "" {
			id = out.ID
		}
		o.Call.Meta["alloc"] = id
		h.stRegisterAlloc(id, recipient, true)
		if replay == nil {
			as.Used[nonce] = true
			as.Redeemed += coin
			as.LastRaw, as.LastBy = raw, sender
		}
	}
	return c
}

// ---- logical time -----------------------------------------------------------------------------------------------------------

// stTimeJump moves the clock close to / past the expiration of an open allocation (time_unit is 720h, the engine's own
// jumps never get there). Nothing is submitted.
func stTimeJump(h *Hist, r *mon.Rand) *Call {
	st := h.S.St
	if st.Jumps >= 4 || st.SinceJump < 35 {
		return nil
	}
	_, running, views := h.stExpiredSplit()
	if len(running) == 0 {
		return nil
	}
	a := running[r.Intn(len(running))]
	for _, b := range running { // the allocation that expires first
		if views[b.ID].Expiration < views[a.ID].Expiration && r.Chance(0.7) {
			a = b
		}
	}
	left := views[a.ID].Expiration - int64(h.W.Now)
	var d int64
	switch r.Intn(10) {
	case 0, 1:
		d = left / 2
	case 2, 3:
		d = left - int64(1+r.Intn(600)) // just before expiry: cancel, markers and challenge responses still allowed
	case 4:
		d = left // exactly at expiry
	default:
		d = left + int64(1+r.Intn(7200))
	}
	if d <= 0 {
		return nil
	}
	st.Jumps++
	st.SinceJump = 0
	h.EndBlock()
	h.W.Advance(time.Duration(d) * time.Second)
	fmt.Printf("OP %s {\"op\":\"storage.time-jump\",\"seconds\":%d,\"alloc\":%q}\n", h.ID, d, a.ID)
	if run := h.Runs[h.Focus]; run != nil {
		run.Count("op:storage.time-jump|done", 1)
	}
	return nil
}

func stAllocOps() []OpDef {
	return []OpDef{
		{Name: "storage.new_allocation_request", Tags: []string{"storage", "alloc", "C12", "C13", "C14"}, Build: func(h *Hist, r *mon.Rand) *Call {
			if len(h.S.St.open()) >= 6 && r.Chance(0.75) {
				return stUpdateAlloc(h, r)
			}
			return stNewAlloc(h, r)
		}},
		{Name: "storage.new_allocation_request", Tags: []string{"storage", "alloc", "C12", "C13", "C14"}, Build: func(h *Hist, r *mon.Rand) *Call {
			if n := len(h.S.St.open()); n >= 3 && r.Chance(0.25*float64(n-2)) {
				return stCommit(h, r)
			}
			return stNewAlloc(h, r)
		}},
		{Name: "storage.update_allocation_request", Tags: []string{"storage", "alloc", "C13", "C14", "C23"}, Build: stUpdateAlloc},
		{Name: "storage.update_allocation_request", Tags: []string{"storage", "alloc", "C13"}, Build: stUpdateAlloc},
		{Name: "storage.finalize_allocation", Tags: []string{"storage", "alloc", "close", "C14"}, Build: stFinalize},
		{Name: "storage.finalize_allocation", Tags: []string{"storage", "close", "C14"}, Build: func(h *Hist, r *mon.Rand) *Call {
			if expired, _, _ := h.stExpiredSplit(); len(expired) == 0 {
				return stCommit(h, r)
			}
			return stFinalize(h, r)
		}},
		{Name: "storage.cancel_allocation", Tags: []string{"storage", "alloc", "close", "C14"}, Build: stCancel},
		{Name: "storage.write_pool_lock", Tags: []string{"storage", "alloc", "close", "C14"}, Build: stWritePoolLock},
		{Name: "storage.add_free_storage_assigner", Tags: []string{"storage", "free", "C24"}, Build: stAddAssigner},
		{Name: "storage.free_allocation_request", Tags: []string{"storage", "free", "alloc", "C24"}, Build: stFreeAlloc},
		{Name: "storage.free_allocation_request", Tags: []string{"storage", "free", "C24"}, Build: stFreeAlloc},
		{Name: "storage.time-jump", Tags: []string{"storage", "close", "C14", "challenge"}, Build: func(h *Hist, r *mon.Rand) *Call {
			if r.Chance(0.5) {
				return nil
			}
			return stTimeJump(h, r)
		}},
	}
}
