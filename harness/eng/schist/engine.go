package schist

import (
	"0chain.net/chaincore/block"
	"0chain.net/chaincore/transaction"
	"flag"
	"fmt"
	"os"
	"runtime/debug"
	"sort"
	"strings"
	"time"

	"verifh/mon"
	"verifh/obs"
	"verifh/snap"
	"verifh/world"
)

// Props served by this engine.
var Props = []string{"C01", "C02", "C03", "C04", "C05", "C07", "C09", "C11", "C12", "C13", "C14", "C15", "C16", "C17", "C18", "C19", "C21", "C22", "C23", "C24", "C43", "C48"}

var rules = map[string]string{
	"C01": "generated transaction histories (all contracts, hostile values/nonces/signers) executed through the real Chain.UpdateState from a real genesis (GenerateGenesisBlock/mustInitGBState over four shapes of the initial distribution, each summed against the maximum supply); after every txn the balances of ALL account leaves of the state trie are summed; distinct = (operation, outcome, mutation) triples",
	"C02": "every chargeable-failed contract call: full-trie diff must be {sender, miner-contract wallet} with exactly fee/nonce, events exactly one error event; distinct = (function, error message class) pairs = distinct failure sites reached",
	"C03": "per-sender reference nonce map vs. accept/reject of every submitted txn incl. replays of applied txns, gaps, duplicates, 0/negative/huge; distinct = (operation, nonce relation, outcome, replay) tuples",
	"C04": "per-txn balance deltas of all accounts classified as sender (<= value+fee) / called contract wallet / signed transfer / free-storage grant; anything else is a violation; distinct = (function, debit kind, outcome)",
	"C05": "balances of all account leaves after every txn bounded by supply, decreases covered by pre-balance, credits == debits, rejected txn => empty trie diff; distinct = (operation, mutation, outcome)",
}

func catalogue() []OpDef {
	ops := basicOps()
	ops = append(ops, replayOp())
	ops = append(ops, minerOps()...)
	ops = append(ops, vestingOps()...)
	ops = append(ops, zcnOps()...)
	ops = append(ops, multisigOps()...)
	ops = append(ops, storageOps()...)
	ops = append(ops, govOps()...)
	return ops
}

func allMonitors() []Monitor {
	m := CoreMonitors()
	m = append(m, ledgerMonitors()...)
	return m
}

// Scenario is a directed workload segment that runs at the start of a history (after setup, before the random operations)
// when the check of its property runs: every history, or the histories with index%Every == Phase. Files register theirs in init().
type Scenario struct {
	Prop, Name   string
	Every, Phase int
	Fn           func(h *Hist, mons []Monitor)
}

var scenarioRegistry []Scenario

// RegisterScenario adds a directed scenario.
func RegisterScenario(s Scenario) { scenarioRegistry = append(scenarioRegistry, s) }

// focus tags per property: ops carrying one of these tags get a higher weight
var focusTags = map[string][]string{
	"C01": {"core", "faucet", "miner", "storage", "vesting", "zcn", "multisig"},
	"C02": {"faucet", "miner", "storage", "vesting", "zcn", "multisig", "gov"},
	"C03": {"core", "C03"},
	"C04": {"storage", "multisig", "miner", "vesting", "zcn", "C04"},
	"C05": {"core", "faucet", "stake", "vesting"},
	"C06": {"gov", "settings", "C06"},
	"C07": {"storage", "miner", "stake", "partition", "C07"},
	"C09": {"storage", "stake", "vesting", "zcn", "fees"},
	"C11": {"stake"},
	"C12": {"C12", "alloc", "marker", "challenge"},
	"C13": {"alloc", "blobber", "C13"},
	"C14": {"alloc", "close", "C14"},
	"C15": {"read", "C15"},
	"C16": {"vesting"},
	"C17": {"faucet", "C17"},
	"C18": {"zcn", "C18"},
	"C19": {"zcn", "C19"},
	"C21": {"multisig"},
	"C22": {"fees"},
	"C23": {"kill", "C23"},
	"C24": {"free", "C24"},
	"C43": {"hardfork", "gov"},
	"C48": {"gov"},
}

func weights(ops []OpDef, prop string) []int {
	ft := focusTags[prop]
	w := make([]int, len(ops))
	for i, op := range ops {
		w[i] = 2
		for _, t := range op.Tags {
			for _, f := range ft {
				if t == f {
					w[i] = 10
				}
			}
			if t == "setup" {
				w[i] += 3
			}
		}
	}
	return w
}

// Main is the engine entry point.
func Main(args []string) int {
	fs := flag.NewFlagSet("schist", flag.ExitOnError)
	prop := fs.String("prop", "C01", "property id")
	tier := fs.String("tier", "quick", "quick|thorough")
	child := fs.Int("child", -1, "child index (internal)")
	hists := fs.Int("hists", 0, "histories per child")
	hlen := fs.Int("len", 0, "transactions per history")
	children := fs.Int("children", 0, "number of child processes")
	_ = fs.Parse(args)
	if *child >= 0 {
		return childMain(*prop, *tier, *child, *hists, *hlen)
	}
	defer mon.CleanScratch()
	rule := rules[*prop]
	if rule == "" {
		rule = "generated transaction histories through the real Chain.UpdateState with the monitor of " + *prop + " evaluated after every txn"
	}
	run := mon.NewRun(*prop, *tier, "exploration", rule)
	nc, nh, nl := 8, 5, 80
	if *tier == "thorough" {
		nc, nh, nl = 32, 10, 200
	}
	if *children > 0 {
		nc = *children
	}
	if *hists > 0 {
		nh = *hists
	}
	if *hlen > 0 {
		nl = *hlen
	}
	var specs []mon.ChildSpec
	for i := 0; i < nc; i++ {
		to := 4 * time.Minute
		if *tier == "thorough" {
			to = 25 * time.Minute
		}
		specs = append(specs, mon.ChildSpec{Name: fmt.Sprintf("c%d", i), Timeout: to,
			Args: []string{"schist", "-prop", *prop, "-tier", *tier, "-child", fmt.Sprint(i), "-hists", fmt.Sprint(nh), "-len", fmt.Sprint(nl)}})
	}
	res := mon.RunChildren(run, specs, 14)
	for _, cr := range res {
		if cr.Crashed && !cr.TimedOut {
			p := mon.KeepLog(cr, fmt.Sprintf("%s-crash-%s-seed%d.log", *prop, cr.Spec.Name, run.SeedV))
			sig, detail := classifyCrash(*prop, cr.LogTail)
			if sig != "" {
				run.Violate(sig, detail, map[string]string{"log": p, "child": cr.Spec.Name})
			} else {
				run.Inconclusive(fmt.Sprintf("child %s crashed (log %s): %s", cr.Spec.Name, p, firstPanicLine(cr.LogTail)))
			}
		}
	}
	for counter, min := range schistMins[*prop] {
		run.RequireMin(counter, min)
	}
	run.Assume("state transition driven through the exported Chain.UpdateState block by block; networking, consensus and the event database are not running")
	run.Assume("github.com/0chain/common (MPT, statecache, currency) is exercised but lives outside the repository")
	return run.Finish()
}

// schistMins: monitor counters that must reach a minimum for a conclusive run of a property (directed scenarios that did not run
// would otherwise leave a quiet but empty check).
var schistMins = map[string]map[string]int64{
	"C48": {"gf_stored_values_judged": 300},
	"C01": {"genesis_supply_checked": 4},
	"C12": {"delete_marker_above_outstanding_value": 50},
}

func firstPanicLine(log string) string {
	for _, l := range strings.Split(log, "\n") {
		if strings.HasPrefix(l, "panic:") || strings.HasPrefix(l, "fatal error:") || strings.HasPrefix(l, "HARNESS-PANIC") {
			return trunc(l, 200)
		}
	}
	return "no panic line"
}

// classifyCrash maps a crash of the code's own assertions onto the property it asserts (DESIGN §2.8).
func classifyCrash(prop, log string) (sig, detail string) {
	l := firstPanicLine(log)
	switch {
	case strings.Contains(log, "Transfer assertion failed") && (prop == "C01" || prop == "C05"):
		return "own-assertion:transfer", l
	case (strings.Contains(log, "get trie node not copyable") || strings.Contains(log, "get trie node copy from failed")) && prop == "C07":
		return "own-panic:get-trie-node-not-copyable", l
	case strings.Contains(log, "distribute rewards error") && prop == "C10":
		return "own-assertion:distribute-rewards", l
	}
	return "", ""
}

func childMain(prop, tier string, idx, nh, nl int) (code int) {
	seed := mon.Seed()
	run := mon.NewRun(prop, tier, "exploration", "")
	defer func() {
		if e := recover(); e != nil {
			fmt.Printf("HARNESS-PANIC %v\n%s\n", e, debug.Stack())
			run.Checkpoint()
			os.Exit(3)
		}
	}()
	o := obs.Install()
	o.LogOps = true
	if prop == "C07" {
		o.Shadow = true
	}
	wo := world.Options{Seed: seed*1000 + uint64(idx)}
	if prop == "C22" && idx%2 == 1 {
		wo.NumSharders, wo.NumMiners = 5, 6 // more recipients than a tiny fee part has units
	}
	if prop == "C01" {
		wo.GenesisShape = idx % 4 // the genesis distribution comes in several shapes (clients under one, all, the last contract entry)
	}
	w := world.New(wo)
	defer w.Close()
	runs := map[string]*mon.Run{prop: run}
	if prop == "C01" {
		genesisSupplyC01(w, o, run, wo.GenesisShape)
	}
	ops := catalogue()
	wts := weights(ops, prop)
	mons := allMonitors()
	opHist := map[string]int{}
	for j := 0; j < nh; j++ {
		r := mon.NewRand(seed).Fork(fmt.Sprintf("child%d-hist%d", idx, j))
		h := NewHist(fmt.Sprintf("s%d-c%d-h%d", seed, idx, j), w, o, r, runs, prop)
		hostile := []float64{0.0, 0.15, 0.3, 0.5}[r.Intn(4)]
		h.Vars["hostile"] = hostile
		setupHistory(h, mons)
		if prop == "C07" && j%2 == 0 {
			forkScenarioC07(h, mons)
		}
		if prop == "C07" && j%2 == 1 {
			partsScenarioC07(h, mons)
		}
		for _, sc := range scenarioRegistry {
			if sc.Prop == prop && (sc.Every <= 1 || j%sc.Every == sc.Phase) {
				sc.Fn(h, mons)
			}
		}
		for k := 0; k < nl; k++ {
			op := ops[r.Pick(wts)]
			c := op.Build(h, r)
			if c == nil {
				continue
			}
			mutateNonce(h, r, c, hostile*0.2)
			ob := h.Submit(c, mons)
			opHist[c.Name+"|"+ob.Outcome]++
			if ob.Outcome != "rejected" {
				h.S.Accepted = append(h.S.Accepted, ob.Txn)
				if len(h.S.Accepted) > 64 {
					h.S.Accepted = h.S.Accepted[1:]
				}
			}
			if h.TxInBlk >= 1+r.Intn(5) {
				h.EndBlock()
				if prop == "C07" && r.Chance(0.25) {
					h.forkSibling(r, ops, wts, mons)
				}
				h.advanceTime(r)
			}
		}
		h.EndBlock()
		endHistory(h)
		run.Count("histories", 1)
		run.Count("transactions", int64(len(h.Log)))
		if j == 0 && idx == 0 && len(h.Log) > 3 {
			run.Sample(map[string]interface{}{"history": h.ID, "first_ops": h.Log[:3], "length": len(h.Log)})
		}
		run.Checkpoint()
	}
	keys := make([]string, 0, len(opHist))
	for k := range opHist {
		keys = append(keys, k)
	}
	sort.Strings(keys)
	for _, k := range keys {
		run.Count("op:"+k, int64(opHist[k]))
	}
	hits, miss, _ := o.Stats()
	var th, tm int64
	for _, v := range hits {
		th += v
	}
	for _, v := range miss {
		tm += v
	}
	run.Count("state_cache_hits", th)
	run.Count("state_trie_reads", tm)
	run.Checkpoint()
	return 0
}

// advanceTime moves the logical clock between blocks: mostly seconds, sometimes hours or days.
func (h *Hist) advanceTime(r *mon.Rand) {
	switch r.Intn(20) {
	case 0:
		h.W.Advance(time.Duration(1+r.Intn(48)) * time.Hour)
	case 1:
		h.W.Advance(time.Duration(1+r.Intn(120)) * time.Minute)
	case 2:
		// no time passes
	default:
		h.W.Advance(time.Duration(1+r.Intn(30)) * time.Second)
	}
}

// forkSibling builds and commits a sibling of the current head (a block on the head's parent), as happens whenever two
// generators propose in one round. Only the stateless monitors judge it (the history-level reference models follow the main chain).
func (h *Hist) forkSibling(r *mon.Rand, ops []OpDef, wts []int, mons []Monitor) (sibling *block.Block) {
	if h.BC != nil || h.Head.PrevBlock == nil || h.Head.PrevBlock.ClientState == nil {
		return nil
	}
	var stateless []Monitor
	for _, m := range mons {
		switch m.Prop {
		case "C01", "C02", "C04", "C05", "C07":
			stateless = append(stateless, m)
		}
	}
	saveHead, saveCur, saveRef, saveRound, saveLog := h.Head, h.Cur, h.RefNonce, h.Round, len(h.Log)
	parent := h.Head.PrevBlock
	cur, err := snapTake(parent)
	if err != nil {
		return nil
	}
	h.Head, h.Cur, h.Round = parent, cur, parent.Round
	h.RefNonce = refNonces(h, cur)
	n := 1 + r.Intn(4)
	for i := 0; i < n; i++ {
		c := ops[r.Pick(wts)].Build(h, r)
		if c == nil {
			continue
		}
		c.After = nil // the generator's memory follows the main chain only
		c.Name = "fork:" + c.Name
		h.Submit(c, stateless)
	}
	h.EndBlock()
	if r := h.Runs["C07"]; r != nil {
		r.Count("sibling_blocks", 1)
	}
	if h.Head != parent {
		sibling = h.Head
	}
	h.Head, h.Cur, h.RefNonce, h.Round = saveHead, saveCur, saveRef, saveRound
	_ = saveLog
	return sibling
}

func snapTake(b *block.Block) (snap.Snapshot, error) { return snap.Take(b.ClientState) }

func refNonces(h *Hist, cur snap.Snapshot) map[string]int64 {
	out := map[string]int64{}
	for p, raw := range cur {
		if h.Obs.Lookup(p) != nil {
			continue
		}
		if cl, ok := snap.DecodeClient(raw); ok {
			out[p] = cl.Nonce
		}
	}
	return out
}

func dataSpec(h *Hist) world.TxnSpec {
	return world.TxnSpec{From: h.W.Clients[1], Type: transaction.TxnTypeData, Data: "unrelated"}
}
