package schist

import (
	"encoding/json"
	"fmt"
	"reflect"
	"strings"

	"0chain.net/smartcontract/faucetsc"
	"0chain.net/smartcontract/minersc"
	"0chain.net/smartcontract/storagesc"
	"0chain.net/smartcontract/vestingsc"
	"0chain.net/smartcontract/zcnsc"

	"verifh/snap"
)

// ---- stake pool views (all provider types, found by node TYPE over the whole trie) -------------------------------------------

type dpView struct {
	Balance, Reward uint64
	Status          int64
	DelegateID      string
}

type spView struct {
	Key, Type    string
	Contract     string // sc address owing these tokens
	ProviderType string
	ProviderID   string
	Reward       uint64
	Killed       bool
	Delegate     string
	MaxDelegates int64
	MinStake     uint64
	TotalOffers  uint64
	Pools        map[string]dpView
}

var stakePoolTypes = []string{"*zcnsc.StakePool", "*storagesc.stakePool", "*minersc.MinerNode", "*stakepool.StakePool"}

func (h *Hist) stakePools(s snap.Snapshot) []*spView {
	var out []*spView
	for _, n := range h.NodesOfType(s, stakePoolTypes...) {
		v := &spView{Key: n.Key, Type: n.Type, Pools: map[string]dpView{}}
		switch n.Type {
		case "*minersc.MinerNode":
			v.Contract = minersc.ADDRESS
			v.ProviderID = Str(n.Val, "SimpleNode.Provider.ID")
			v.ProviderType = "miner/sharder"
			if pt := I(n.Val, "SimpleNode.Provider.ProviderType"); pt == 2 {
				v.ProviderType = "sharder"
			} else if pt == 1 {
				v.ProviderType = "miner"
			}
		default:
			parts := strings.SplitN(n.Key, ":stakepool:", 2)
			if len(parts) == 2 {
				v.ProviderType, v.ProviderID = parts[0], parts[1]
			}
			switch v.ProviderType {
			case "authorizer":
				v.Contract = zcnsc.ADDRESS
			case "blobber", "validator":
				v.Contract = storagesc.ADDRESS
			case "miner", "sharder":
				v.Contract = minersc.ADDRESS
			}
		}
		v.Reward = U(n.Val, "Reward")
		v.Killed = B(n.Val, "HasBeenKilled")
		v.Delegate = Str(n.Val, "Settings.DelegateWallet")
		v.MaxDelegates = I(n.Val, "Settings.MaxNumDelegates")
		v.MinStake = U(n.Val, "Settings.MinStake")
		v.TotalOffers = U(n.Val, "TotalOffers")
		pm := F(n.Val, "Pools")
		if pm.IsValid() && pm.Kind() == reflect.Map {
			for _, k := range pm.MapKeys() {
				d := pm.MapIndex(k).Interface()
				v.Pools[k.String()] = dpView{Balance: U(d, "Balance"), Reward: U(d, "Reward"), Status: I(d, "Status"), DelegateID: Str(d, "DelegateID")}
			}
		}
		out = append(out, v)
	}
	return out
}

func (h *Hist) stakePool(s snap.Snapshot, ptype, id string) *spView {
	for _, v := range h.stakePools(s) {
		if v.ProviderID == id && (v.ProviderType == ptype || ptype == "" || (v.ProviderType == "miner/sharder" && (ptype == "miner" || ptype == "sharder"))) {
			return v
		}
	}
	return nil
}

// stakePoolRewards = provider reward + all delegate rewards of one provider.
func (h *Hist) stakePoolRewards(s snap.Snapshot, ptype, id string) uint64 {
	v := h.stakePool(s, ptype, id)
	if v == nil {
		return 0
	}
	t := v.Reward
	for _, d := range v.Pools {
		t += d.Reward
	}
	return t
}

// ---- liabilities per contract ---------------------------------------------------------------------------------------------------

// Liab sums what each contract records as owed, from raw leaves, by node type.
func (h *Hist) Liab(s snap.Snapshot) map[string]uint64 {
	l := map[string]uint64{}
	for _, v := range h.stakePools(s) {
		t := v.Reward
		for _, d := range v.Pools {
			t += d.Balance + d.Reward
		}
		l[v.Contract] += t
	}
	for _, n := range h.NodesOfType(s, "*storagesc.StorageAllocation") {
		l[storagesc.ADDRESS] += U(n.Val, "WritePool")
	}
	for _, n := range h.NodesOfType(s, "*storagesc.challengePool") {
		l[storagesc.ADDRESS] += U(n.Val, "ZcnPool.TokenPool.Balance")
	}
	for _, n := range h.NodesOfType(s, "*storagesc.readPool") {
		l[storagesc.ADDRESS] += U(n.Val, "Balance")
	}
	for _, p := range h.vestingPools(s) {
		l[vestingsc.ADDRESS] += p.Balance
	}
	return l
}

var liabCategories = []string{"dp_balance", "dp_reward", "sp_reward", "write_pools", "challenge_pools", "read_pools", "vesting_pools"}

// liabBreakdown lists the liability components of a contract (for violation details).
func (h *Hist) liabBreakdown(s snap.Snapshot, c string) map[string]uint64 {
	out := map[string]uint64{}
	for _, v := range h.stakePools(s) {
		if v.Contract != c {
			continue
		}
		out["sp_reward"] += v.Reward
		for _, d := range v.Pools {
			out["dp_balance"] += d.Balance
			out["dp_reward"] += d.Reward
		}
	}
	if c == vestingsc.ADDRESS {
		for _, p := range h.vestingPools(s) {
			out["vesting_pools"] += p.Balance
		}
	}
	if c == storagesc.ADDRESS {
		for _, n := range h.NodesOfType(s, "*storagesc.StorageAllocation") {
			out["write_pools"] += U(n.Val, "WritePool")
		}
		for _, n := range h.NodesOfType(s, "*storagesc.challengePool") {
			out["challenge_pools"] += U(n.Val, "ZcnPool.TokenPool.Balance")
		}
		for _, n := range h.NodesOfType(s, "*storagesc.readPool") {
			out["read_pools"] += U(n.Val, "Balance")
		}
	}
	return out
}

// accrual allowance A for the functions that legitimately create new liabilities out of a pre-funded wallet
func (h *Hist) accrual(o *TxnObs) (map[string]uint64, bool) {
	a := map[string]uint64{}
	fn := ""
	if o.Txn.SmartContractData != nil {
		fn = o.Txn.FunctionName
	}
	switch {
	case o.Txn.ToClientID == minersc.ADDRESS && fn == "payFees":
		var fees uint64
		for _, t := range o.Block.Txns {
			fees += uint64(t.Fee)
		}
		var br uint64
		for _, n := range h.NodesOfType(o.Pre, "*minersc.GlobalNode") {
			// block reward accrued for the round: BlockReward * RewardRate (pre-state); the rate is <= 1, so BlockReward bounds it
			br = U(n.Val, "BlockReward")
		}
		a[minersc.ADDRESS] = fees + br
		return a, true
	case o.Txn.ToClientID == storagesc.ADDRESS && fn == "blobber_block_rewards":
		for _, n := range h.NodesOfType(o.Pre, "*storagesc.Config") {
			a[storagesc.ADDRESS] = U(n.Val, "BlockReward.BlockReward")
		}
		return a, true
	case o.Txn.ToClientID == zcnsc.ADDRESS && fn == "mint":
		if m, ok := o.Call.Meta["mint"].(map[string]interface{}); ok {
			a[zcnsc.ADDRESS] = m["amount"].(uint64)
		}
		return a, true
	}
	return a, false
}

// ---- C09 --------------------------------------------------------------------------------------------------------------------------

func monC09(h *Hist, o *TxnObs) {
	if o.Outcome == "rejected" {
		return
	}
	pre, post := h.Liab(o.Pre), h.Liab(o.Post)
	acc, accruing := h.accrual(o)
	h.C("C09", "liability_deltas_checked")
	if r := h.Runs["C09"]; r != nil {
		r.Eval(1)
	}
	// tokens this transaction moved INTO each contract wallet (a failed call only pays its fee)
	inflow := map[string]int64{}
	out := map[string]int64{} // tokens this transaction paid out of each contract wallet
	if o.Outcome != "failed" {
		for _, t := range o.Tr {
			if t.ClientID != t.ToClientID {
				out[t.ClientID] += int64(t.Amount)
			}
		}
		for _, t := range o.STr {
			if t.ClientID != t.ToClientID {
				out[t.ClientID] += int64(t.Amount)
			}
		}
	}
	if o.Outcome == "failed" {
		inflow[minersc.ADDRESS] = int64(o.Txn.Fee)
	} else {
		for _, t := range o.Tr {
			inflow[t.ToClientID] += int64(t.Amount)
		}
		for _, t := range o.STr {
			inflow[t.ToClientID] += int64(t.Amount)
		}
	}
	for _, c := range []string{minersc.ADDRESS, storagesc.ADDRESS, zcnsc.ADDRESS, vestingsc.ADDRESS, faucetsc.ADDRESS} {
		dl := int64(post[c]) - int64(pre[c])
		wpre, _ := h.Bal(o.Pre, c)
		wpost, _ := h.Bal(o.Post, c)
		if net := int64(wpost) - int64(wpre); net > inflow[c] {
			inflow[c] = net // the wallet cannot have gained more than what was moved in; keep the larger to stay sound
		}
		dw := inflow[c]
		if dl != 0 {
			if r := h.Runs["C09"]; r != nil {
				r.Distinct(fmt.Sprintf("%s|%s|dl%s|dw%s|acc=%v", o.Call.Name, o.Outcome, sign(dl), sign(dw), accruing))
				r.Count("nonzero_liability_delta", 1)
			}
		}
		if dl > dw+int64(acc[c]) {
			a, b := h.liabBreakdown(o.Pre, c), h.liabBreakdown(o.Post, c)
			parts := ""
			for _, k := range liabCategories {
				if a[k] != b[k] {
					parts += fmt.Sprintf(" %s%+d", k, int64(b[k])-int64(a[k]))
				}
			}
			h.V("C09", "liability-grew-without-backing:"+o.Call.Name, fmt.Sprintf("%s (%s): contract %s liabilities %+d but only %d tokens moved into its wallet and accrual allowance %d [%s ]", o.Call.Name, o.Outcome, h.name(c), dl, dw, acc[c], parts), o)
			continue
		}
		// "No operation credits a pool or a reward without a matching debit or deposit": a debit that this very transaction paid
		// out of the contract wallet cannot back a credit as well. Credits and debits are taken per liability category (netting
		// inside a category only weakens the check); what the wallet paid out consumes debits first, and paying out more than was
		// debited (the faucet pouring its own tokens) is not restricted here.
		if dl == 0 && out[c] == 0 {
			continue
		}
		a, b := h.liabBreakdown(o.Pre, c), h.liabBreakdown(o.Post, c)
		var credits, debits int64
		parts := ""
		for _, k := range liabCategories {
			d := int64(b[k]) - int64(a[k])
			if d > 0 {
				credits += d
			} else {
				debits -= d
			}
			if d != 0 {
				parts += fmt.Sprintf(" %s%+d", k, d)
			}
		}
		avail := debits - out[c]
		if avail < 0 {
			avail = 0
		}
		if credits > 0 {
			h.C("C09", "credit_matching_checked")
		}
		if credits > avail+dw+int64(acc[c]) {
			h.V("C09", "credit-without-matching-debit:"+o.Call.Name, fmt.Sprintf("%s (%s): contract %s credited %d to pools/rewards; debits %d of which %d were paid out of the wallet, deposits %d, accrual allowance %d [%s ]", o.Call.Name, o.Outcome, h.name(c), credits, debits, out[c], dw, acc[c], parts), o)
		}
	}
}

func sign(x int64) string {
	switch {
	case x > 0:
		return "+"
	case x < 0:
		return "-"
	}
	return "0"
}

// ---- C11 --------------------------------------------------------------------------------------------------------------------------

var lockFns = map[string]bool{"addToDelegatePool": true, "stake_pool_lock": true, "add-to-delegate-pool": true}
var unlockFns = map[string]bool{"deleteFromDelegatePool": true, "stake_pool_unlock": true, "delete-from-delegate-pool": true}

var ptypeNames = map[int]string{1: "miner", 2: "sharder", 3: "blobber", 4: "validator", 5: "authorizer"}

// stakeBoundsC11 reads min_stake / max_stake in force from the settings node of the contract in the given state.
func (h *Hist) stakeBoundsC11(s snap.Snapshot, addr string) (lo, hi uint64, ok bool) {
	typ, fmin, fmax := "", "", ""
	switch addr {
	case minersc.ADDRESS:
		typ, fmin, fmax = "*minersc.GlobalNode", "MinStake", "MaxStake"
	case storagesc.ADDRESS:
		typ, fmin, fmax = "*storagesc.Config", "MinStake", "MaxStake"
	case zcnsc.ADDRESS:
		typ, fmin, fmax = "*zcnsc.GlobalNode", "ZCNSConfig.MinStakeAmount", "ZCNSConfig.MaxStakeAmount"
	default:
		return 0, 0, false
	}
	for _, n := range h.NodesOfType(s, typ) {
		return U(n.Val, fmin), U(n.Val, fmax), true
	}
	return 0, 0, false
}

func monC11(h *Hist, o *TxnObs) {
	if o.Txn.SmartContractData == nil {
		return
	}
	fn := o.Txn.FunctionName
	if !lockFns[fn] && !unlockFns[fn] {
		return
	}
	var req struct {
		ProviderType int    `json:"provider_type"`
		ProviderID   string `json:"provider_id"`
	}
	if json.Unmarshal(o.Txn.InputData, &req) != nil {
		return
	}
	ptype := ptypeNames[req.ProviderType]
	staker := o.Txn.ClientID
	pre := h.stakePool(o.Pre, ptype, req.ProviderID)
	post := h.stakePool(o.Post, ptype, req.ProviderID)
	r := h.Runs["C11"]
	if r != nil {
		r.Eval(1)
		had := pre != nil && hasPool(pre, staker)
		r.Distinct(fmt.Sprintf("%s|%s|%s|had=%v|%s", fn, ptype, o.Outcome, had, o.Call.Mut))
	}
	if lockFns[fn] && pre != nil && pre.MaxDelegates > 0 && int64(len(pre.Pools)) >= pre.MaxDelegates {
		// the provider's own limit is reached in the state before the lock (read from the state, not from the generator):
		// only an existing delegate may still lock
		who := "new_staker"
		if hasPool(pre, staker) {
			who = "existing_delegate"
		}
		h.C("C11", fmt.Sprintf("locks_into_full_pool:%s|%s|%s", ptype, who, o.Outcome))
		if r != nil && pre.MaxDelegates <= 3 {
			r.Distinct(fmt.Sprintf("full-pool|%s|limit=%d|%s|%s", ptype, pre.MaxDelegates, who, o.Outcome))
		}
	}
	if o.Outcome == "failed" && unlockFns[fn] && pre != nil && hasPool(pre, staker) {
		// "Unlocking pays back ... to its owner": an unlock may be refused for stated reasons (stake still covering offers, ...),
		// but not with the claim that the owner has no delegate pool while the state holds one
		h.C("C11", "unlocks_refused_with_pool_in_state")
		if strings.Contains(o.Txn.TransactionOutput, "no such delegate pool") {
			h.V("C11", "unlock-refused-although-pool-exists:"+ptype, fmt.Sprintf("unlock by %s refused with %q although the state holds its delegate pool (balance %d) on that provider", h.name(staker), trunc(o.Txn.TransactionOutput, 120), pre.Pools[staker].Balance), o)
		}
	}
	if o.Outcome != "success" {
		return
	}
	d := h.deltas(o)
	sd := d[staker] + int64(o.Txn.Fee)
	if lockFns[fn] {
		h.C("C11", "locks_checked")
		if post == nil {
			h.V("C11", "lock-succeeded-without-stake-pool:"+ptype, "stake lock succeeded but no stake pool of that provider exists in state", o)
			return
		}
		if sd != -int64(o.Txn.Value) {
			h.V("C11", "lock-staker-delta-wrong:"+ptype, fmt.Sprintf("staker delta %d, locked value %d", sd, o.Txn.Value), o)
		}
		wd := d[o.Txn.ToClientID]
		if o.Txn.ToClientID == minersc.ADDRESS {
			wd -= int64(o.Txn.Fee)
		}
		if wd != int64(o.Txn.Value) {
			h.V("C11", "lock-contract-wallet-delta-wrong:"+ptype, fmt.Sprintf("contract wallet delta %d, locked value %d", wd, o.Txn.Value), o)
		}
		var preBal uint64
		if pre != nil {
			preBal = pre.Pools[staker].Balance
		}
		if post.Pools[staker].Balance != preBal+uint64(o.Txn.Value) {
			h.V("C11", "lock-pool-balance-wrong:"+ptype, fmt.Sprintf("delegate pool %d -> %d, locked %d", preBal, post.Pools[staker].Balance, o.Txn.Value), o)
		}
		if post.Pools[staker].DelegateID != staker {
			h.V("C11", "lock-pool-owner-wrong:"+ptype, fmt.Sprintf("delegate pool owner %q, staker %s", post.Pools[staker].DelegateID, h.name(staker)), o)
		}
		// "within the configured stake bounds": the bounds in force are the ones in the contract's settings node of the
		// pre-state; the delegate pool a lock leaves behind (first lock or top-up) may not hold more than max_stake
		if lo, hi, ok := h.stakeBoundsC11(o.Pre, o.Txn.ToClientID); ok {
			h.C("C11", "locks_judged_against_stake_bounds")
			bal := post.Pools[staker].Balance
			if preBal > 0 {
				h.C("C11", "top_up_locks_judged_against_stake_bounds")
				if preBal+uint64(o.Txn.Value) > hi {
					h.C("C11", "top_up_locks_that_would_exceed_max_stake_applied")
				}
			}
			if hi > 0 && bal > hi {
				h.V("C11", "lock-leaves-pool-above-max-stake:"+ptype, fmt.Sprintf("delegate pool of %s holds %d after a lock of %d, max_stake in force is %d", h.name(staker), bal, o.Txn.Value, hi), o)
			}
			if uint64(o.Txn.Value) < lo {
				h.V("C11", "lock-below-min-stake-applied:"+ptype, fmt.Sprintf("a lock of %d was applied, min_stake in force is %d", o.Txn.Value, lo), o)
			}
		}
		if (pre == nil || !hasPool(pre, staker)) && int64(len(post.Pools)) > post.MaxDelegates {
			h.V("C11", "delegate-limit-exceeded:"+ptype, fmt.Sprintf("%d delegate pools, limit %d", len(post.Pools), post.MaxDelegates), o)
		}
		if pre != nil {
			for id, p := range pre.Pools {
				if id != staker && post.Pools[id] != p {
					h.V("C11", "lock-changed-other-delegate:"+ptype, fmt.Sprintf("delegate %s changed %v -> %v", h.name(id), p, post.Pools[id]), o)
				}
			}
		}
		return
	}
	// unlock
	h.C("C11", "unlocks_checked")
	if pre == nil || !hasPool(pre, staker) {
		h.V("C11", "unlock-without-own-pool:"+ptype, fmt.Sprintf("%s unlocked from provider %s without owning a delegate pool there", h.name(staker), short(req.ProviderID)), o)
		return
	}
	dp := pre.Pools[staker]
	want := int64(dp.Balance + dp.Reward)
	if pre.Delegate == staker {
		want += int64(pre.Reward)
	}
	if sd != want {
		h.V("C11", "unlock-payout-wrong:"+ptype, fmt.Sprintf("staker received %d, pool balance %d + reward %d (+ provider reward %d if delegate wallet=%v)", sd, dp.Balance, dp.Reward, pre.Reward, pre.Delegate == staker), o)
	}
	if post != nil {
		if q, ok := post.Pools[staker]; ok && (q.Balance != 0 || q.Reward != 0) {
			h.V("C11", "unlock-left-pool-funded:"+ptype, fmt.Sprintf("after unlock the pool still holds %d + %d", q.Balance, q.Reward), o)
		} else if ok {
			h.V("C11", "unlock-did-not-remove-pool:"+ptype, "after unlock the (empty) delegate pool is still recorded", o)
		}
		for id, p := range pre.Pools {
			if id != staker && post.Pools[id] != p {
				h.V("C11", "unlock-changed-other-delegate:"+ptype, fmt.Sprintf("delegate %s changed %v -> %v", h.name(id), p, post.Pools[id]), o)
			}
		}
	}
}

func hasPool(v *spView, id string) bool { _, ok := v.Pools[id]; return ok }
