package schist

import (
	"encoding/json"
	"fmt"

	"0chain.net/smartcontract/minersc"
	"0chain.net/smartcontract/storagesc"

	"verifh/snap"
)

func spTotalReward(v *spView) uint64 {
	if v == nil {
		return 0
	}
	t := v.Reward
	for _, d := range v.Pools {
		t += d.Reward
	}
	return t
}

// ---- C22: block fee split -----------------------------------------------------------------------------------------------------------

func monC22(h *Hist, o *TxnObs) {
	if o.Txn.ToClientID != minersc.ADDRESS || o.Txn.SmartContractData == nil || o.Txn.FunctionName != "payFees" {
		return
	}
	var in struct {
		Round int64 `json:"round"`
	}
	_ = json.Unmarshal(o.Txn.InputData, &in)
	isGen := o.Txn.ClientID == o.Block.MinerID
	h.C("C22", "fee_payments_judged")
	r := h.Runs["C22"]
	if r != nil {
		r.Eval(1)
		r.Distinct(fmt.Sprintf("gen=%v|round_ok=%v|%s|%s", isGen, in.Round == o.Block.Round, o.Call.Mut, o.Outcome))
	}
	if o.Outcome != "success" {
		return
	}
	if !isGen {
		h.V("C22", "fees-paid-on-request-of-non-generator", fmt.Sprintf("payFees from %s succeeded, block generator is %s", h.name(o.Txn.ClientID), h.name(o.Block.MinerID)), o)
	}
	if in.Round != o.Block.Round {
		h.V("C22", "fees-paid-for-wrong-round", fmt.Sprintf("payFees for round %d succeeded in block of round %d", in.Round, o.Block.Round), o)
	}
	// amounts: everything credited to miner/sharder stake pools == fees of the block so far + block reward
	var gnReward, rate float64
	var haveGN bool
	for _, n := range h.NodesOfType(o.Pre, "*minersc.GlobalNode") {
		gnReward = float64(U(n.Val, "BlockReward"))
		if f := F(n.Val, "RewardRate"); f.IsValid() {
			rate = f.Float()
		}
		haveGN = true
	}
	if !haveGN {
		return
	}
	// the fees the contract can see are those of the transactions that are in the block BEFORE this one is added
	// (the generator appends a transaction after executing it, and so does the harness)
	var fees uint64
	for _, t := range o.Block.Txns {
		if t != o.Txn {
			fees += uint64(t.Fee)
		}
	}
	blockReward := uint64(gnReward * rate)
	var credited int64
	rewarded := 0
	for _, sp := range h.stakePools(o.Post) {
		if sp.Contract != minersc.ADDRESS {
			continue
		}
		q := h.stakePool(o.Pre, sp.ProviderType, sp.ProviderID)
		dlt := int64(spTotalReward(sp)) - int64(spTotalReward(q))
		if dlt != 0 {
			rewarded++
		}
		credited += dlt
	}
	total := int64(fees + blockReward)
	h.C("C22", "fee_splits_checked")
	if fees > 0 && fees < 16 {
		h.C("C22", "fee_splits_with_block_fees_below_16")
		if h.allRewardable(o.Pre) {
			h.C("C22", "fee_splits_with_block_fees_below_16_all_rewardable")
		}
	}
	paidBefore, _ := o.Call.Meta["paid_before_in_round"].(bool)
	if credited > total {
		h.V("C22", "more-credited-than-fees-plus-reward", fmt.Sprintf("block fees %d + block reward %d = %d but miner/sharder rewards rose by %d", fees, blockReward, total, credited), o)
	} else if credited < total && !paidBefore {
		// tokens not credited: acceptable only when a recipient may not be rewarded (killed / under-staked, C10); count and report
		h.C("C22", "fee_splits_with_uncredited_remainder")
		if !h.allRewardable(o.Pre) {
			h.C("C22", "fee_splits_with_uncredited_remainder_and_unrewardable_recipient")
		}
		if h.allRewardable(o.Pre) {
			sig := "fees-or-reward-lost"
			for _, n := range h.NodesOfType(o.Pre, "*minersc.GlobalNode") {
				if I(n.Val, "NumMinerDelegatesRewarded") == 0 || I(n.Val, "NumSharderDelegatesRewarded") == 0 {
					sig += "/delegates-rewarded=0" // the RandN n=0 defect recorded under C10
				} else if I(n.Val, "NumShardersRewarded") == 0 {
					sig += "/sharders-rewarded=0"
				}
			}
			h.V("C22", sig, fmt.Sprintf("block fees %d + block reward %d = %d but only %d was credited although every miner and sharder can be rewarded", fees, blockReward, total, credited), o)
		}
	}
	_ = rewarded
}

// allRewardable: every registered miner and sharder is alive and has stake >= its min stake (so none of its shares is dropped by design)
func (h *Hist) allRewardable(s snap.Snapshot) bool {
	n := 0
	for _, sp := range h.stakePools(s) {
		if sp.Contract != minersc.ADDRESS {
			continue
		}
		n++
		var stake uint64
		for _, d := range sp.Pools {
			stake += d.Balance
		}
		if sp.Killed || stake == 0 || stake < sp.MinStake {
			return false
		}
	}
	return n > 0
}

// ---- C23: kill / shutdown ----------------------------------------------------------------------------------------------------------

var killFns = map[string]string{"kill_miner": "miner", "kill_sharder": "sharder", "kill_blobber": "blobber", "kill_validator": "validator", "shutdown_blobber": "blobber", "shutdown_validator": "validator"}

func monC23(h *Hist, o *TxnObs) {
	// (a) a dead provider never earns again: checked on every txn
	dead, _ := h.Vars["c23dead"].(map[string]string)
	if dead == nil {
		dead = map[string]string{}
		h.Vars["c23dead"] = dead
	}
	if o.Outcome != "rejected" {
		for key := range dead {
			pt, id := splitKey(key)
			a, b := h.stakePool(o.Pre, pt, id), h.stakePool(o.Post, pt, id)
			if a != nil && b != nil && spTotalReward(b) > spTotalReward(a) {
				h.V("C23", "dead-provider-rewarded:"+pt, fmt.Sprintf("%s %s was killed/shut down (%s) but its rewards rose %d -> %d in %s", pt, short(id), dead[key], spTotalReward(a), spTotalReward(b), o.Call.Name), o)
			}
			h.C("C23", "dead_provider_reward_checks")
		}
	}
	if o.Txn.SmartContractData == nil {
		return
	}
	ptype, ok := killFns[o.Txn.FunctionName]
	if !ok || (o.Txn.ToClientID != minersc.ADDRESS && o.Txn.ToClientID != storagesc.ADDRESS) {
		return
	}
	var req struct {
		ProviderID string `json:"provider_id"`
	}
	_ = json.Unmarshal(o.Txn.InputData, &req)
	fn := o.Txn.FunctionName
	isShutdown := fn == "shutdown_blobber" || fn == "shutdown_validator"
	pre := h.stakePool(o.Pre, ptype, req.ProviderID)
	post := h.stakePool(o.Post, ptype, req.ProviderID)
	if pre == nil {
		// the id may name a provider of another kind (the contracts resolve the stake pool from the stored provider type)
		if pre = h.stakePool(o.Pre, "", req.ProviderID); pre != nil {
			ptype = pre.ProviderType
			post = h.stakePool(o.Post, "", req.ProviderID)
		}
	}
	// the owner in force is the one recorded in the contract's settings node of the pre-state (ownership can be handed over by
	// an earlier update_settings; generators that do not know about it must not make the hand-over look like a stranger)
	owner := h.scOwner(o.Pre, o.Txn.ToClientID)
	authorised := o.Txn.ClientID == owner || (isShutdown && pre != nil && o.Txn.ClientID == pre.Delegate)
	h.C("C23", "kill_calls_judged")
	r := h.Runs["C23"]
	if r != nil {
		r.Eval(1)
		r.Distinct(fmt.Sprintf("%s|auth=%v|known=%v|already=%v|%s", fn, authorised, pre != nil, pre != nil && pre.Killed, o.Outcome))
	}
	if o.Outcome != "success" {
		return
	}
	// foreign records: no stake pool of ANOTHER provider may be created or changed
	for _, sp := range h.stakePools(o.Post) {
		if sp.ProviderID == req.ProviderID {
			continue
		}
		q := h.stakePool(o.Pre, sp.ProviderType, sp.ProviderID)
		if q == nil {
			h.V("C23", "foreign-stake-pool-created:"+fn, fmt.Sprintf("%s on %s created stake pool %s", fn, short(req.ProviderID), sp.Key), o)
		} else if fmt.Sprint(*q) != fmt.Sprint(*sp) {
			h.V("C23", "foreign-stake-pool-changed:"+fn, fmt.Sprintf("%s on %s changed stake pool %s", fn, short(req.ProviderID), sp.Key), o)
		}
	}
	if !authorised {
		// "Unauthorised callers change nothing": a successful transaction that leaves every contract record untouched
		// (only the caller's own account paid the fee) is a no-op; any changed, created or deleted contract record is not.
		var touched []string
		for _, p := range o.Delta.All() {
			if reg := h.Obs.Lookup(p); reg != nil {
				touched = append(touched, reg.Key)
			}
		}
		if len(touched) == 0 {
			h.C("C23", "unauthorised_noop_successes")
			return
		}
		h.V("C23", "unauthorised-"+fn+"-changed-state", fmt.Sprintf("%s by %s (owner %s) succeeded and changed %v", fn, h.name(o.Txn.ClientID), h.name(owner), touched), o)
		return
	}
	if pre != nil && post == nil && len(pre.Pools) == 0 {
		// a provider without delegates and without data is removed altogether on shutdown
		h.C("C23", "shutdowns_removing_empty_provider")
		return
	}
	if pre == nil || post == nil {
		h.V("C23", "kill-succeeded-without-stake-pool:"+fn, fmt.Sprintf("%s succeeded but provider %s has no stake pool (pre %v post %v)", fn, short(req.ProviderID), pre != nil, post != nil), o)
		return
	}
	key := ptype + "|" + req.ProviderID
	if pre.Killed {
		// second call: nothing may change
		// second call: no second slash, no change of rewards, still dead (the contract may refresh its offer bookkeeping)
		same := post.Killed && post.Reward == pre.Reward && len(post.Pools) == len(pre.Pools)
		for id, p := range pre.Pools {
			if post.Pools[id] != p {
				same = false
			}
		}
		if !same {
			h.V("C23", "repeated-kill-changed-stake-pool:"+fn, "a second kill/shutdown slashed or changed the provider's delegate pools again", o)
		}
		return
	}
	if !post.Killed {
		h.V("C23", "stake-pool-not-marked-dead:"+fn, fmt.Sprintf("%s succeeded but the provider's own stake pool is not marked dead", fn), o)
	}
	dead[key] = fn
	h.C("C23", "kills_checked")
	// slash: every delegate balance reduced by the same configured fraction, once (fraction read from the pre-state config)
	slash := h.killSlash(o.Pre, o.Txn.ToClientID)
	if isShutdown {
		slash /= 2 // a voluntary shutdown is charged half of the configured kill slash
	}
	for id, p := range pre.Pools {
		q := post.Pools[id]
		want := float64(p.Balance) * (1 - slash)
		if diff := float64(q.Balance) - want; diff > 1.5 || diff < -1.5 {
			h.V("C23", "slash-amount-wrong:"+fn, fmt.Sprintf("delegate %s balance %d -> %d, configured slash %.4f (expected %.1f)", h.name(id), p.Balance, q.Balance, slash, want), o)
		}
	}
}

func splitKey(k string) (string, string) {
	for i := 0; i < len(k); i++ {
		if k[i] == '|' {
			return k[:i], k[i+1:]
		}
	}
	return k, ""
}

func (h *Hist) killSlash(s snap.Snapshot, contract string) float64 {
	if contract == minersc.ADDRESS {
		for _, n := range h.NodesOfType(s, "*minersc.GlobalNode") {
			if f := F(n.Val, "HealthCheckPeriod"); f.IsValid() {
				_ = f
			}
		}
		// minersc reads kill slash from its config map
		for _, n := range h.NodesOfType(s, "*minersc.GlobalNode") {
			if f := F(n.Val, "KillSlash"); f.IsValid() {
				return f.Float()
			}
		}
		return 0
	}
	for _, n := range h.NodesOfType(s, "*storagesc.Config") {
		if f := F(n.Val, "StakePool.KillSlash"); f.IsValid() {
			return f.Float()
		}
	}
	return 0
}
