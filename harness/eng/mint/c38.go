package mint

import (
	"bytes"
	"context"
	"encoding/json"
	"fmt"
	"os"
	"sort"
	"strings"
	"time"

	"0chain.net/chaincore/block"
	"0chain.net/chaincore/chain"
	cstate "0chain.net/chaincore/chain/state"
	"0chain.net/chaincore/node"
	tbls "0chain.net/chaincore/threshold/bls"
	"0chain.net/chaincore/transaction"
	"0chain.net/core/encryption"
	"0chain.net/smartcontract/minersc"
	"github.com/0chain/common/core/currency"
	"github.com/0chain/common/core/logging"
	"github.com/0chain/common/core/util"
	hbls "github.com/herumi/bls-go-binary/bls"
	"github.com/tinylib/msgp/msgp"
	"go.uber.org/zap"

	"verifh/mon"
	"verifh/world"
)

// ---------------------------------------------------------------------------------------------------------
// C38: the miner contract's view-change phase machine, driven block by block through the real Chain.UpdateState

var oplogOut = os.Getenv("VERIF_MINT_OPLOG") != "" // debugging aid: print the operation log as it is written

var phaseNames = []string{"start", "contribute", "share", "publish", "wait"}

func phaseName(p minersc.Phase) string {
	if int(p) >= 0 && int(p) < len(phaseNames) {
		return phaseNames[p]
	}
	return fmt.Sprintf("phase(%d)", int(p))
}

type c38Params struct {
	Idx         int
	WorldSeed   uint64
	Rounds      int
	PhaseRounds [5]int64
	ExtraMiners int
	ExtraShard  int
	EarlyExtras bool
	Hostile     float64
	// histories in which a phase's move condition can hold while the phase's own step cannot complete (min_n above K)
	StepFail   int     // 0: ordinary history; 1: the 4 genesis miners with min_n=4 (K=3); 2: 7 known miners, min_n=5 (K=3), newcomers register late
	MinN       int     // minersc.min_n of this history (the repository's sc.yaml says 3)
	LateExtras bool    // newcomers are in the chain's current magic block but register in the rounds LateAt, not in the set-up block
	LateAt     []int64 // registration round per newcomer (miners first, then sharders)
	// histories with more DKG candidates than max_n and unequal stakes: the final reduction of the DKG set really selects
	BigSet       bool
	MaxN         int     // minersc.max_n of this history (0: the repository's sc.yaml value, 7)
	XPercent     float64 // minersc.x_percent: share of the seats reserved for miners of the previous set
	KPercent     float64
	TPercent     float64
	StakeProfile string
	StakeUnits   []int // stake of the i-th miner (genesis miners first, then the newcomers), in units of 1e10; all different
}

// c38Hists is the number of ordinary histories of a tier; the step-failure histories follow them (indices c38Hists.. onwards).
func c38Hists(tier string) int     { return scale(tier, 24, 64) }
func c38StepHists(tier string) int { return scale(tier, 8, 16) }

// c38BigHists is the number of histories in which more miners run the key generation than max_n allows into a magic block.
func c38BigHists(tier string) int { return scale(tier, 16, 48) }

const c38SilentTopPolicy = "top-staked-previous-silent-in-publish"

// c38BigParams: 4 miners of the previous (genesis) set and 3 or 4 newcomers, all registered from the first block on, max_n 4 or 5,
// one or two seats reserved for the previous set, and every miner staked with a different amount. Three of four histories put one or
// two miners of the previous set on top of the stake order, the newcomers next and the rest of the previous set at the bottom - the
// order in which the reserved seats and the open seats go to different groups; the fourth draws the order at random.
func c38BigParams(p c38Params, k int, r *mon.Rand) c38Params {
	for i := range p.PhaseRounds {
		p.PhaseRounds[i] = int64(2 + r.Intn(3))
	}
	p.BigSet, p.EarlyExtras, p.Hostile = true, true, 0.12
	p.MaxN, p.ExtraMiners, p.ExtraShard = 4, 3, 1
	if k%8 == 5 {
		p.MaxN, p.ExtraMiners = 5, 4
	}
	p.XPercent = []float64{0.25, 0.2, 0.4, 0.25}[k%4] // with max_n = 4: 1, 1, 2, 1 reserved seats
	p.KPercent, p.TPercent = 0.4, 0.3
	if k%4 == 1 {
		p.KPercent, p.TPercent = 0.75, 0.5
	}
	nPrev, n := 4, 4+p.ExtraMiners
	prev := []int{0, 1, 2, 3}
	var nw []int
	for i := nPrev; i < n; i++ {
		nw = append(nw, i)
	}
	r.Shuffle(len(prev), func(i, j int) { prev[i], prev[j] = prev[j], prev[i] })
	r.Shuffle(len(nw), func(i, j int) { nw[i], nw[j] = nw[j], nw[i] })
	var order []int // best staked first
	switch k % 4 {
	case 0:
		p.StakeProfile = "one-previous-on-top"
		order = append(append(append(order, prev[:1]...), nw...), prev[1:]...)
	case 1:
		h := 1 + r.Intn(2)
		p.StakeProfile = fmt.Sprintf("%d-previous-on-top", h)
		order = append(append(append(order, prev[:h]...), nw...), prev[h:]...)
	case 2:
		p.StakeProfile = "two-previous-on-top"
		order = append(append(append(order, prev[:2]...), nw...), prev[2:]...)
	default:
		p.StakeProfile = "random"
		order = append(append(order, prev...), nw...)
		r.Shuffle(len(order), func(i, j int) { order[i], order[j] = order[j], order[i] })
	}
	p.StakeUnits = make([]int, n)
	for rank, i := range order {
		p.StakeUnits[i] = 2 * (n - rank)
	}
	return p
}

func c38ParamsOf(tier string, idx int) c38Params {
	r := mon.NewRand(mon.Seed()).Fork(fmt.Sprintf("c38-params-%d", idx))
	p := c38Params{Idx: idx, WorldSeed: mon.Seed()*977 + uint64(idx), MinN: 3}
	p.Rounds = scale(tier, 130, 600)
	if base := c38Hists(tier) + c38StepHists(tier); idx >= base {
		return c38BigParams(p, idx-base, r)
	}
	if idx >= c38Hists(tier) {
		// K <= contributions < min_n is possible here: the end of Contribute finds K public keys (condition holds) but the DKG list
		// cannot be cut down to the contributors; the end of Publish finds K share sets but the magic block would have too few miners;
		// and (variant 2) the end of Start finds a previous miner and sharder registered but fewer than min_n miners
		for i := range p.PhaseRounds {
			p.PhaseRounds[i] = int64(2 + r.Intn(3))
		}
		p.Hostile = 0.15
		if (idx-c38Hists(tier))%2 == 0 {
			p.StepFail, p.MinN = 1, 4
			return p
		}
		p.StepFail, p.MinN = 2, 5
		p.ExtraMiners, p.ExtraShard, p.LateExtras = 3, 1, true
		at := int64(8 + r.Intn(10))
		for i := 0; i < p.ExtraMiners+p.ExtraShard; i++ {
			p.LateAt = append(p.LateAt, at)
			at += int64(6 + r.Intn(14))
		}
		return p
	}
	for i := range p.PhaseRounds {
		p.PhaseRounds[i] = int64(2 + r.Intn(4))
	}
	if idx%4 == 3 {
		p.PhaseRounds[r.Intn(5)] = 0 // a phase that may move on in the very round it started
	}
	p.ExtraMiners = r.Intn(4)
	p.ExtraShard = r.Intn(2)
	if idx%3 == 0 {
		// newcomers registered from the first block on: enough of them (K) to run a key generation without any member of the set in force
		p.ExtraMiners, p.ExtraShard, p.EarlyExtras = 3, 1, true
	}
	p.Hostile = []float64{0.15, 0.3, 0.5}[idx%3]
	return p
}

// actor is a node (or would-be node) the harness holds the key of.
type actor struct {
	W          *world.Wallet
	Kind       string // "miner" | "sharder"
	Genesis    bool
	Registered bool
	Host       string
	Port       int
	Stake      currency.Coin // what the node is staked with when it registers (0: the same 5e10 for everybody)
}

type c38 struct {
	run   *mon.Run
	lim   *limiter
	w     *world.World
	p     c38Params
	r     *mon.Rand
	nodes []*actor
	prev  *block.Block
	bc    *world.BlockCtx
	round int64

	// reference view of the membership in force: the genesis magic block, then every magic block a block actually carried
	prevMiners   map[string]bool
	prevSharders map[string]bool
	pendMiners   map[string]bool // membership of the last produced (stored) magic block, in force once a block carries it
	pendSharders map[string]bool

	// per-cycle plan
	planPhase   minersc.Phase
	planStart   int64
	policy      string
	offsets     map[string]int64 // actor id -> round offset within the phase at which it acts (absent = does not act)
	dkgs        map[string]*tbls.DKG
	dkgT        int
	lastPub     map[string][]byte // last accepted shareSignsOrShares input per sender (for replays by outsiders)
	cyclePath   []minersc.Phase
	oplog       []string
	mbProduced  int
	viewChanges int

	// who the plan of the running cycle kept silent in Publish although it contributed a key (policy c38SilentTopPolicy)
	silentInPublish map[string]bool

	// reference: the round of the last observed reset of the key generation
	restartAt   int64
	restartSeen bool
}

func (c *c38) logf(format string, a ...interface{}) {
	s := fmt.Sprintf(format, a...)
	if oplogOut {
		fmt.Println("OP " + s)
	}
	c.oplog = append(c.oplog, s)
	if len(c.oplog) > 400 {
		c.oplog = c.oplog[len(c.oplog)-400:]
	}
}

func (c *c38) replay(extra map[string]interface{}) map[string]interface{} {
	m := map[string]interface{}{"seed": mon.Seed(), "child": c.p.Idx, "params": c.p, "round": c.round, "policy": c.policy, "recent_ops": append([]string{}, c.oplog[max(0, len(c.oplog)-60):]...)}
	for k, v := range extra {
		m[k] = v
	}
	return m
}

func max(a, b int) int {
	if a > b {
		return a
	}
	return b
}

// ---- raw state read-back (no contract getter involved) ----------------------------------------------------------------------

func (c *c38) sctx(st util.MerklePatriciaTrieI, b *block.Block) cstate.StateContextI {
	return c.w.Chain.NewStateContext(b, st, &transaction.Transaction{}, nil)
}

type vcState struct {
	HasPhase bool
	PN       minersc.PhaseNode
	DKG      *minersc.DKGMinerNodes
	MPKs     *block.Mpks
	GSoS     *block.GroupSharesOrSigns
	Keep     minersc.NodeIDs
	MB       *block.MagicBlock // as the contract's own decoder returns it
	HasMB    bool
	RawMB    *rawMB // membership taken from the stored bytes, decoded generically (no 0chain decoder involved)
	GN       *minersc.GlobalNode
}

// rawMB is the stored magic block as the bytes in the trie describe it.
type rawMB struct {
	Miners, Sharders map[string]bool
	T, K, N          int
	StartingRound    int64
	Number           int64
	MpkIDs           map[string]bool
}

// rawMagicBlock reads the value leaf of the magic block and decodes the msgpack generically.
func (c *c38) rawMagicBlock(st util.MerklePatriciaTrieI) *rawMB {
	raw, err := st.GetNodeValueRaw(util.Path(encryption.Hash(minersc.MagicBlockKey)))
	if err != nil || len(raw) == 0 {
		return nil
	}
	var buf bytes.Buffer
	if _, err := msgp.UnmarshalAsJSON(&buf, raw); err != nil {
		panic(fmt.Sprintf("stored magic block is not msgpack: %v", err))
	}
	var m map[string]interface{}
	if err := json.Unmarshal(buf.Bytes(), &m); err != nil {
		panic(err)
	}
	out := &rawMB{Miners: map[string]bool{}, Sharders: map[string]bool{}, MpkIDs: map[string]bool{}}
	pool := func(name string, into map[string]bool) {
		if p, ok := m[name].(map[string]interface{}); ok {
			if nm, ok := p["NodesMap"].(map[string]interface{}); ok {
				for id := range nm {
					into[id] = true
				}
			}
		}
	}
	pool("Miners", out.Miners)
	pool("Sharders", out.Sharders)
	num := func(k string) int64 {
		f, _ := m[k].(float64)
		return int64(f)
	}
	out.T, out.K, out.N = int(num("T")), int(num("K")), int(num("N"))
	out.StartingRound, out.Number = num("StartingRound"), num("MagicBlockNumber")
	if mp, ok := m["Mpks"].(map[string]interface{}); ok {
		if mm, ok := mp["Mpks"].(map[string]interface{}); ok {
			for id := range mm {
				out.MpkIDs[id] = true
			}
		}
	}
	return out
}

func (c *c38) read(st util.MerklePatriciaTrieI, b *block.Block, full bool) vcState {
	sc := c.sctx(st, b)
	var v vcState
	if err := sc.GetTrieNode(minersc.PhaseKey, &v.PN); err == nil {
		v.HasPhase = true
	} else if err != util.ErrValueNotPresent {
		panic(fmt.Sprintf("phase node unreadable: %v", err))
	}
	v.DKG = minersc.NewDKGMinerNodes()
	if err := sc.GetTrieNode(minersc.DKGMinersKey, v.DKG); err != nil && err != util.ErrValueNotPresent {
		panic(fmt.Sprintf("dkg miners unreadable: %v", err))
	}
	if v.DKG.SimpleNodes == nil {
		v.DKG.SimpleNodes = minersc.NewSimpleNodes()
	}
	v.MPKs = block.NewMpks()
	if err := sc.GetTrieNode(minersc.MinersMPKKey, v.MPKs); err != nil && err != util.ErrValueNotPresent {
		panic(fmt.Sprintf("mpks unreadable: %v", err))
	}
	if v.MPKs.Mpks == nil {
		v.MPKs.Mpks = map[string]*block.MPK{}
	}
	v.GSoS = block.NewGroupSharesOrSigns()
	if err := sc.GetTrieNode(minersc.GroupShareOrSignsKey, v.GSoS); err != nil && err != util.ErrValueNotPresent {
		panic(fmt.Sprintf("gsos unreadable: %v", err))
	}
	if v.GSoS.Shares == nil {
		v.GSoS.Shares = map[string]*block.ShareOrSigns{}
	}
	if !full {
		return v
	}
	if err := sc.GetTrieNode(minersc.ShardersKeepKey, &v.Keep); err != nil && err != util.ErrValueNotPresent {
		panic(fmt.Sprintf("sharders keep unreadable: %v", err))
	}
	v.MB = block.NewMagicBlock()
	if err := sc.GetTrieNode(minersc.MagicBlockKey, v.MB); err == nil {
		v.HasMB = true
	} else if err != util.ErrValueNotPresent {
		panic(fmt.Sprintf("magic block unreadable: %v", err))
	}
	v.RawMB = c.rawMagicBlock(st)
	v.GN = &minersc.GlobalNode{}
	if err := sc.GetTrieNode(minersc.GlobalNodeKey, v.GN); err != nil && err != util.ErrValueNotPresent {
		panic(fmt.Sprintf("global node unreadable: %v", err))
	}
	return v
}

// ---- transactions ----------------------------------------------------------------------------------------------------------

func (c *c38) nonce(id string) int64 {
	s, err := chain.GetStateById(c.bc.State, id)
	if err != nil || s == nil {
		return 1
	}
	return s.Nonce + 1
}

type result struct {
	Included bool
	OK       bool
	Output   string
	Err      string
}

func (c *c38) exec(from *world.Wallet, fn string, input interface{}, raw []byte, value currency.Coin) result {
	sp := world.TxnSpec{From: from, To: minersc.ADDRESS, Value: value, Nonce: c.nonce(from.ID), Type: transaction.TxnTypeSmartContract, Func: fn, Input: input, RawInput: raw}
	t := c.w.MakeTxn(sp)
	_, err := c.bc.Exec(t)
	res := result{}
	if err != nil {
		res.Err = err.Error()
		return res
	}
	res.Included = true
	res.OK = t.Status == transaction.TxnSuccess
	res.Output = t.TransactionOutput
	c.run.Count(fmt.Sprintf("ops:%s:%s", fn, map[bool]string{true: "success", false: "failed"}[res.OK]), 1)
	return res
}

func (c *c38) send(from *world.Wallet, to string, v currency.Coin) {
	t := c.w.MakeTxn(world.TxnSpec{From: from, To: to, Value: v, Nonce: c.nonce(from.ID), Type: transaction.TxnTypeSend})
	if _, err := c.bc.Exec(t); err != nil {
		panic(fmt.Sprintf("funding transfer failed: %v", err))
	}
}

func (c *c38) register(a *actor) result {
	fn := "add_" + a.Kind
	in := map[string]interface{}{
		"simple_miner": map[string]interface{}{"id": a.W.ID, "public_key": a.W.PubKey, "n2n_host": a.Host, "host": a.Host, "port": a.Port, "path": "", "short_name": a.Host, "build_tag": "verif"},
		"stake_pool":   map[string]interface{}{"settings": map[string]interface{}{"delegate_wallet": c.w.Clients[a.Port%len(c.w.Clients)].ID, "service_charge": 0.1, "num_delegates": 10}},
	}
	res := c.exec(a.W, fn, in, nil, 0)
	if res.OK && a.Registered && a.Stake > 0 {
		// a node that registers again (hostile acts) is not staked again where the stake order matters: a.Stake stays what the
		// contract holds for the node
		c.logf("r%d %s %s again -> ok=%v %s", c.round, fn, a.W.Name, res.OK, trunc(res.Output, 80))
		return res
	}
	if res.OK {
		a.Registered = true
		pt := 1
		if a.Kind == "sharder" {
			pt = 2
		}
		stake := currency.Coin(5e10)
		if a.Stake > 0 {
			stake = a.Stake
		}
		if sr := c.exec(a.W, "addToDelegatePool", map[string]interface{}{"provider_type": pt, "provider_id": a.W.ID}, nil, stake); a.Stake > 0 && !sr.OK {
			panic(fmt.Sprintf("node %s could not be staked with %d: %s %s", a.W.Name, stake, sr.Output, sr.Err))
		}
	}
	c.logf("r%d %s %s stake=%d -> ok=%v %s", c.round, fn, a.W.Name, a.Stake, res.OK, trunc(res.Output, 80))
	return res
}

func (c *c38) byKind(kind string, pred func(*actor) bool) []*actor {
	var out []*actor
	for _, a := range c.nodes {
		if a.Kind == kind && (pred == nil || pred(a)) {
			out = append(out, a)
		}
	}
	return out
}

func (c *c38) actorOf(id string) *actor {
	for _, a := range c.nodes {
		if a.W.ID == id {
			return a
		}
	}
	return nil
}

// ---- DKG material -----------------------------------------------------------------------------------------------------------

func (c *c38) dkgOf(id string, t, n int) *tbls.DKG {
	if d, ok := c.dkgs[id]; ok && c.dkgT == t {
		return d
	}
	d := tbls.MakeDKG(t, n, id)
	c.dkgs[id] = d
	return d
}

func mpkStrings(d *tbls.DKG) []string {
	var out []string
	for _, pk := range d.GetMPKs() {
		out = append(out, pk.GetHexString())
	}
	return out
}

// sosFor builds the publish input of miner `from`: for every other miner that contributed a public key either that miner's signature
// over the hash of the share it got (the normal case) or the share itself, revealed.
func (c *c38) sosFor(from string, v vcState, reveal map[string]bool) *block.ShareOrSigns {
	sos := block.NewShareOrSigns()
	sos.ID = from
	d := c.dkgs[from]
	if d == nil {
		d = c.dkgOf(from, max(1, v.DKG.T), max(1, v.DKG.N))
	}
	ids := make([]string, 0, len(v.MPKs.Mpks))
	for id := range v.MPKs.Mpks {
		ids = append(ids, id)
	}
	sort.Strings(ids)
	for _, id := range ids {
		if id == from {
			continue
		}
		sh, err := d.ComputeDKGKeyShare(tbls.ComputeIDdkg(id))
		if err != nil {
			continue
		}
		ks := &tbls.DKGKeyShare{}
		if reveal[id] {
			ks.Share = sh.GetHexString()
		} else {
			other := c.actorOf(id)
			if other == nil {
				continue
			}
			ks.Message = encryption.Hash(sh.GetHexString())
			ks.Sign = other.W.Sign(ks.Message)
		}
		sos.ShareOrSigns[id] = ks
	}
	return sos
}

// ---- acceptance oracle ----------------------------------------------------------------------------------------------------------

func validPublicKeyHex(s string) bool {
	var pk hbls.PublicKey
	return pk.DeserializeHexStr(s) == nil || pk.SetHexString(s) == nil
}

// judgeMPK: a successful contributeMpk => Contribute phase, sender in the DKG list, first time, T entries, each entry a public key.
func (c *c38) judgeMPK(from *world.Wallet, before vcState, mpk []string, res result, class string) {
	c.run.Eval(1)
	c.run.Distinct(fmt.Sprintf("contributeMpk:%s:%s:ok=%v", phaseName(before.PN.Phase), class, res.OK))
	c.run.Count("monitor:mpk-acceptance", 1)
	if !res.OK {
		return
	}
	c.run.Count("accepted:contributeMpk", 1)
	ev := map[string]interface{}{"sender": from.Name, "class": class, "phase_before": phaseName(before.PN.Phase), "t": before.DKG.T, "entries": len(mpk), "output": trunc(res.Output, 200)}
	if !before.HasPhase || before.PN.Phase != minersc.Contribute {
		c.lim.Violate("C38:mpk-accepted-out-of-phase", fmt.Sprintf("contributeMpk of %s (%s) succeeded while the stored phase was %s", from.Name, class, phaseName(before.PN.Phase)), c.replay(ev))
	}
	if _, ok := before.DKG.SimpleNodes[from.ID]; !ok {
		c.lim.Violate("C38:mpk-accepted-from-non-member", fmt.Sprintf("contributeMpk of %s (%s) succeeded although the sender is not in the DKG miners list (%d members)", from.Name, class, len(before.DKG.SimpleNodes)), c.replay(ev))
	}
	if _, ok := before.MPKs.Mpks[from.ID]; ok {
		c.lim.Violate("C38:mpk-accepted-twice", fmt.Sprintf("contributeMpk of %s (%s) succeeded although the miner's key was already stored", from.Name, class), c.replay(ev))
	}
	if len(mpk) != before.DKG.T {
		c.lim.Violate("C38:mpk-accepted-wrong-size", fmt.Sprintf("contributeMpk of %s (%s) succeeded with %d entries, T is %d", from.Name, class, len(mpk), before.DKG.T), c.replay(ev))
	}
	for i, s := range mpk {
		if !validPublicKeyHex(s) {
			c.lim.Violate("C38:mpk-accepted-invalid-content", fmt.Sprintf("contributeMpk of %s (%s) succeeded although entry %d (%q) is not a public key", from.Name, class, i, trunc(s, 40)), c.replay(ev))
			break
		}
	}
}

// judgeSOS: a successful shareSignsOrShares => Publish phase, sender in the DKG list, first time, at least K-1 entries, and every entry
// is either a signature of the miner it is filed under or a share that fits the sender's published polynomial.
func (c *c38) judgeSOS(from *world.Wallet, before vcState, sos *block.ShareOrSigns, res result, class string) {
	c.run.Eval(1)
	c.run.Distinct(fmt.Sprintf("shareSignsOrShares:%s:%s:ok=%v", phaseName(before.PN.Phase), class, res.OK))
	c.run.Count("monitor:share-acceptance", 1)
	if !res.OK {
		return
	}
	c.run.Count("accepted:shareSignsOrShares", 1)
	n := 0
	if sos != nil {
		n = len(sos.ShareOrSigns)
	}
	ev := map[string]interface{}{"sender": from.Name, "class": class, "phase_before": phaseName(before.PN.Phase), "k": before.DKG.K, "entries": n, "output": trunc(res.Output, 300)}
	if !before.HasPhase || before.PN.Phase != minersc.Publish {
		c.lim.Violate("C38:share-accepted-out-of-phase", fmt.Sprintf("shareSignsOrShares of %s (%s) succeeded while the stored phase was %s", from.Name, class, phaseName(before.PN.Phase)), c.replay(ev))
	}
	if _, ok := before.DKG.SimpleNodes[from.ID]; !ok {
		c.lim.Violate("C38:share-accepted-from-non-member", fmt.Sprintf("shareSignsOrShares of %s (%s) succeeded although the sender is not in the DKG miners list (%d members)", from.Name, class, len(before.DKG.SimpleNodes)), c.replay(ev))
	}
	if _, ok := before.GSoS.Shares[from.ID]; ok {
		c.lim.Violate("C38:share-accepted-twice", fmt.Sprintf("shareSignsOrShares of %s (%s) succeeded although the miner's shares were already stored", from.Name, class), c.replay(ev))
	}
	if n < before.DKG.K-1 {
		c.lim.Violate("C38:share-accepted-wrong-size", fmt.Sprintf("shareSignsOrShares of %s (%s) succeeded with %d entries, K-1 is %d", from.Name, class, n, before.DKG.K-1), c.replay(ev))
	}
	if sos == nil {
		return
	}
	good := 0
	for key, ks := range sos.ShareOrSigns {
		if ks == nil {
			continue
		}
		if ks.Sign != "" {
			if a := c.actorOf(key); a != nil {
				if ok, _ := a.W.Scheme.Verify(ks.Sign, ks.Message); ok {
					good++
				}
			}
			continue
		}
		var sij hbls.SecretKey
		if sij.SetHexString(ks.Share) != nil {
			continue
		}
		if m, ok := before.MPKs.Mpks[from.ID]; ok {
			if pks, err := tbls.ConvertStringToMpk(m.Mpk); err == nil && tbls.ValidateShare(pks, sij, tbls.ComputeIDdkg(key)) {
				good++
			}
		}
	}
	if good < before.DKG.K-1 {
		c.lim.Violate("C38:share-accepted-invalid-content", fmt.Sprintf("shareSignsOrShares of %s (%s) succeeded with %d entries of which only %d are a valid signature of the named miner or a share fitting the sender's own public key; K-1 is %d", from.Name, class, n, good, before.DKG.K-1), c.replay(ev))
	}
}

// ---- per-phase planning ------------------------------------------------------------------------------------------------------

var policies = []string{"honest", "honest", "honest", "honest", "exactly-k", "k-minus-1-contribute", "only-new-miners-contribute", "no-sharder-keep", "k-minus-1-publish", "k-minus-1-wait", "revealed-shares", "only-new-sharders-keep"}

func (c *c38) plan(v vcState) {
	ph := v.PN.Phase
	c.planPhase, c.planStart = ph, v.PN.StartRound
	c.offsets = map[string]int64{}
	span := minersc.PhaseRounds[ph]
	if span < 1 {
		span = 1
	}
	off := func() int64 { return int64(c.r.Intn(int(span))) }
	members := func() []string {
		var ids []string
		for id := range v.DKG.SimpleNodes {
			ids = append(ids, id)
		}
		sort.Strings(ids)
		c.r.Shuffle(len(ids), func(i, j int) { ids[i], ids[j] = ids[j], ids[i] })
		return ids
	}
	switch ph {
	case minersc.Start:
		c.policy = policies[c.r.Intn(len(policies))]
		if c.p.EarlyExtras && c.r.Chance(0.3) {
			// histories with enough newcomers try a key generation without the set in force more often
			c.policy = []string{"only-new-miners-contribute", "only-new-miners-contribute", "only-new-sharders-keep"}[c.r.Intn(3)]
		}
		if c.p.StepFail > 0 && c.r.Chance(0.6) {
			// exactly K contributors, or everybody contributes and exactly K publish: with min_n above K the move condition of the
			// phase holds and the phase's own step cannot complete
			c.policy = []string{"exactly-k", "k-of-n-publish"}[c.r.Intn(2)]
		}
		if c.p.BigSet && c.r.Chance(0.7) {
			// everybody contributes a key; in Publish some of the best staked miners of the previous set stay silent
			c.policy = c38SilentTopPolicy
		}
		c.dkgs = map[string]*tbls.DKG{}
		c.lastPub = map[string][]byte{}
		c.silentInPublish = map[string]bool{}
	case minersc.Contribute:
		c.dkgT = v.DKG.T
		ids := members()
		k := v.DKG.K
		switch c.policy {
		case "exactly-k", "k-minus-1-publish":
			// K contributors, one of them from the previous set
			sort.SliceStable(ids, func(i, j int) bool { return c.prevMiners[ids[i]] && !c.prevMiners[ids[j]] })
			if len(ids) > k {
				ids = ids[:k]
			}
		case "k-minus-1-contribute":
			if len(ids) > k-1 {
				ids = ids[:max(0, k-1)]
			}
		case "only-new-miners-contribute":
			var nw []string
			for _, id := range ids {
				if !c.prevMiners[id] {
					nw = append(nw, id)
				}
			}
			ids = nw
		}
		for _, id := range ids {
			c.offsets[id] = off()
			c.dkgOf(id, v.DKG.T, v.DKG.N)
		}
		for _, s := range c.byKind("sharder", func(a *actor) bool { return a.Registered }) {
			switch c.policy {
			case "no-sharder-keep":
				continue
			case "only-new-sharders-keep":
				if c.prevSharders[s.W.ID] {
					continue
				}
			}
			c.offsets[s.W.ID] = off()
		}
	case minersc.Publish:
		ids := members()
		if c.policy == "k-minus-1-publish" && len(ids) > v.DKG.K-1 {
			ids = ids[:max(0, v.DKG.K-1)]
		}
		if c.policy == "k-of-n-publish" {
			// K publishers, one of them from the previous set; the other contributors stay silent
			sort.SliceStable(ids, func(i, j int) bool { return c.prevMiners[ids[i]] && !c.prevMiners[ids[j]] })
			if len(ids) > v.DKG.K {
				ids = ids[:max(0, v.DKG.K)]
			}
		}
		if c.policy == c38SilentTopPolicy {
			ids = c.silentTopStaked(v, ids)
		}
		for _, id := range ids {
			c.offsets[id] = off()
		}
	case minersc.Wait:
		ids := members()
		if c.policy == "k-minus-1-wait" && len(ids) > v.DKG.K-1 {
			ids = ids[:max(0, v.DKG.K-1)]
		}
		for _, id := range ids {
			c.offsets[id] = off()
		}
	}
	c.logf("r%d plan phase=%s policy=%s dkg=%d T=%d K=%d N=%d actors=%d", c.round, phaseName(ph), c.policy, len(v.DKG.SimpleNodes), v.DKG.T, v.DKG.K, v.DKG.N, len(c.offsets))
}

// silentTopStaked takes the publishers of a cycle and removes the s best staked miners of the previous set that contributed a key
// (1 <= s < number of such miners; the stake order is the one the harness staked the nodes with), now and then one newcomer too.
func (c *c38) silentTopStaked(v vcState, ids []string) []string {
	var prev []*actor
	for _, id := range ids {
		if _, ok := v.MPKs.Mpks[id]; ok && c.prevMiners[id] {
			if a := c.actorOf(id); a != nil {
				prev = append(prev, a)
			}
		}
	}
	for _, a := range prev {
		// the stake order the contract goes by is the one the harness made (read from the stored DKG list, not used for anything else)
		if sn := v.DKG.SimpleNodes[a.W.ID]; sn == nil || sn.TotalStaked != a.Stake {
			panic(fmt.Sprintf("stake of %s in the stored DKG list is not what the harness staked it with (%d)", a.W.Name, a.Stake))
		}
	}
	if len(prev) < 2 {
		return ids
	}
	sort.SliceStable(prev, func(i, j int) bool {
		if prev[i].Stake != prev[j].Stake {
			return prev[i].Stake > prev[j].Stake
		}
		return prev[i].W.ID < prev[j].W.ID
	})
	s := 1
	if c.r.Chance(0.6) {
		s = 1 + c.r.Intn(len(prev)-1)
	}
	for _, a := range prev[:s] {
		c.silentInPublish[a.W.ID] = true
	}
	if c.r.Chance(0.25) {
		var nw []string
		for _, id := range ids {
			if _, ok := v.MPKs.Mpks[id]; ok && !c.prevMiners[id] {
				nw = append(nw, id)
			}
		}
		if len(nw) > 0 {
			sort.Strings(nw)
			c.silentInPublish[nw[c.r.Intn(len(nw))]] = true
		}
	}
	var out []string
	for _, id := range ids {
		if !c.silentInPublish[id] {
			out = append(out, id)
		}
	}
	c.logf("r%d plan publish: %d of %d contributing miners of the previous set stay silent (best staked first), %d miners silent in all", c.round, s, len(prev), len(c.silentInPublish))
	return out
}

func (c *c38) contribute(a *actor, class string, mpk []string, raw []byte) {
	before := c.read(c.bc.State, c.bc.B, false)
	var res result
	if raw != nil {
		res = c.exec(a.W, "contributeMpk", nil, raw, 0)
		var m block.MPK
		_ = json.Unmarshal(raw, &m)
		mpk = m.Mpk
	} else {
		res = c.exec(a.W, "contributeMpk", &block.MPK{ID: a.W.ID, Mpk: mpk}, nil, 0)
	}
	if !res.Included {
		return
	}
	c.logf("r%d contributeMpk %s [%s] entries=%d phase=%s -> ok=%v %s", c.round, a.W.Name, class, len(mpk), phaseName(before.PN.Phase), res.OK, trunc(res.Output, 90))
	c.judgeMPK(a.W, before, mpk, res, class)
	if res.OK {
		// "once per participating miner": the stored key set may differ from the one before by the sender's own entry only
		after := c.read(c.bc.State, c.bc.B, false)
		var foreign []string
		for id, m := range after.MPKs.Mpks {
			if id == a.W.ID {
				continue
			}
			if pm, ok := before.MPKs.Mpks[id]; !ok || fmt.Sprint(pm) != fmt.Sprint(m) {
				foreign = append(foreign, id)
			}
		}
		for id := range before.MPKs.Mpks {
			if _, ok := after.MPKs.Mpks[id]; !ok && id != a.W.ID {
				foreign = append(foreign, id)
			}
		}
		sort.Strings(foreign)
		if len(foreign) > 0 {
			who := "a non-member id"
			if _, ok := before.DKG.SimpleNodes[foreign[0]]; ok {
				who = "another member's id"
			}
			c.lim.Violate("C38:mpk-filed-under-foreign-id", fmt.Sprintf("contributeMpk of %s (%s) succeeded and stored or changed the key of %s (%d entries touched) instead of the sender's own", a.W.Name, class, who, len(foreign)), c.replay(map[string]interface{}{"sender": a.W.Name, "class": class, "foreign": foreign}))
		}
	}
}

func (c *c38) publish(from *world.Wallet, class string, sos *block.ShareOrSigns, raw []byte) {
	before := c.read(c.bc.State, c.bc.B, false)
	var res result
	if raw != nil {
		res = c.exec(from, "shareSignsOrShares", nil, raw, 0)
		s := block.NewShareOrSigns()
		if json.Unmarshal(raw, s) == nil {
			sos = s
		} else {
			sos = nil
		}
	} else {
		raw, _ = json.Marshal(sos)
		res = c.exec(from, "shareSignsOrShares", nil, raw, 0)
	}
	if !res.Included {
		return
	}
	if res.OK && class == "honest" {
		c.lastPub[from.ID] = raw
	}
	c.logf("r%d shareSignsOrShares %s [%s] phase=%s -> ok=%v %s", c.round, from.Name, class, phaseName(before.PN.Phase), res.OK, trunc(res.Output, 90))
	c.judgeSOS(from, before, sos, res, class)
}

func (c *c38) waitTx(from *world.Wallet, class string) {
	before := c.read(c.bc.State, c.bc.B, false)
	res := c.exec(from, "wait", map[string]string{}, nil, 0)
	if !res.Included {
		return
	}
	c.run.Eval(1)
	c.run.Count("monitor:wait-acceptance", 1)
	c.run.Distinct(fmt.Sprintf("wait:%s:%s:ok=%v", phaseName(before.PN.Phase), class, res.OK))
	c.logf("r%d wait %s [%s] phase=%s -> ok=%v %s", c.round, from.Name, class, phaseName(before.PN.Phase), res.OK, trunc(res.Output, 90))
	if res.OK {
		if !before.HasPhase || before.PN.Phase != minersc.Wait {
			c.lim.Violate("C38:wait-accepted-out-of-phase", fmt.Sprintf("wait of %s (%s) succeeded while the stored phase was %s", from.Name, class, phaseName(before.PN.Phase)), c.replay(nil))
		}
		if before.DKG.Waited[from.ID] {
			c.lim.Violate("C38:wait-accepted-twice", fmt.Sprintf("wait of %s (%s) succeeded although it had already checked in", from.Name, class), c.replay(nil))
		}
	}
}

func (c *c38) keep(from *world.Wallet, sh *actor, class string) {
	before := c.read(c.bc.State, c.bc.B, false)
	in := map[string]interface{}{"simple_miner": map[string]interface{}{"id": sh.W.ID, "public_key": sh.W.PubKey, "n2n_host": sh.Host, "host": sh.Host, "port": sh.Port, "short_name": sh.Host}}
	res := c.exec(from, "sharder_keep", in, nil, 0)
	if !res.Included {
		return
	}
	c.run.Eval(1)
	c.run.Count("monitor:keep-acceptance", 1)
	c.run.Distinct(fmt.Sprintf("sharder_keep:%s:%s:ok=%v", phaseName(before.PN.Phase), class, res.OK))
	c.logf("r%d sharder_keep %s for %s [%s] phase=%s -> ok=%v %s", c.round, from.Name, sh.W.Name, class, phaseName(before.PN.Phase), res.OK, trunc(res.Output, 60))
	if res.OK && (!before.HasPhase || before.PN.Phase != minersc.Contribute) {
		c.lim.Violate("C38:keep-accepted-out-of-phase", fmt.Sprintf("sharder_keep for %s (%s) succeeded while the stored phase was %s", sh.W.Name, class, phaseName(before.PN.Phase)), c.replay(nil))
	}
}

// honest acts of this round according to the plan
func (c *c38) planned(v vcState) {
	at := c.round - c.planStart
	ids := make([]string, 0, len(c.offsets))
	for id := range c.offsets {
		ids = append(ids, id)
	}
	sort.Strings(ids)
	for _, id := range ids {
		o := c.offsets[id]
		if o > at {
			continue
		}
		a := c.actorOf(id)
		if a == nil {
			continue
		}
		delete(c.offsets, id)
		switch c.planPhase {
		case minersc.Contribute:
			if a.Kind == "sharder" {
				c.keep(a.W, a, "honest")
			} else {
				c.contribute(a, "honest", mpkStrings(c.dkgOf(id, v.DKG.T, v.DKG.N)), nil)
			}
		case minersc.Publish:
			cur := c.read(c.bc.State, c.bc.B, false)
			reveal := map[string]bool{}
			if c.policy == "revealed-shares" {
				for _, mid := range sortedKeys(cur.MPKs.Mpks) {
					if c.r.Chance(0.3) {
						reveal[mid] = true
					}
				}
			}
			cls := "honest"
			if len(reveal) > 0 {
				cls = "honest-with-revealed-shares"
			}
			c.publish(a.W, cls, c.sosFor(id, cur, reveal), nil)
		case minersc.Wait:
			c.waitTx(a.W, "honest")
		}
	}
}

// hostile acts: anything, any time
func (c *c38) hostile(v vcState) {
	r := c.r
	miners := c.byKind("miner", nil)
	pickMiner := func() *actor { return miners[r.Intn(len(miners))] }
	outsider := c.w.Clients[1+r.Intn(len(c.w.Clients)-1)]
	cur := c.read(c.bc.State, c.bc.B, false)
	t := cur.DKG.T
	if t == 0 {
		t = 3
	}
	switch r.Intn(17) {
	case 0: // a key from whoever, whenever (out of phase most of the time; duplicate inside the phase)
		a := pickMiner()
		c.contribute(a, "any-time", mpkStrings(tbls.MakeDKG(t, max(t, cur.DKG.N), a.W.ID)), nil)
	case 1: // somebody who is not a miner at all
		c.contribute(&actor{W: outsider, Kind: "miner"}, "outsider", mpkStrings(tbls.MakeDKG(t, max(t, 4), outsider.ID)), nil)
	case 2: // wrong number of entries
		a := pickMiner()
		n := []int{0, 1, t - 1, t + 1, 2 * t}[r.Intn(5)]
		if n < 0 {
			n = 0
		}
		var mpk []string
		if n > 0 {
			mpk = mpkStrings(tbls.MakeDKG(n, max(n, 4), a.W.ID))
		}
		c.contribute(a, "wrong-size", mpk, nil)
	case 3: // right size, content that is no key
		a := pickMiner()
		mpk := make([]string, t)
		for i := range mpk {
			mpk[i] = []string{"", "zz", "deadbeef", strings.Repeat("f", 128), "not-a-key"}[r.Intn(5)]
		}
		c.contribute(a, "garbage-content", mpk, nil)
	case 4: // not JSON / other JSON
		a := pickMiner()
		if r.Chance(0.5) {
			// a well-formed key filed under somebody else's id (another miner or an outsider)
			other := pickMiner()
			oid := other.W.ID
			if r.Chance(0.3) {
				oid = outsider.ID
			}
			raw, _ := json.Marshal(&block.MPK{ID: oid, Mpk: mpkStrings(tbls.MakeDKG(t, max(t, cur.DKG.N), a.W.ID))})
			c.contribute(a, "foreign-id", nil, raw)
			return
		}
		raw := [][]byte{[]byte(`{}`), []byte(`[]`), []byte(`"x"`), []byte(`{"ID":"someone-else","Mpk":null}`), []byte(`null`)}[r.Intn(5)]
		c.contribute(a, "malformed", nil, raw)
	case 5: // shares from whoever, whenever
		a := pickMiner()
		c.publish(a.W, "any-time", c.sosFor(a.W.ID, cur, nil), nil)
	case 6: // an outsider files a member's accepted shares under its own name
		var ids []string
		for id := range c.lastPub {
			ids = append(ids, id)
		}
		sort.Strings(ids)
		if len(ids) == 0 {
			c.publish(outsider, "outsider-own-material", c.sosFor(outsider.ID, cur, nil), nil)
			return
		}
		c.publish(outsider, "outsider-replays-member", nil, c.lastPub[ids[r.Intn(len(ids))]])
	case 7: // too few entries
		a := pickMiner()
		sos := c.sosFor(a.W.ID, cur, nil)
		for _, k := range sortedKeys(sos.ShareOrSigns) {
			if len(sos.ShareOrSigns) <= max(0, cur.DKG.K-2) {
				break
			}
			delete(sos.ShareOrSigns, k)
		}
		c.publish(a.W, "too-few-entries", sos, nil)
	case 8: // entries that say nothing
		a := pickMiner()
		m := map[string]interface{}{}
		for i, o := range miners {
			if o != a && i < 6 {
				m[o.W.ID] = nil
			}
		}
		raw, _ := json.Marshal(map[string]interface{}{"id": a.W.ID, "share_or_sign": m})
		c.publish(a.W, "null-entries", nil, raw)
	case 9: // a signature that is not the named miner's
		a := pickMiner()
		sos := c.sosFor(a.W.ID, cur, nil)
		for _, k := range sortedKeys(sos.ShareOrSigns) {
			sos.ShareOrSigns[k].Sign = a.W.Sign(sos.ShareOrSigns[k].Message)
			break
		}
		c.publish(a.W, "foreign-signature", sos, nil)
	case 10: // a revealed share that does not fit
		a := pickMiner()
		if _, has := cur.MPKs.Mpks[a.W.ID]; !has {
			// a revealed share filed by a sender that has no stored public key: before repository commit "fix: reject nil share entries
			// and shares of a sender without mpk" this dereferenced mpks.Mpks[sos.ID] == nil in ShareOrSigns.Validate and killed the
			// process (contract code runs in a goroutine without recover); it has to be refused
			c.run.Count("hostile:revealed-share-without-own-mpk", 1)
		}
		all := map[string]bool{}
		for id := range cur.MPKs.Mpks {
			all[id] = true
		}
		sos := c.sosFor(a.W.ID, cur, all)
		for _, k := range sortedKeys(sos.ShareOrSigns) {
			var sk hbls.SecretKey
			sk.SetByCSPRNG()
			sos.ShareOrSigns[k].Share = sk.GetHexString()
			break
		}
		c.publish(a.W, "bad-revealed-share", sos, nil)
	case 11:
		c.waitTx(pickMiner().W, "any-time")
	case 12:
		c.waitTx(outsider, "outsider")
	case 13: // keep for a sharder, from whoever, whenever
		sh := c.byKind("sharder", nil)
		s := sh[r.Intn(len(sh))]
		c.keep([]*world.Wallet{s.W, outsider, pickMiner().W}[r.Intn(3)], s, "any-time")
	case 14: // keep for a sharder nobody registered
		c.keep(outsider, &actor{W: outsider, Kind: "sharder", Host: "nobody.verif.test", Port: 1}, "unknown-sharder")
	case 15, 16: // a new node registers (or an existing one tries again)
		var un []*actor
		for _, a := range c.nodes {
			if !a.Registered {
				un = append(un, a)
			}
		}
		if len(un) > 0 {
			c.register(un[r.Intn(len(un))])
		} else {
			c.register(c.nodes[r.Intn(len(c.nodes))])
		}
	}
}

// ---- block loop and phase oracle ---------------------------------------------------------------------------------------------

// sortedKeys: the generator never lets Go's map order decide anything (histories are functions of VERIF_SEED).
func sortedKeys[V any](m map[string]V) []string {
	ks := make([]string, 0, len(m))
	for k := range m {
		ks = append(ks, k)
	}
	sort.Strings(ks)
	return ks
}

func successor(p minersc.Phase) minersc.Phase {
	if p == minersc.Wait {
		return minersc.Start
	}
	return p + 1
}

// payFees executes one payFees transaction and judges the phase transition it made (the phase node just before and just after it).
func (c *c38) payFees(gen *world.Wallet, input string, variant string) result {
	pre := c.read(c.bc.State, c.bc.B, true)
	if !pre.HasPhase {
		pre.PN = minersc.PhaseNode{Phase: minersc.Start, StartRound: c.round} // what the contract assumes when nothing is stored yet
	}
	res := c.exec(gen, "payFees", nil, []byte(input), 0)
	if !res.Included {
		return res
	}
	post := c.read(c.bc.State, c.bc.B, true)
	paid := 0
	if res.OK {
		paid = 1
	}
	c.judgeTransition(c.round, pre, pre, post, paid, variant)
	return res
}

func poolKeys(p interface{ Keys() []string }) map[string]bool {
	m := map[string]bool{}
	for _, k := range p.Keys() {
		m[k] = true
	}
	return m
}

func (c *c38) oneBlock() {
	c.round++
	rn := c.round
	gi := int(rn) % len(c.w.Miners)
	c.w.Advance(time.Second)
	c.bc = c.w.NewBlock(c.prev, rn, gi)
	gen := c.w.Miners[gi]
	before := c.read(c.bc.State, c.bc.B, true)
	if !before.HasPhase {
		before.PN = minersc.PhaseNode{Phase: minersc.Start, StartRound: rn} // what the contract assumes when nothing is stored yet
	}
	if before.PN.Phase != c.planPhase || before.PN.StartRound != c.planStart {
		c.plan(before)
	}
	// the block's transactions
	if c.p.LateExtras {
		i := 0
		for _, a := range c.nodes {
			if a.Genesis {
				continue
			}
			if !a.Registered && i < len(c.p.LateAt) && rn >= c.p.LateAt[i] {
				c.register(a)
			}
			i++
		}
	}
	c.planned(before)
	for i := 0; i < 3; i++ {
		if c.r.Chance(c.p.Hostile) {
			c.hostile(before)
		}
	}
	// transactions other than payFees never move the phase
	mid := c.read(c.bc.State, c.bc.B, false)
	if mid.HasPhase && before.HasPhase && (mid.PN.Phase != before.PN.Phase || mid.PN.StartRound != before.PN.StartRound) {
		c.lim.Violate("C38:phase-changed-without-payfees", fmt.Sprintf("round %d: the stored phase changed from %s/%d to %s/%d before any payFees ran in the block", rn, phaseName(before.PN.Phase), before.PN.StartRound, phaseName(mid.PN.Phase), mid.PN.StartRound), c.replay(nil))
	}
	c.run.Count("monitor:phase-stable-without-payfees", 1)
	// payFees (normally the generator's, last in the block)
	variant := "generator"
	switch x := c.r.Intn(40); {
	case x == 0:
		variant = "absent"
	case x == 1:
		variant = "not-generator"
	case x == 2:
		variant = "wrong-round"
	case x == 3:
		variant = "twice"
	}
	paid := 0
	ok := func(r result) {
		if r.OK {
			paid++
		}
	}
	switch variant {
	case "absent":
	case "not-generator":
		ok(c.payFees(c.w.Miners[(gi+1)%len(c.w.Miners)], fmt.Sprintf(`{"round":%d}`, rn), variant))
	case "wrong-round":
		ok(c.payFees(gen, fmt.Sprintf(`{"round":%d}`, rn+1), variant))
	case "twice":
		ok(c.payFees(gen, fmt.Sprintf(`{"round":%d}`, rn), variant))
		ok(c.payFees(gen, fmt.Sprintf(`{"round":%d}`, rn), variant+"(second)"))
	default:
		res := c.payFees(gen, fmt.Sprintf(`{"round":%d}`, rn), variant)
		ok(res)
		if res.Included && !res.OK {
			c.logf("r%d payFees failed: %s", rn, trunc(res.Output, 160))
			c.run.Count("payfees_failed:"+errClassStr(res.Output), 1)
		}
	}
	c.run.Count("payfees:"+variant, 1)
	b := c.bc.Seal()
	c.judgeViewChange(rn, b, paid, variant)
	c.prev = b
}

func (c *c38) judgeTransition(rn int64, before, mid, after vcState, paid int, variant string) {
	c.run.Eval(1)
	c.run.Count("monitor:phase-transition", 1)
	if !after.HasPhase {
		c.run.Count("blocks_without_stored_phase", 1)
		return
	}
	from, to := before.PN.Phase, after.PN.Phase
	elapsed := rn - before.PN.StartRound
	need := minersc.PhaseRounds[from]
	kind := "same"
	switch {
	case to == from && after.PN.StartRound == before.PN.StartRound:
		kind = "same"
	case to == successor(from) && !(from == minersc.Start && to == minersc.Start):
		kind = "advance"
	case to == minersc.Start:
		kind = "restart"
	default:
		kind = "other"
	}
	c.run.Count("transition:"+phaseName(from)+"->"+phaseName(to)+":"+kind, 1)
	c.run.Distinct(fmt.Sprintf("transition:%s->%s:%s:policy=%s:pay=%s", phaseName(from), phaseName(to), kind, c.policy, variant))
	ev := map[string]interface{}{"round": rn, "before": before.PN, "after": after.PN, "phase_rounds": c.p.PhaseRounds, "payfees": variant, "paid": paid, "mpks": len(mid.MPKs.Mpks), "gsos": len(mid.GSoS.Shares), "dkg": len(mid.DKG.SimpleNodes), "k": mid.DKG.K, "keep": len(mid.Keep)}
	c.judgeRestartAndEntry(rn, before, mid, after, kind, paid, ev)
	if kind == "other" {
		c.lim.Violate("C38:phase-skipped", fmt.Sprintf("round %d: the stored phase went from %s to %s", rn, phaseName(from), phaseName(to)), c.replay(ev))
	}
	if kind == "advance" {
		c.run.Count("monitor:advance-timing", 1)
		if elapsed < need {
			c.lim.Violate("C38:phase-advanced-too-early", fmt.Sprintf("round %d: phase %s started in round %d and needs %d rounds, but it advanced to %s after %d", rn, phaseName(from), before.PN.StartRound, need, phaseName(to), elapsed), c.replay(ev))
		}
		// necessary parts of the move conditions, from the statement and the contract's constants (state just before payFees)
		switch from {
		case minersc.Contribute, minersc.Share:
			if len(mid.MPKs.Mpks) < mid.DKG.K || (mid.GN != nil && len(mid.Keep) < mid.GN.MinS) {
				c.lim.Violate("C38:phase-advanced-without-condition", fmt.Sprintf("round %d: %s advanced with %d public keys (K=%d) and %d kept sharders", rn, phaseName(from), len(mid.MPKs.Mpks), mid.DKG.K, len(mid.Keep)), c.replay(ev))
			}
			prevIn := false
			for id := range mid.MPKs.Mpks {
				if c.prevMiners[id] {
					prevIn = true
				}
			}
			if !prevIn {
				c.lim.Violate("C38:phase-advanced-without-condition", fmt.Sprintf("round %d: %s advanced although no miner of the previous set contributed a key", rn, phaseName(from)), c.replay(ev))
			}
		case minersc.Publish:
			if len(mid.GSoS.Shares) < mid.DKG.K {
				c.lim.Violate("C38:phase-advanced-without-condition", fmt.Sprintf("round %d: publish advanced with %d share sets (K=%d)", rn, len(mid.GSoS.Shares), mid.DKG.K), c.replay(ev))
			}
		}
		if after.PN.StartRound != rn {
			c.lim.Violate("C38:phase-start-round-wrong", fmt.Sprintf("round %d: phase advanced to %s but its start round is stored as %d", rn, phaseName(to), after.PN.StartRound), c.replay(ev))
		}
	}
	if kind != "same" && paid == 0 {
		c.lim.Violate("C38:phase-changed-without-payfees", fmt.Sprintf("round %d: the phase changed (%s -> %s) although the payFees transaction failed (%s)", rn, phaseName(from), phaseName(to), variant), c.replay(ev))
	}
	// cycle bookkeeping
	if kind == "restart" {
		c.run.Count("restarts:"+phaseName(from)+":policy="+c.policy, 1)
		c.cyclePath = nil
	}
	if kind == "advance" {
		if from == minersc.Start {
			c.cyclePath = []minersc.Phase{minersc.Start}
		}
		if len(c.cyclePath) > 0 {
			c.cyclePath = append(c.cyclePath, to)
		}
		if from == minersc.Wait && len(c.cyclePath) == 6 {
			c.run.Count("full_cycles", 1)
			c.run.Count("full_cycles:policy="+c.policy, 1)
			c.cyclePath = nil
		}
	}
	// a magic block is produced when publish advances to wait
	if kind == "advance" && from == minersc.Publish {
		c.run.Count("monitor:magic-block", 1)
		if after.RawMB == nil {
			c.lim.Violate("C38:magic-block-missing", fmt.Sprintf("round %d: publish advanced to wait but no magic block is stored", rn), c.replay(ev))
		} else {
			c.judgeMB(rn, after, mid, ev)
		}
	}
	// a restart out of Start although everything the statement and the contract's constants ask for is there: the phase ran its
	// rounds, enough registered miners and sharders, and members of the set in force among both (only Start is judged this way:
	// its whole condition can be evaluated from facts the harness holds independently)
	if from == minersc.Start && kind == "restart" {
		c.run.Count("monitor:start-restart", 1)
		regM := c.byKind("miner", func(a *actor) bool { return a.Registered })
		regS := c.byKind("sharder", func(a *actor) bool { return a.Registered })
		pm, ps := 0, 0
		for _, a := range regM {
			if c.prevMiners[a.W.ID] {
				pm++
			}
		}
		for _, a := range regS {
			if c.prevSharders[a.W.ID] {
				ps++
			}
		}
		minN, minS := 3, 1
		if mid.GN != nil && mid.GN.MinN > 0 {
			minN, minS = mid.GN.MinN, mid.GN.MinS
		}
		if elapsed >= need && len(regM) >= minN && len(regM) >= mid.DKG.K && len(regS) >= minS && pm > 0 && ps > 0 {
			ev["registered_miners"], ev["registered_sharders"], ev["of_previous_set"] = len(regM), len(regS), []int{pm, ps}
			c.lim.Violate("C38:restart-although-condition-holds:start", fmt.Sprintf("round %d: the start phase ran %d of %d rounds with %d registered miners (%d of the set in force) and %d registered sharders (%d of the set in force), yet the key generation restarted instead of moving to contribute (%d completed view change(s) before)", rn, elapsed, need, len(regM), pm, len(regS), ps, c.viewChanges), c.replay(ev))
		}
	}
}

// judgeRestartAndEntry: "otherwise the key generation restarts at Start" and what the Contribute phase starts from.
//
//   - a payFees that reset the key generation (the public keys gathered so far are gone although the phase did not advance, or the
//     stored restart count grew) must leave the phase at Start, started in this round;
//   - Contribute is not entered before Start has run its configured rounds since the last such reset, whatever the stored phase
//     node says about the phase it came from;
//   - Contribute starts with the participating miners listed: the DKG miner list is the set of registered miners (the harness knows
//     whom it registered), with T and K of at least 1 - contributeMpk is judged against this list ("once per participating miner").
//     Not judged in the round in which the stored magic block takes effect (see below).
//
// It also counts the phase ends at which the move condition (as far as the statement gives it: K keys / K share sets, a kept
// sharder, members of the previous set) holds while fewer than min_n miners are left, so that the evidence shows they happened.
func (c *c38) judgeRestartAndEntry(rn int64, before, mid, after vcState, kind string, paid int, ev map[string]interface{}) {
	from, to := before.PN.Phase, after.PN.Phase
	if mid.GN != nil && mid.GN.MinN > 0 && mid.GN.MinN != c.p.MinN {
		panic(fmt.Sprintf("min_n not taken from the configuration: %d vs %d", mid.GN.MinN, c.p.MinN))
	}
	entered := to != from || after.PN.StartRound != before.PN.StartRound
	wiped := entered && kind != "advance" && len(mid.MPKs.Mpks) > 0 && len(after.MPKs.Mpks) == 0
	counted := after.PN.Restarts > before.PN.Restarts
	if wiped || counted || kind == "restart" {
		c.run.Count("monitor:restart-lands-at-start", 1)
		c.restartAt, c.restartSeen = rn, true
		if to != minersc.Start || after.PN.StartRound != rn {
			how := "the public keys gathered so far were dropped"
			if counted {
				how = fmt.Sprintf("the stored restart count went from %d to %d", before.PN.Restarts, after.PN.Restarts)
			}
			c.lim.Violate("C38:restart-not-at-start", fmt.Sprintf("round %d: the key generation was restarted at the end of %s (%s; %d public keys, %d share sets, %d DKG miners, K=%d before), but the stored phase is %s started in round %d instead of start started in round %d", rn, phaseName(from), how, len(mid.MPKs.Mpks), len(mid.GSoS.Shares), len(mid.DKG.SimpleNodes), mid.DKG.K, phaseName(to), after.PN.StartRound, rn), c.replay(ev))
		}
	}
	if entered && to == minersc.Contribute {
		c.run.Count("monitor:contribute-entry", 1)
		if c.restartSeen && rn-c.restartAt < minersc.PhaseRounds[minersc.Start] {
			c.lim.Violate("C38:contribute-entered-before-start-ran-its-rounds", fmt.Sprintf("round %d: contribute was entered %d round(s) after the key generation restarted in round %d; start lasts %d rounds", rn, rn-c.restartAt, c.restartAt, minersc.PhaseRounds[minersc.Start]), c.replay(ev))
		}
		reg := map[string]bool{}
		for _, a := range c.byKind("miner", func(a *actor) bool { return a.Registered }) {
			reg[a.W.ID] = true
		}
		missing, foreign := 0, 0
		for id := range reg {
			if _, ok := after.DKG.SimpleNodes[id]; !ok {
				missing++
			}
		}
		for id := range after.DKG.SimpleNodes {
			if !reg[id] {
				foreign++
			}
		}
		if len(after.DKG.SimpleNodes) == 0 && mid.RawMB != nil && mid.RawMB.StartingRound == rn {
			// the round in which the stored magic block takes effect: after the phase step the same payFees adjusts the view change
			// and empties the DKG miner list (those who did not send wait are dropped, then the list is reset). A contribute phase can
			// only start in that very round when start lasts 0 rounds and the block has a second payFees; the list built by the phase
			// step is not observable then. Recorded, not judged.
			c.run.Count("observations:contribute-entered-in-view-change-round-dkg-list-emptied", 1)
			c.logf("r%d contribute entered in the view-change round of the stored magic block: DKG miner list empty after payFees", rn)
		} else if missing > 0 || foreign > 0 || after.DKG.T < 1 || after.DKG.K < 1 {
			ev["dkg_after"] = map[string]interface{}{"listed": len(after.DKG.SimpleNodes), "registered": len(reg), "missing": missing, "foreign": foreign, "t": after.DKG.T, "k": after.DKG.K, "n": after.DKG.N}
			c.lim.Violate("C38:contribute-entered-without-dkg-miners", fmt.Sprintf("round %d: contribute started (from %s) with a DKG miner list of %d (T=%d K=%d N=%d) while %d miners are registered: %d of them not listed, %d listed that never registered", rn, phaseName(from), len(after.DKG.SimpleNodes), after.DKG.T, after.DKG.K, after.DKG.N, len(reg), missing, foreign), c.replay(ev))
		}
	}
	// phase ends at which the condition holds and the step cannot complete (min_n from the history's configuration)
	if paid == 0 || rn-before.PN.StartRound < minersc.PhaseRounds[from] {
		return
	}
	prevIn := func(ids []string, prev map[string]bool) bool {
		for _, id := range ids {
			if prev[id] {
				return true
			}
		}
		return false
	}
	hit := false
	switch from {
	case minersc.Start:
		regM := c.byKind("miner", func(a *actor) bool { return a.Registered })
		regS := c.byKind("sharder", func(a *actor) bool { return a.Registered })
		var mi, si []string
		for _, a := range regM {
			mi = append(mi, a.W.ID)
		}
		for _, a := range regS {
			si = append(si, a.W.ID)
		}
		hit = len(regM) < c.p.MinN && len(regM) >= mid.DKG.K && len(regS) >= 1 && prevIn(mi, c.prevMiners) && prevIn(si, c.prevSharders)
	case minersc.Contribute:
		n := 0
		for id := range mid.MPKs.Mpks {
			if _, ok := mid.DKG.SimpleNodes[id]; ok {
				n++
			}
		}
		hit = mid.DKG.K >= 1 && len(mid.MPKs.Mpks) >= mid.DKG.K && n < c.p.MinN && len(mid.Keep) >= 1 && prevIn(sortedKeys(mid.MPKs.Mpks), c.prevMiners) && prevIn(mid.Keep, c.prevSharders)
	case minersc.Publish:
		n := 0
		for id := range mid.GSoS.Shares {
			_, a := mid.DKG.SimpleNodes[id]
			_, b := mid.MPKs.Mpks[id]
			if a && b {
				n++
			}
		}
		hit = mid.DKG.K >= 1 && len(mid.GSoS.Shares) >= mid.DKG.K && n < c.p.MinN && prevIn(sortedKeys(mid.GSoS.Shares), c.prevMiners)
	}
	if hit {
		c.run.Count("boundary:condition-holds-but-fewer-than-min_n:"+phaseName(from), 1)
		c.run.Distinct(fmt.Sprintf("boundary:condition-holds-but-fewer-than-min_n:%s:%s->%s:policy=%s", phaseName(from), kind, phaseName(to), c.policy))
		c.logf("r%d end of %s: condition holds, fewer than min_n=%d miners left -> %s/%d (%s)", rn, phaseName(from), c.p.MinN, phaseName(to), after.PN.StartRound, kind)
	}
}

// judgeViewChange: payFees hands the stored magic block to the chain at the view-change round, the block carries it.
func (c *c38) judgeViewChange(rn int64, b *block.Block, paid int, variant string) {
	ev := map[string]interface{}{"round": rn}
	if b.MagicBlock != nil && paid == 0 {
		// payFees hands the magic block to the block object before it checks who sent it; when that payFees then fails, its state
		// changes are rolled back (the contract does not record the view change) but the block keeps the magic block. An honest
		// generator's own payFees follows in the same block and records it; here the block had none (payFees variant of the workload).
		// Not a view change as far as the contract's phase machine is concerned: the membership in force stays.
		c.run.Count("observations:magic-block-put-on-block-by-failed-payfees:"+variant, 1)
		c.logf("r%d block carries a magic block although no payFees succeeded (%s)", rn, variant)
		return
	}
	if b.MagicBlock != nil {
		c.run.Count("view_changes_in_blocks", 1)
		c.run.Count("monitor:view-change-block", 1)
		c.viewChanges++
		got := poolKeys(b.MagicBlock.Miners)
		gotS := poolKeys(b.MagicBlock.Sharders)
		hm, hs := false, false
		for id := range got {
			if c.prevMiners[id] {
				hm = true
			}
		}
		for id := range gotS {
			if c.prevSharders[id] {
				hs = true
			}
		}
		fmt.Printf("C38 child %d r%d view change: accessors miners=%d sharders=%d; stored miners=%d sharders=%d; nodesmap-nil=%v nodes=%d type=%d\n", c.p.Idx, rn, len(got), len(gotS), len(c.pendMiners), len(c.pendSharders), b.MagicBlock.Miners.NodesMap == nil, len(b.MagicBlock.Miners.Nodes), b.MagicBlock.Miners.Type)
		c.logf("r%d VIEW CHANGE: block carries magic block #%d; members through its accessors: miners=%d sharders=%d; stored: miners=%d sharders=%d", rn, b.MagicBlock.MagicBlockNumber, len(got), len(gotS), len(c.pendMiners), len(c.pendSharders))
		if !hm || !hs {
			ev["carried"] = map[string]interface{}{"miners_by_accessor": len(got), "sharders_by_accessor": len(gotS), "miners_node_slice": len(b.MagicBlock.Miners.Nodes), "stored_miners": len(c.pendMiners), "stored_sharders": len(c.pendSharders), "json": trunc(string(b.MagicBlock.Encode()), 300)}
			c.lim.Violate("C38:magic-block-without-previous-member:as-handed-to-chain", fmt.Sprintf("round %d: the magic block the view-change block carries lists %d miners and %d sharders through Keys/HasNode and its JSON form (node slice: %d), none from the previous set; the stored bytes name %d miners and %d sharders", rn, len(got), len(gotS), len(b.MagicBlock.Miners.Nodes), len(c.pendMiners), len(c.pendSharders)), c.replay(ev))
		}
		if c.pendMiners != nil {
			c.prevMiners, c.prevSharders = c.pendMiners, c.pendSharders
		}
	}
}

// judgeMB judges the magic block as stored (membership from the raw bytes).
func (c *c38) judgeMB(rn int64, after, mid vcState, ev map[string]interface{}) {
	mb := after.RawMB
	miners, sharders := mb.Miners, mb.Sharders
	c.mbProduced++
	c.pendMiners, c.pendSharders = miners, sharders
	hasM, hasS := false, false
	for id := range miners {
		if c.prevMiners[id] {
			hasM = true
		}
	}
	for id := range sharders {
		if c.prevSharders[id] {
			hasS = true
		}
	}
	ev["mb"] = map[string]interface{}{"miners": len(miners), "sharders": len(sharders), "t": mb.T, "k": mb.K, "n": mb.N, "starting_round": mb.StartingRound, "prev_miners": len(c.prevMiners), "prev_sharders": len(c.prevSharders)}
	c.run.Distinct(fmt.Sprintf("magic-block:miners=%d:sharders=%d:t=%d:k=%d:n=%d:policy=%s", len(miners), len(sharders), mb.T, mb.K, mb.N, c.policy))
	if c.mbProduced <= 2 && c.p.Idx < 3 {
		c.run.Sample(map[string]interface{}{"child": c.p.Idx, "round": rn, "magic_block": ev["mb"], "policy": c.policy})
	}
	if c.p.BigSet {
		// what the final reduction of the DKG set had to choose from: the miners that contributed a key and published their shares
		pub, pubPrev, silentPrev := 0, 0, 0
		for id := range mid.GSoS.Shares {
			_, a := mid.DKG.SimpleNodes[id]
			_, b := mid.MPKs.Mpks[id]
			if a && b {
				pub++
				if c.prevMiners[id] {
					pubPrev++
				}
			}
		}
		for id := range c.silentInPublish {
			if _, ok := mid.GSoS.Shares[id]; !ok && c.prevMiners[id] {
				silentPrev++
			}
		}
		ev["big_set"] = map[string]interface{}{"max_n": c.p.MaxN, "x_percent": c.p.XPercent, "stake_profile": c.p.StakeProfile, "publishers": pub, "publishers_of_previous_set": pubPrev, "silent_contributors_of_previous_set": silentPrev, "contributors": len(mid.MPKs.Mpks)}
		c.run.Count("big-set:magic-blocks", 1)
		if len(mid.MPKs.Mpks) > c.p.MaxN {
			c.run.Count("big-set:magic-block-from-more-contributors-than-max_n", 1)
		}
		if pub > c.p.MaxN {
			c.run.Count("big-set:magic-block-from-more-publishers-than-max_n", 1)
		}
		if silentPrev > 0 && pubPrev > 0 {
			c.run.Count("big-set:magic-block-after-best-staked-previous-miners-stayed-silent", 1)
		}
		c.run.Distinct(fmt.Sprintf("big-set:magic-block:max_n=%d:x=%.2f:stakes=%s:publishers=%d:of-previous=%d:silent-previous=%d:miners=%d:policy=%s", c.p.MaxN, c.p.XPercent, c.p.StakeProfile, pub, pubPrev, silentPrev, len(miners), c.policy))
		c.logf("r%d magic block of %d miners from %d publishers (%d of the previous set; %d contributors of the previous set silent), max_n=%d", rn, len(miners), pub, pubPrev, silentPrev, c.p.MaxN)
	}
	if !hasM {
		c.lim.Violate("C38:magic-block-without-previous-member", fmt.Sprintf("round %d: the produced magic block has %d miners, none of them from the previous set (%d)", rn, len(miners), len(c.prevMiners)), c.replay(ev))
	}
	if !hasS {
		c.lim.Violate("C38:magic-block-without-previous-member", fmt.Sprintf("round %d: the produced magic block has %d sharders, none of them from the previous set (%d)", rn, len(sharders), len(c.prevSharders)), c.replay(ev))
	}
	bad := ""
	switch {
	case mb.T < 1 || mb.T > mb.K || mb.K > mb.N:
		bad = "1 <= T <= K <= N does not hold"
	case len(miners) < mb.K:
		bad = "fewer miners than K"
	case len(miners) > mb.N:
		bad = "more miners than N"
	case mb.T != mid.DKG.T || mb.K != mid.DKG.K || mb.N != mid.DKG.N:
		bad = fmt.Sprintf("differs from the DKG list's T/K/N %d/%d/%d", mid.DKG.T, mid.DKG.K, mid.DKG.N)
	case mb.StartingRound != rn+minersc.PhaseRounds[minersc.Wait]:
		bad = fmt.Sprintf("starting round %d is not the end of the wait phase (%d)", mb.StartingRound, rn+minersc.PhaseRounds[minersc.Wait])
	}
	if bad == "" {
		for id := range miners {
			if !mb.MpkIDs[id] {
				bad = "a miner of the magic block has no public key in it"
			}
		}
	}
	if bad != "" {
		c.lim.Violate("C38:magic-block-inconsistent", fmt.Sprintf("round %d: magic block with %d miners, T=%d K=%d N=%d: %s", rn, len(miners), mb.T, mb.K, mb.N, bad), c.replay(ev))
	}
}

func c38Child(tier string, idx int) (code int) {
	run := mon.NewRun("C38", tier, "exploration", "")
	c := &c38{run: run, lim: newLimiter(run), p: c38ParamsOf(tier, idx)}
	defer func() {
		if p := recover(); p != nil {
			fmt.Printf("C38 HARNESS-PANIC: %v\n%s\n", p, stack())
			run.Count("harness_panics", 1)
			run.Set(fmt.Sprintf("panic_child_%d", idx), fmt.Sprintf("%v | recent: %v", p, c.oplog[max(0, len(c.oplog)-10):]))
			run.Checkpoint()
			code = 0
		}
	}()
	p := c.p
	sc := map[string]interface{}{}
	for i, k := range []string{"start_rounds", "contribute_rounds", "share_rounds", "publish_rounds", "wait_rounds"} {
		sc["minersc."+k] = p.PhaseRounds[i]
	}
	if p.EarlyExtras {
		// 4 old + 3 new miners: K = ceil(0.4*7) = 3, so the newcomers alone can reach K and only the previous-member rules stand
		// between them and a magic block of their own
		sc["minersc.k_percent"] = 0.4
		sc["minersc.t_percent"] = 0.3
	}
	if p.LateExtras {
		sc["minersc.k_percent"] = 0.4 // 7 miners in the chain's current magic block: K = 3, below min_n = 5
		sc["minersc.t_percent"] = 0.3
	}
	if p.StepFail > 0 {
		sc["minersc.min_n"] = p.MinN
	}
	if p.BigSet {
		// 7 or 8 miners run the key generation, max_n of them fit into the magic block (N = max_n, K and T follow from it)
		sc["minersc.max_n"] = p.MaxN
		sc["minersc.x_percent"] = p.XPercent
		sc["minersc.k_percent"] = p.KPercent
		sc["minersc.t_percent"] = p.TPercent
	}
	c.w = world.New(world.Options{Seed: p.WorldSeed, ViewChange: true, NumClients: 6, SCSet: sc})
	defer c.w.Close()
	logging.Logger = zap.NewNop()
	if lp := os.Getenv("VERIF_MINT_LOG"); lp != "" { // debugging aid: the contract's own log
		cfg := zap.NewDevelopmentConfig()
		cfg.OutputPaths = []string{lp}
		cfg.Level = zap.NewAtomicLevelAt(zap.InfoLevel)
		if lg, err := cfg.Build(); err == nil {
			logging.Logger = lg
		}
	}
	for i := range p.PhaseRounds {
		if minersc.PhaseRounds[minersc.Phase(i)] != p.PhaseRounds[i] {
			panic(fmt.Sprintf("phase rounds not taken from the configuration: %v vs %v", minersc.PhaseRounds, p.PhaseRounds))
		}
	}
	c.r = mon.NewRand(mon.Seed()).Fork(fmt.Sprintf("c38-hist-%d", idx))
	c.prev = c.w.GB
	c.prevMiners, c.prevSharders = map[string]bool{}, map[string]bool{}
	for i, m := range c.w.Miners {
		c.prevMiners[m.ID] = true
		c.nodes = append(c.nodes, &actor{W: m, Kind: "miner", Genesis: true, Host: fmt.Sprintf("miner%d.verif.test", i), Port: 7071 + i})
	}
	for i, s := range c.w.Sharders {
		c.prevSharders[s.ID] = true
		c.nodes = append(c.nodes, &actor{W: s, Kind: "sharder", Genesis: true, Host: fmt.Sprintf("sharder%d.verif.test", i), Port: 7171 + i})
	}
	for i := 0; i < p.ExtraMiners; i++ {
		c.nodes = append(c.nodes, &actor{W: c.w.AddWallet(fmt.Sprintf("xminer%d", i)), Kind: "miner", Host: fmt.Sprintf("xminer%d.verif.test", i), Port: 7081 + i})
	}
	for i := 0; i < p.ExtraShard; i++ {
		c.nodes = append(c.nodes, &actor{W: c.w.AddWallet(fmt.Sprintf("xsharder%d", i)), Kind: "sharder", Host: fmt.Sprintf("xsharder%d.verif.test", i), Port: 7181 + i})
	}
	if p.EarlyExtras || p.LateExtras {
		// add_miner / add_sharder only take nodes of the chain's current magic block. Give the chain a current magic block (number 2,
		// starting at round 1) that lists the newcomers too, while its latest finalized one - the "previous set" the contract refers
		// to - stays the genesis magic block.
		mb2 := block.NewMagicBlock()
		mb2.Miners = node.NewPool(node.NodeTypeMiner)
		mb2.Sharders = node.NewPool(node.NodeTypeSharder)
		mb2.MagicBlockNumber = c.w.MB.MagicBlockNumber + 1
		mb2.PreviousMagicBlockHash = c.w.MB.Hash
		mb2.StartingRound = 1
		mi, si := 0, 0
		for _, a := range c.nodes {
			n := &node.Node{Host: "127.0.0.1", N2NHost: "127.0.0.1", Port: a.Port, Status: node.NodeStatusActive}
			pool := mb2.Miners
			if a.Kind == "miner" {
				n.Type, n.SetIndex = node.NodeTypeMiner, mi
				mi++
			} else {
				n.Type, n.SetIndex = node.NodeTypeSharder, si
				si++
				pool = mb2.Sharders
			}
			if err := n.SetSignatureScheme(a.W.Scheme); err != nil {
				panic(err)
			}
			n.Client.ID = a.W.ID
			if err := pool.AddNode(n); err != nil {
				panic(err)
			}
		}
		mb2.T, mb2.K, mb2.N = c.w.MB.T, c.w.MB.K, mi
		mb2.Hash = mb2.GetHash()
		if err := c.w.Chain.UpdateMagicBlock(mb2); err != nil {
			panic(fmt.Sprintf("cannot install the wider current magic block: %v", err))
		}
		if got := c.w.Chain.GetCurrentMagicBlock(); got == nil || got.Miners.Size() != mi {
			panic("the chain's current magic block is not the wider one")
		}
		if lf := c.w.Chain.GetLatestFinalizedMagicBlock(context.Background()); lf == nil || lf.MagicBlock.Miners.Size() != len(c.w.Miners) {
			panic("the latest finalized magic block changed")
		}
	}
	if p.BigSet {
		mi := 0
		for _, a := range c.nodes {
			if a.Kind == "miner" {
				a.Stake = currency.Coin(p.StakeUnits[mi]) * 1e10
				mi++
			}
		}
	}
	c.silentInPublish = map[string]bool{}
	c.planPhase = -1
	c.dkgs = map[string]*tbls.DKG{}
	c.lastPub = map[string][]byte{}
	c.offsets = map[string]int64{}

	// set-up block: fund the newcomers, register and stake the genesis nodes (no payFees, no phase node yet)
	c.round = 1
	c.w.Advance(time.Second)
	c.bc = c.w.NewBlock(c.prev, 1, 0)
	for _, a := range c.nodes {
		if !a.Genesis {
			c.send(c.w.Clients[0], a.W.ID, 1e12)
		}
	}
	for _, a := range c.nodes {
		if a.Genesis || p.EarlyExtras {
			if res := c.register(a); !res.OK {
				panic(fmt.Sprintf("node %s could not register: %s %s", a.W.Name, res.Output, res.Err))
			}
		}
	}
	c.prev = c.bc.Seal()

	for int(c.round) < p.Rounds {
		c.oneBlock()
		if c.round%20 == 0 {
			run.Checkpoint()
		}
		if p.BigSet && c.viewChanges > 0 {
			// the seats the contract reserves for the previous set go by the chain's latest finalized magic block, which stays the
			// genesis one in this world; the set in force (and the oracle's previous set) moves on with the first view change. The
			// history ends where the two part.
			run.Count("big-set:histories-ended-at-first-view-change", 1)
			break
		}
	}
	run.Count("rounds", c.round)
	run.Count("children_completed", 1)
	fmt.Printf("C38 child %d done: rounds=%d full_cycles=%d mbs=%d\n", idx, c.round, run.Counter("full_cycles"), c.mbProduced)
	run.Checkpoint()
	return 0
}

func c38Parent(tier string) int {
	run := mon.NewRun("C38", tier, "exploration",
		"block histories on a view-change-enabled chain (4 genesis miners + 2 sharders registered and staked, up to 3 more miners and 1 sharder joining), every block executed through the real Chain.UpdateState and closed by the generator's payFees; per cycle a policy decides who contributes keys / keeps sharders / publishes shares / waits (real DKG polynomials, signatures of the real node keys), hostile DKG transactions are mixed in at any time; 8 further histories (16 in the thorough tier) run with min_n above K (4 miners min_n=4, or 7 known miners min_n=5 registering late) and policies with exactly K contributors / exactly K publishers, so that phases end with their condition holding and their step unable to complete; the phase node, DKG list, keys, shares, keep list and magic block are read back raw from the state trie after every transaction/block; 16 more histories (48 in the thorough tier) register 7 or 8 miners (4 of the previous set, 3-4 newcomers) with max_n 4 or 5, 1-2 seats reserved for the previous set (x_percent) and a different stake for every miner (previous-set miners on top of the stake order and at its bottom, newcomers between, or a random order), so that the final reduction of the DKG set really selects; in most of their cycles every miner contributes a key and the 1..n-1 best staked contributing miners of the previous set (now and then a newcomer too) never publish their shares while the others do; these histories end at their first view change; distinct = (function, phase, input class, outcome) and (transition, policy, payFees variant) tuples")
	n := c38Hists(tier) + c38StepHists(tier) + c38BigHists(tier)
	var specs []mon.ChildSpec
	for i := 0; i < n; i++ {
		specs = append(specs, mon.ChildSpec{Name: fmt.Sprintf("hist-%d", i), Args: childArgs("C38", tier, "hist", i, ""), Timeout: time.Duration(scale(tier, 110, 900)) * time.Second})
	}
	res := mon.RunChildren(run, specs, 8)
	for _, cr := range res {
		if cr.Crashed && !cr.TimedOut {
			p := mon.KeepLog(cr, fmt.Sprintf("C38-%s-crash.log", cr.Spec.Name))
			run.Count("observations:crashes", 1)
			run.Inconclusive(fmt.Sprintf("child %s crashed (contract panic or harness fault; log %s)", cr.Spec.Name, p))
		}
	}
	if run.Counter("harness_panics") > 0 {
		run.Inconclusive("a child stopped on a harness panic (see panic_child_* in the evidence)")
	}
	run.RequireMin("full_cycles", int64(scale(tier, 6, 40)))
	run.RequireMin("monitor:phase-transition", int64(scale(tier, 1500, 15000)))
	run.RequireMin("monitor:magic-block", int64(scale(tier, 6, 40)))
	run.RequireMin("accepted:contributeMpk", int64(scale(tier, 30, 200)))
	run.RequireMin("accepted:shareSignsOrShares", int64(scale(tier, 20, 150)))
	run.RequireMin("boundary:condition-holds-but-fewer-than-min_n:contribute", int64(scale(tier, 5, 40)))
	run.RequireMin("boundary:condition-holds-but-fewer-than-min_n:publish", int64(scale(tier, 5, 40)))
	run.RequireMin("boundary:condition-holds-but-fewer-than-min_n:start", int64(scale(tier, 2, 8)))
	run.RequireMin("monitor:restart-lands-at-start", int64(scale(tier, 60, 400)))
	run.RequireMin("monitor:contribute-entry", int64(scale(tier, 100, 800)))
	run.RequireMin("big-set:magic-block-from-more-publishers-than-max_n", int64(scale(tier, 6, 18)))
	run.RequireMin("big-set:magic-block-after-best-staked-previous-miners-stayed-silent", int64(scale(tier, 6, 18)))
	run.Assume("a reset of the key generation is recognised from the state around one payFees: the phase went back to start, or the public keys gathered so far are gone without the phase having advanced, or the stored restart count grew; the participating miners of a contribute phase are the miners whose add_miner succeeded (nothing in these histories removes a miner)")
	run.Assume("move conditions are judged as necessary conditions only (elapsed rounds from the contract's PhaseRounds, number of keys / share sets against K, kept sharders against min_s, a previous-set miner among the keys); a restart that the statement would not require is not a violation")
	run.Assume("the chain's own latest finalized magic block stays the genesis one (no finalization in this world); the contract keeps the magic block of each completed view change in its global node, and the oracle tracks the membership in force from the stored bytes of the magic blocks that blocks actually carried")
	run.Assume("add_miner/add_sharder only take nodes of the chain's current magic block; every third history therefore installs a current magic block (number 2) that also lists 3 new miners and 1 new sharder while the latest finalized one stays genesis, and lowers k_percent/t_percent so that the newcomers alone reach K: only then can a key generation without a previous member be attempted at all")
	run.Assume("the histories with more miners than max_n end at their first view change: the contract reserves seats for the miners of the chain's latest finalized magic block, which stays the genesis one in this world, while the set in force moves on with a view change; up to that point the two are the same set")
	run.Assume("DKG polynomials come from bls.MakeDKG (CSPRNG): key material differs between runs, the case classes are functions of VERIF_SEED")
	return run.Finish()
}
