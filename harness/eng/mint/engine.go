// Package mint is the generator/verifier engine: a miner's GenerateRoundBlock over a (mini)redis transaction pool, judged by a
// second node process that shares nothing with the generator but the block bytes and the genesis (C45), and the miner contract's
// view-change phase machine driven by generated block histories with real DKG material (C38).
//
//	verifh mint -prop C45|C38 -tier quick|thorough
//
// 0chain keeps its chain, node identity and configuration in process globals, so every node is its own child process.
package mint

import (
	"flag"
	"fmt"
	"os"
	"path/filepath"
	"strconv"

	"github.com/0chain/common/core/logging"
	"github.com/alicebob/miniredis/v2"
	"github.com/gomodule/redigo/redis"
	"go.uber.org/zap"

	"0chain.net/chaincore/node"
	"0chain.net/core/memorystore"
	"0chain.net/miner"

	"verifh/mon"
	"verifh/world"
)

// Main is the engine entry point.
func Main(args []string) int {
	if len(args) > 0 && args[0] == "mint" { // children are re-executed with the engine name first
		args = args[1:]
	}
	fs := flag.NewFlagSet("mint", flag.ExitOnError)
	prop := fs.String("prop", "C45", "property id")
	tier := fs.String("tier", "quick", "quick|thorough")
	child := fs.String("child", "", "child kind (internal)")
	idx := fs.Int("idx", 0, "child index (internal)")
	dir := fs.String("dir", "", "exchange directory (internal)")
	_ = fs.Parse(args)
	if *child != "" {
		switch *prop + ":" + *child {
		case "C45:gen":
			return c45GenChild(*tier, *idx, *dir)
		case "C45:ver":
			return c45VerChild(*tier, *idx, *dir)
		case "C45:dup":
			return c45DupChild(*tier, *idx)
		case "C38:hist":
			return c38Child(*tier, *idx)
		}
		fmt.Printf("mint: unknown child %s:%s\n", *prop, *child)
		return 2
	}
	defer mon.CleanScratch()
	switch *prop {
	case "C45":
		return c45Parent(*tier)
	case "C38":
		return c38Parent(*tier)
	}
	fmt.Printf("mint: unknown property %q\n", *prop)
	return 2
}

func childArgs(prop, tier, kind string, idx int, dir string) []string {
	a := []string{"mint", "-prop", prop, "-tier", tier, "-child", kind, "-idx", strconv.Itoa(idx)}
	if dir != "" {
		a = append(a, "-dir", dir)
	}
	return a
}

func scale(tier string, quick, thorough int) int {
	if tier == "thorough" {
		return thorough
	}
	return quick
}

// mon.Run.Violate keeps a bounded number of violations per process; a defect that fires in every block would hide a rarer one.
// Children hand at most perSigCap violations per signature to the run; the full tally is the counter "violations:<signature>".
const perSigCap = 3

type limiter struct {
	run *mon.Run
	n   map[string]int
}

func newLimiter(run *mon.Run) *limiter { return &limiter{run: run, n: map[string]int{}} }

func (l *limiter) Violate(sig, detail string, replay interface{}) {
	l.n[sig]++
	l.run.Count("violations:"+sig, 1)
	if l.n[sig] <= perSigCap {
		l.run.Violate(sig, detail, replay)
	}
	fmt.Printf("VIOLATION-IN-CHILD %s: %s\n", sig, detail)
}

// becomeNode makes miner `self` of the world's magic block this process's node identity (world.New always picks miner 0),
// starts an in-process redis for the transaction pool and the client store, and sets the miner chain up on the world's chain.
func becomeNode(w *world.World, self int) (*miner.Chain, func()) {
	logging.Logger = zap.NewNop()
	logging.N2n = zap.NewNop()
	n := w.MB.Miners.GetNode(w.Miners[self].ID)
	if n == nil {
		panic("self miner not in the magic block")
	}
	node.Self = &node.SelfNode{}
	node.Self.Node = n
	if err := node.Self.SetSignatureScheme(w.Miners[self].Scheme); err != nil {
		panic(err)
	}
	s, err := miniredis.Run()
	if err != nil {
		panic(err)
	}
	p, _ := strconv.Atoi(s.Port())
	memorystore.InitDefaultPool(s.Host(), p)
	mk := func() *redis.Pool {
		return &redis.Pool{MaxIdle: 20, MaxActive: 200, Dial: func() (redis.Conn, error) { return redis.Dial("tcp", s.Addr()) }}
	}
	memorystore.AddPool("txndb", mk())
	memorystore.AddPool("clientdb", mk())
	miner.SetupMinerChain(w.Chain)
	miner.SetupM2MSenders()
	mc := miner.GetMinerChain()
	return mc, func() { s.Close() }
}

func exchangeDir(name string) string {
	d := filepath.Join(mon.ScratchDir(), name)
	_ = os.MkdirAll(d, 0o755)
	return d
}
