package mint

import (
	"context"
	"fmt"
	"runtime/debug"
	"time"

	"0chain.net/chaincore/block"
	"0chain.net/chaincore/transaction"
	"0chain.net/core/common"
	"0chain.net/smartcontract/minersc"
	"0chain.net/smartcontract/storagesc"

	"verifh/mon"
	"verifh/world"
)

func stack() string { return string(debug.Stack()) }

// c45DupChild hands hand-built blocks to the real miner ValidateTransactions: a block that carries a built-in transaction
// (payFees, generate_challenge, blobber_block_rewards, commit_settings_changes) twice must be rejected, wherever the two copies
// sit (same validation batch or different ones); the same block with one copy must pass (control).
func c45DupChild(tier string, idx int) (code int) {
	run := mon.NewRun("C45", tier, "exploration", "")
	lim := newLimiter(run)
	defer func() {
		if p := recover(); p != nil {
			fmt.Printf("C45 DUP HARNESS-PANIC: %v\n%s\n", p, stack())
			run.Count("dup_harness_panics", 1)
			run.Checkpoint()
			code = 0
		}
	}()
	const batch = 4
	w := world.New(world.Options{Seed: mon.Seed()*131 + 977, NumClients: 6, ViperSet: map[string]interface{}{"server_chain.block.validation.batch_size": batch}})
	defer w.Close()
	mc, stop := becomeNode(w, 1)
	defer stop()
	if mc.ValidationBatchSize() != batch {
		panic(fmt.Sprintf("validation batch size is %d", mc.ValidationBatchSize()))
	}
	w.Now = common.Now()
	r := mon.NewRand(mon.Seed()).Fork("c45-dup")
	gen := w.Miners[0]
	rounds := scale(tier, 6, 60)
	for it := 0; it < rounds; it++ {
		rn := int64(10 + it)
		nonce := map[string]int64{}
		nx := func(wl *world.Wallet) int64 { nonce[wl.ID]++; return nonce[wl.ID] }
		filler := func() *transaction.Transaction {
			c := w.Clients[r.Intn(len(w.Clients))]
			to := w.Clients[(indexOf(w.Clients, c)+1)%len(w.Clients)]
			return w.MakeTxn(world.TxnSpec{From: c, To: to.ID, Value: 1, Fee: 1e8, Nonce: nx(c), Type: transaction.TxnTypeSend})
		}
		builtin := func(name string) *transaction.Transaction {
			to := storagesc.ADDRESS
			if name == "payFees" {
				to = minersc.ADDRESS
			}
			return w.MakeTxn(world.TxnSpec{From: gen, To: to, Nonce: nx(gen), Type: transaction.TxnTypeSmartContract, Func: name, RawInput: []byte(fmt.Sprintf(`{"round":%d}`, rn))})
		}
		for _, name := range builtIns {
			for _, layout := range []string{"control-once", "adjacent", "first-and-last", "different-batches", "three-copies"} {
				nFill := 3 + r.Intn(3*batch)
				var txns []*transaction.Transaction
				for i := 0; i < nFill; i++ {
					txns = append(txns, filler())
				}
				switch layout {
				case "control-once":
					txns = append(txns, builtin(name))
				case "adjacent":
					p := r.Intn(len(txns))
					txns = append(txns[:p], append([]*transaction.Transaction{builtin(name), builtin(name)}, txns[p:]...)...)
				case "first-and-last":
					txns = append([]*transaction.Transaction{builtin(name)}, append(txns, builtin(name))...)
				case "different-batches":
					for len(txns) < 2*batch {
						txns = append(txns, filler())
					}
					a := r.Intn(batch)
					b2 := len(txns) - r.Intn(batch-1)
					txns = append(txns[:a], append([]*transaction.Transaction{builtin(name)}, txns[a:]...)...)
					txns = append(txns[:b2], append([]*transaction.Transaction{builtin(name)}, txns[b2:]...)...)
				case "three-copies":
					txns = append(txns, builtin(name), builtin(name))
					txns = append([]*transaction.Transaction{builtin(name)}, txns...)
				}
				// the other built-ins once each, as an honest block would carry them
				for _, other := range builtIns {
					if other != name && r.Chance(0.5) {
						txns = append(txns, builtin(other))
					}
				}
				b := block.NewBlock(w.Chain.GetKey(), rn)
				b.CreationDate = w.Now
				b.MinerID = gen.ID
				b.Hash = fmt.Sprintf("%064x", it*1000+len(name)*10+len(layout))
				for _, t := range txns {
					t.OutputHash = t.ComputeOutputHash()
				}
				b.Txns = txns
				mc.SetCurrentRound(rn)
				ctx, cancel := context.WithTimeout(context.Background(), 60*time.Second)
				err := mc.ValidateTransactions(ctx, b)
				cancel()
				run.Eval(1)
				run.Count("monitor:dup-builtin-validate", 1)
				run.Distinct("dup-builtin:" + name + ":" + layout + ":" + errClass(err))
				run.Count("dup:"+name+":"+layout+":"+errClass(err), 1)
				if layout == "control-once" {
					if err != nil {
						run.Count("dup_control_rejected", 1)
						fmt.Printf("C45 DUP control block rejected (%s): %v\n", name, err)
					}
					continue
				}
				if err == nil {
					pos := []int{}
					for i, t := range txns {
						if t.FunctionName == name && t.TransactionType == transaction.TxnTypeSmartContract {
							pos = append(pos, i)
						}
					}
					lim.Violate("C45:duplicate-builtin-accepted", fmt.Sprintf("ValidateTransactions accepts a block of %d transactions that carries %s at positions %v (layout %s, validation batch size %d)", len(txns), name, pos, layout, batch),
						map[string]interface{}{"seed": mon.Seed(), "builtin": name, "layout": layout, "positions": pos, "txns": len(txns)})
				}
			}
		}
		run.Checkpoint()
	}
	if run.Counter("dup_control_rejected") > 0 {
		run.Inconclusive("the control block (one copy of the built-in) was rejected by ValidateTransactions: rejections of the duplicated blocks prove nothing")
	}
	time.Sleep(100 * time.Millisecond)
	run.Checkpoint()
	return 0
}
