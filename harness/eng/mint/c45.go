package mint

import (
	"context"
	"encoding/hex"
	"encoding/json"
	"fmt"
	"math/big"
	"os"
	"path/filepath"
	"sort"
	"strings"
	"time"

	"0chain.net/chaincore/block"
	"0chain.net/chaincore/chain"
	"0chain.net/chaincore/round"
	"0chain.net/chaincore/smartcontract"
	"0chain.net/chaincore/transaction"
	"0chain.net/core/common"
	"0chain.net/core/datastore"
	"0chain.net/core/encryption"
	"0chain.net/core/memorystore"
	"0chain.net/miner"
	"0chain.net/smartcontract/faucetsc"
	"0chain.net/smartcontract/minersc"
	"0chain.net/smartcontract/storagesc"
	"0chain.net/smartcontract/vestingsc"
	"0chain.net/smartcontract/zcnsc"
	"github.com/0chain/common/core/currency"
	"github.com/0chain/common/core/statecache"
	"github.com/0chain/common/core/util"

	"verifh/mon"
	"verifh/world"
)

// ---------------------------------------------------------------------------------------------------------
// scenario = one chain of blocks built by node A and verified by node B; everything is a function of (VERIF_SEED, idx)

type scenario struct {
	Idx       int
	WorldSeed uint64
	Blocks    int
	Gen       int  // index of the generating miner in the magic block (node A)
	Ver       int  // index of the verifying miner (node B)
	Register  bool // block 1's pool registers and stakes the magic-block nodes in the miner contract (so payFees has somebody to pay)
	Finalize  int  // -1: the latest finalized block stays the genesis block; n >= 0: both nodes finalize with a lag of n blocks
	Prune     bool // included transactions are removed from the pool as finalization does (otherwise they stay and come back as past ones)
	Senders   int
	PerSender int // valid transactions per sender and block (upper bound)
	Hostile   int // hostile items per block (upper bound)
	ChalGap   int64
	RewardGap int64
	SettGap   int64
	Burst     bool // one block gets a pool that is far above the block cost limit
}

func c45Scenario(tier string, idx int) scenario {
	r := mon.NewRand(mon.Seed()).Fork(fmt.Sprintf("c45-scenario-%d", idx))
	s := scenario{Idx: idx, WorldSeed: mon.Seed()*131 + uint64(idx)}
	s.Blocks = 4 + r.Intn(2)
	if tier == "thorough" {
		s.Blocks = 12 + r.Intn(9)
	}
	s.Gen = r.Intn(4)
	s.Ver = (s.Gen + 1 + r.Intn(3)) % 4
	s.Register = idx%2 == 0
	s.Finalize = []int{0, 1, -1, 2, 0}[idx%5]
	s.Prune = r.Chance(0.5)
	s.Senders = 5 + r.Intn(4)
	s.PerSender = 2 + r.Intn(4)
	s.Hostile = 10 + r.Intn(12)
	s.ChalGap = int64(2 + r.Intn(2))
	s.RewardGap = int64(2 + r.Intn(3))
	s.SettGap = int64(2 + r.Intn(3))
	s.Burst = idx%3 == 1
	return s
}

func (s scenario) world() *world.World {
	return world.New(world.Options{
		Seed:       s.WorldSeed,
		NumClients: 10,
		ViperSet: map[string]interface{}{
			"server_chain.smart_contract.setting_update_period": s.SettGap,
			"server_chain.block.generation.timeout":             15,
			// the collection phase of block generation is cut after this wall-clock time; with the default (180ms) a loaded machine
			// decides how many transactions fit, with 3s the block cost limit does
			"server_chain.block.proposal.max_wait_time": "3s",
		},
		SCSet: map[string]interface{}{
			"storagesc.challenge_generation_gap":    s.ChalGap,
			"storagesc.block_reward.trigger_period": s.RewardGap,
		},
	})
}

// roundSeed picks, deterministically, a round random seed under which miner `gen` is one of the round's generators.
func roundSeed(mc *miner.Chain, s scenario, rn int64, nMiners int) (int64, *miner.Round) {
	r := mon.NewRand(s.WorldSeed).Fork(fmt.Sprintf("rrs-%d", rn))
	for try := 0; try < 200; try++ {
		seed := int64(r.U64()>>2) | 1
		mr := mc.CreateRound(round.NewRound(rn))
		mr.SetRandomSeed(seed, nMiners)
		if mc.IsRoundGenerator(mr, mc.GetMiners(rn).GetNode(nodeID(mc, s.Gen))) {
			return seed, mr
		}
	}
	panic("no round seed makes the chosen miner a generator")
}

var minerIDs []string

func nodeID(mc *miner.Chain, i int) string { return minerIDs[i] }

// ---------------------------------------------------------------------------------------------------------
// exchange format between the two nodes

// blockMeta is what node A says about a block it generated, next to the serialised block itself.
type blockMeta struct {
	Round     int64          `json:"round"`
	Codec     string         `json:"codec"`
	File      string         `json:"file"`
	Seed      int64          `json:"seed"`
	Hash      string         `json:"hash"`
	Root      string         `json:"root"`    // A's state root after the block
	Changes   int            `json:"changes"` // A's change count
	Txns      []txnClaim     `json:"txns"`
	Pool      []poolItemMeta `json:"pool"`
	GenErrors []string       `json:"gen_errors,omitempty"`
	Generated bool           `json:"generated"`
}

type txnClaim struct {
	Hash   string `json:"hash"`
	Output string `json:"output"`
	Status int    `json:"status"`
}

type poolItemMeta struct {
	Hash   string `json:"hash"`
	Class  string `json:"class"`
	Via    string `json:"via"`
	Sender string `json:"sender"`
	Nonce  int64  `json:"nonce"`
	Fee    uint64 `json:"fee"`
	Admit  string `json:"admit"` // "ok" or the admission error
}

// ---------------------------------------------------------------------------------------------------------
// hostile pool generator

type poolItem struct {
	Txn   *transaction.Transaction
	Class string
	Raw   bool // written into the pool behind the admission handler (content that admission let in earlier and that went stale since)
}

func stateOf(st util.MerklePatriciaTrieI, id string) (int64, currency.Coin) {
	s, err := chain.GetStateById(st, id)
	if err != nil || s == nil {
		return 0, 0
	}
	return s.Nonce, s.Balance
}

type poolGen struct {
	w     *world.World
	mc    *miner.Chain
	s     scenario
	r     *mon.Rand
	now   common.Timestamp
	lfb   *block.Block
	prev  *block.Block
	old   []*transaction.Transaction // transactions included in earlier blocks (for replays)
	heavy bool                       // prefer contract calls (they cost more than transfers)
}

func (g *poolGen) minFee(t *transaction.Transaction) currency.Coin {
	_, fee, err := g.mc.EstimateTransactionCostFee(context.Background(), g.lfb, t, chain.WithSync())
	if err != nil {
		return 1e10
	}
	return fee
}

// build signs a transaction; fee < 0 means "minimum acceptable fee plus a random tip" (the tip randomises the pool order).
func (g *poolGen) build(sp world.TxnSpec, tip bool) *transaction.Transaction {
	if sp.Time == 0 {
		sp.Time = g.now - common.Timestamp(g.r.Intn(20))
	}
	t := g.w.MakeTxn(sp)
	if tip {
		fee := g.minFee(t) + currency.Coin(g.r.Intn(5e8))
		sp.Fee = fee
		t = g.w.MakeTxn(sp)
	}
	return t
}

func (g *poolGen) validSpec(from *world.Wallet, nonce int64) (world.TxnSpec, string) {
	r := g.r
	others := g.w.Clients
	to := others[r.Intn(len(others))]
	for to.ID == from.ID {
		to = others[r.Intn(len(others))]
	}
	T := transaction.TxnTypeSmartContract
	weights := []int{30, 10, 12, 8, 8, 8, 6, 6, 4}
	if g.heavy {
		weights = []int{3, 1, 12, 10, 10, 16, 8, 12, 10}
	}
	switch r.Pick(weights) {
	case 0:
		return world.TxnSpec{From: from, To: to.ID, Value: currency.Coin(1 + r.Intn(1e9)), Nonce: nonce, Type: transaction.TxnTypeSend}, "send"
	case 1:
		return world.TxnSpec{From: from, To: to.ID, Nonce: nonce, Type: transaction.TxnTypeData, Data: fmt.Sprintf("payload-%d", r.Intn(1e6))}, "data"
	case 2:
		return world.TxnSpec{From: from, To: faucetsc.ADDRESS, Value: currency.Coin(1 + r.Intn(1e9)), Nonce: nonce, Type: T, Func: "pour", Input: map[string]string{}}, "faucet.pour"
	case 3:
		return world.TxnSpec{From: from, To: zcnsc.ADDRESS, Value: currency.Coin([]uint64{1, 1e10, 5e10, 7e10}[r.Intn(4)]), Nonce: nonce, Type: T, Func: "burn", Input: map[string]interface{}{"ethereum_address": fmt.Sprintf("0x%040x", r.Intn(1000))}}, "zcn.burn"
	case 4:
		start := int64(g.now) + int64(r.Intn(100))
		dests := []map[string]interface{}{{"id": to.ID, "amount": 1000 + r.Intn(1000)}}
		return world.TxnSpec{From: from, To: vestingsc.ADDRESS, Value: currency.Coin(5000), Nonce: nonce, Type: T, Func: "add", Input: map[string]interface{}{"description": "v", "start_time": start, "duration": int64(10 * time.Minute), "destinations": dests}}, "vesting.add"
	case 5:
		m := g.w.Miners[r.Intn(len(g.w.Miners))]
		return world.TxnSpec{From: from, To: minersc.ADDRESS, Value: currency.Coin([]uint64{1e10, 5e10, 1e11}[r.Intn(3)]), Nonce: nonce, Type: T, Func: "addToDelegatePool", Input: map[string]interface{}{"provider_type": 1, "provider_id": m.ID}}, "miner.stake"
	case 6:
		return world.TxnSpec{From: from, To: faucetsc.ADDRESS, Value: currency.Coin(1 + r.Intn(1e9)), Nonce: nonce, Type: T, Func: "refill", Input: map[string]string{}}, "faucet.refill"
	case 7:
		return world.TxnSpec{From: from, To: storagesc.ADDRESS, Value: currency.Coin(1e10), Nonce: nonce, Type: T, Func: "read_pool_lock", Input: map[string]interface{}{}}, "storage.read_pool_lock"
	default:
		// a contract call that fails inside the contract: included, charged, status error
		return world.TxnSpec{From: from, To: minersc.ADDRESS, Nonce: nonce, Type: T, Func: "collect_reward", Input: map[string]interface{}{"provider_type": 1, "provider_id": from.ID}}, "miner.collect_reward(fails)"
	}
}

func (g *poolGen) registration() []poolItem {
	var out []poolItem
	st := g.prev.ClientState
	add := func(wl *world.Wallet, fn string, i int, port int) {
		n, _ := stateOf(st, wl.ID)
		host := fmt.Sprintf("%s%d.verif.test", fn, i)
		in := map[string]interface{}{
			"simple_miner": map[string]interface{}{"id": wl.ID, "public_key": wl.PubKey, "n2n_host": host, "host": host, "port": port, "path": "", "short_name": host, "build_tag": "verif"},
			"stake_pool":   map[string]interface{}{"settings": map[string]interface{}{"delegate_wallet": g.w.Clients[port%len(g.w.Clients)].ID, "service_charge": 0.1, "num_delegates": 10}},
		}
		out = append(out, poolItem{Class: "setup." + fn, Txn: g.build(world.TxnSpec{From: wl, To: minersc.ADDRESS, Nonce: n + 1, Type: transaction.TxnTypeSmartContract, Func: fn, Input: in}, true)})
		out = append(out, poolItem{Class: "setup.stake", Txn: g.build(world.TxnSpec{From: wl, To: minersc.ADDRESS, Value: 5e10, Nonce: n + 2, Type: transaction.TxnTypeSmartContract, Func: "addToDelegatePool",
			Input: map[string]interface{}{"provider_type": map[string]int{"add_miner": 1, "add_sharder": 2}[fn], "provider_id": wl.ID}}, true)})
	}
	for i, m := range g.w.Miners {
		add(m, "add_miner", i, 7071+i)
	}
	for i, sh := range g.w.Sharders {
		add(sh, "add_sharder", i, 7171+i)
	}
	return out
}

// generate builds the pool additions for one block.
func (g *poolGen) generate(rn int64) []poolItem {
	r := g.r
	st := g.prev.ClientState
	var items []poolItem
	if g.s.Register && rn == 1 {
		items = append(items, g.registration()...)
	}
	senders := g.w.Clients[:g.s.Senders]
	per := g.s.PerSender
	burst := g.s.Burst && rn == 2
	g.heavy = burst
	if burst {
		// far more cost than a block may carry (17 senders x 9 transactions, mostly contract calls of cost 100..360 against a
		// limit of 10000): the cost limit must cut the block, and per sender in nonce order
		per = 9
		senders = append(append(append([]*world.Wallet{}, g.w.Clients...), g.w.Owner), append(append([]*world.Wallet{}, g.w.Miners...), g.w.Sharders...)...)
	}
	next := map[string]int64{}
	for _, c := range senders {
		n, _ := stateOf(st, c.ID)
		k := 1 + r.Intn(per)
		if burst {
			k = per
		}
		// nonces n+1..n+k, handed to the pool in a random order and with random tips, so that the pool order (by fee) differs
		// from the nonce order and the generator has to park future transactions and pick them up later
		var batch []poolItem
		for j := 1; j <= k; j++ {
			sp, cls := g.validSpec(c, n+int64(j))
			batch = append(batch, poolItem{Class: cls, Txn: g.build(sp, true)})
		}
		r.Shuffle(len(batch), func(i, j int) { batch[i], batch[j] = batch[j], batch[i] })
		items = append(items, batch...)
		next[c.ID] = n + int64(k) + 1
	}
	nh := 1 + r.Intn(g.s.Hostile)
	for i := 0; i < nh; i++ {
		c := senders[r.Intn(len(senders))]
		n, bal := stateOf(st, c.ID)
		to := g.w.Clients[(r.Intn(len(g.w.Clients)-1)+1+indexOf(g.w.Clients, c))%len(g.w.Clients)]
		send := func(nonce int64, v currency.Coin) world.TxnSpec {
			return world.TxnSpec{From: c, To: to.ID, Value: v, Nonce: nonce, Type: transaction.TxnTypeSend}
		}
		switch r.Intn(16) {
		case 0: // signature made for another hash
			t := g.build(send(next[c.ID], 5), true)
			t.Signature = c.Sign(encryption.Hash("something else"))
			items = append(items, poolItem{Class: "bad-signature", Txn: t})
		case 1: // hash that does not belong to the content
			t := g.build(send(next[c.ID], 5), true)
			t.Value = 6
			items = append(items, poolItem{Class: "bad-hash", Txn: t})
		case 2: // nonce already used
			if n == 0 {
				continue
			}
			items = append(items, poolItem{Class: "past-nonce", Raw: r.Chance(0.7), Txn: g.build(send(1+int64(r.Intn(int(n))), 7), true)})
		case 3:
			items = append(items, poolItem{Class: "nonce-zero-or-negative", Txn: g.build(send(int64(-r.Intn(2)), 7), true)})
		case 4: // future nonce within the allowed window, the nonces in between never arrive
			gap := int64(1 + r.Intn(8))
			items = append(items, poolItem{Class: "future-nonce-within-window", Txn: g.build(send(next[c.ID]+gap, 9), true)})
		case 5: // beyond the window
			items = append(items, poolItem{Class: "future-nonce-beyond-window", Raw: r.Chance(0.6), Txn: g.build(send(n+11+int64(r.Intn(30)), 9), true)})
		case 6: // the same nonce again with another fee (and another content)
			nn := n + 1 + int64(r.Intn(int(next[c.ID]-n)))
			sp := send(nn, currency.Coin(1+r.Intn(1000)))
			t := g.build(sp, true)
			sp.Fee = t.Fee + currency.Coin(1+r.Intn(9e8))
			if r.Chance(0.5) && t.Fee > 1e8 {
				sp.Fee = t.Fee - currency.Coin(r.Intn(5e7))
			}
			sp.Time = t.CreationDate
			items = append(items, poolItem{Class: "duplicate-nonce-other-fee", Raw: r.Chance(0.3), Txn: g.w.MakeTxn(sp)})
		case 7: // more than the sender owns (now, or once the earlier transactions of the block have run)
			v := bal + currency.Coin(r.Intn(3))
			if r.Chance(0.5) {
				v = bal - currency.Coin(r.Intn(1e9))
			}
			items = append(items, poolItem{Class: "value-above-balance", Raw: r.Chance(0.5), Txn: g.build(send(next[c.ID], v), true)})
			next[c.ID]++
		case 8: // fee above balance
			sp := send(next[c.ID], 1)
			sp.Fee = bal + 1
			items = append(items, poolItem{Class: "fee-above-balance", Raw: r.Chance(0.5), Txn: g.build(sp, false)})
		case 9: // created before the tolerance window
			sp := send(next[c.ID], 3)
			sp.Time = g.now - common.Timestamp(transaction.TXN_TIME_TOLERANCE) - common.Timestamp(1+r.Intn(100))
			items = append(items, poolItem{Class: "too-old", Raw: true, Txn: g.build(sp, true)})
		case 10: // created after it
			sp := send(next[c.ID], 3)
			sp.Time = g.now + common.Timestamp(transaction.TXN_TIME_TOLERANCE) + common.Timestamp(5+r.Intn(100))
			items = append(items, poolItem{Class: "created-in-the-future", Raw: true, Txn: g.build(sp, true)})
		case 11: // on the edge of the window: either decision is fine as long as both nodes take the same
			sp := send(next[c.ID], 3)
			sp.Time = g.now - common.Timestamp(transaction.TXN_TIME_TOLERANCE) + common.Timestamp(r.Intn(3))
			items = append(items, poolItem{Class: "edge-of-time-window", Raw: true, Txn: g.build(sp, true)})
		case 12: // a contract function nobody knows: the cost table has no entry, the estimate is "unbounded"
			k := r.Intn(3)
			sp := world.TxnSpec{From: c, To: []string{faucetsc.ADDRESS, minersc.ADDRESS, storagesc.ADDRESS}[k], Nonce: next[c.ID], Type: transaction.TxnTypeSmartContract, Func: "no_such_function", Input: map[string]string{}}
			items = append(items, poolItem{Class: "unknown-function@" + []string{"faucet", "miner", "storage"}[k], Txn: g.build(sp, true)})
			next[c.ID]++
		case 13: // fee below the minimum
			sp := send(next[c.ID], 3)
			sp.Fee = currency.Coin(r.Intn(1e6))
			items = append(items, poolItem{Class: "fee-below-minimum", Raw: r.Chance(0.5), Txn: g.build(sp, false)})
		case 14: // an already included transaction comes back unchanged
			if len(g.old) == 0 {
				continue
			}
			items = append(items, poolItem{Class: "replay-of-included", Raw: true, Txn: g.old[r.Intn(len(g.old))].Clone()})
		case 15: // sender == recipient, recipient not a hash
			sp := send(next[c.ID], 3)
			if r.Chance(0.5) {
				sp.To = c.ID
			} else {
				sp.To = "not-a-hash"
			}
			items = append(items, poolItem{Class: "bad-recipient", Txn: g.build(sp, true)})
		}
	}
	if os.Getenv("VERIF_MINT_FORGED") != "" {
		// content that cannot pass the admission handler at any time (it verifies hash and signature); only for exploration
		c := senders[0]
		t := g.build(world.TxnSpec{From: c, To: g.w.Clients[9].ID, Value: 5, Nonce: next[c.ID], Type: transaction.TxnTypeSend}, true)
		t.Signature = c.Sign(encryption.Hash("forged"))
		items = append(items, poolItem{Class: "forged-signature(raw)", Raw: true, Txn: t})
	}
	r.Shuffle(len(items), func(i, j int) { items[i], items[j] = items[j], items[i] })
	return items
}

func indexOf(ws []*world.Wallet, w *world.Wallet) int {
	for i, x := range ws {
		if x == w {
			return i
		}
	}
	return 0
}

// ---------------------------------------------------------------------------------------------------------
// node A: generator

func txnCtx() (context.Context, func()) {
	md := datastore.GetEntityMetadata("txn")
	ctx := memorystore.WithEntityConnection(common.GetRootContext(), md)
	return ctx, func() { memorystore.Close(ctx) }
}

func encodeBlock(b *block.Block, codec string) []byte {
	if codec == "json" {
		return datastore.ToJSON(b).Bytes()
	}
	return datastore.ToMsgpack(b).Bytes()
}

func decodeBlock(raw []byte, codec string) (*block.Block, error) {
	b := datastore.GetEntityMetadata("block").Instance().(*block.Block)
	var err error
	if codec == "json" {
		err = datastore.FromJSON(raw, b)
	} else {
		err = datastore.FromMsgpack(raw, b)
	}
	return b, err
}

// notarize gives the block verification tickets of every miner of the magic block (the harness owns their keys) and marks it notarized.
func notarize(w *world.World, mc *miner.Chain, mr *miner.Round, b *block.Block) *block.Block {
	var vts []*block.VerificationTicket
	for _, m := range w.Miners {
		vts = append(vts, &block.VerificationTicket{VerifierID: m.ID, Signature: m.Sign(b.Hash)})
	}
	b.MergeVerificationTickets(vts)
	nb, _ := mc.AddNotarizedBlockToRound(mr, b)
	nb.SetBlockNotarized()
	nb.SetBlockState(block.StateNotarized)
	return nb
}

func c45GenChild(tier string, idx int, dir string) (code int) {
	run := mon.NewRun("C45", tier, "exploration", "")
	defer func() {
		if p := recover(); p != nil {
			fmt.Printf("C45 GEN HARNESS-PANIC: %v\n%s\n", p, stack())
			run.Count("gen_harness_panics", 1)
			run.Checkpoint()
			code = 0
		}
	}()
	s := c45Scenario(tier, idx)
	w := s.world()
	defer w.Close()
	for _, m := range w.Miners {
		minerIDs = append(minerIDs, m.ID)
	}
	mc, stop := becomeNode(w, s.Gen)
	defer stop()
	r := mon.NewRand(mon.Seed()).Fork(fmt.Sprintf("c45-pool-%d", idx))
	prev := w.GB
	var chainBlocks []*block.Block
	var old []*transaction.Transaction
	for rn := int64(1); rn <= int64(s.Blocks); rn++ {
		g := &poolGen{w: w, mc: mc, s: s, r: r.Fork(fmt.Sprintf("blk-%d", rn)), now: common.Now(), lfb: mc.GetLatestFinalizedBlock(), prev: prev, old: old}
		w.Now = g.now
		items := g.generate(rn)
		meta := blockMeta{Round: rn, Codec: []string{"msgpack", "json"}[int(rn)%2]}
		ctx, done := txnCtx()
		for _, it := range items {
			pm := poolItemMeta{Hash: it.Txn.Hash, Class: it.Class, Sender: it.Txn.ClientID, Nonce: it.Txn.Nonce, Fee: uint64(it.Txn.Fee), Via: "admission", Admit: "ok"}
			t := it.Txn.Clone()
			_ = t.ComputeProperties()
			_, err := chain.PutTransaction(ctx, t)
			if err != nil {
				pm.Admit = errClass(err)
				if it.Raw {
					pm.Via = "raw"
					t = it.Txn.Clone()
					_ = t.ComputeProperties()
					if _, err := transaction.PutTransaction(ctx, t); err != nil {
						pm.Via = "raw-failed:" + errClass(err)
					}
				}
			}
			run.Count("pool:"+it.Class+":"+pm.Via+":"+pm.Admit, 1)
			meta.Pool = append(meta.Pool, pm)
		}
		done()
		seed, mr := roundSeed(mc, s, rn, len(w.Miners))
		meta.Seed = seed
		mr = mc.AddRound(mr).(*miner.Round)
		mc.SetCurrentRound(rn)
		var b *block.Block
		for try := 0; try < 3 && b == nil; try++ {
			gctx, cancel := context.WithTimeout(common.GetRootContext(), 60*time.Second)
			nb, err := mc.GenerateRoundBlock(gctx, mr)
			cancel()
			if err != nil {
				meta.GenErrors = append(meta.GenErrors, err.Error())
				run.Count("generate_errors:"+errClass(err), 1)
				time.Sleep(150 * time.Millisecond) // asynchronous removal of the offending transactions
				continue
			}
			b = nb
		}
		if b == nil {
			fmt.Printf("C45 GEN scenario %d round %d: no block generated: %v\n", idx, rn, meta.GenErrors)
			writeJSON(filepath.Join(dir, fmt.Sprintf("meta-%d-%d.json", idx, rn)), meta)
			run.Count("rounds_without_block", 1)
			break
		}
		meta.Generated = true
		meta.Hash = b.Hash
		meta.Root = hex.EncodeToString(b.ClientState.GetRoot())
		meta.Changes = b.ClientState.GetChangeCount()
		for _, t := range b.Txns {
			meta.Txns = append(meta.Txns, txnClaim{Hash: t.Hash, Output: t.TransactionOutput, Status: t.Status})
		}
		meta.File = fmt.Sprintf("block-%d-%d.bin", idx, rn)
		raw := encodeBlock(b, meta.Codec)
		if err := os.WriteFile(filepath.Join(dir, meta.File), raw, 0o644); err != nil {
			panic(err)
		}
		writeJSON(filepath.Join(dir, fmt.Sprintf("meta-%d-%d.json", idx, rn)), meta)
		run.Count("blocks_generated", 1)
		run.Count("txns_in_generated_blocks", int64(len(b.Txns)))
		fmt.Printf("C45 GEN scenario %d round %d: block %s txns=%d pool+=%d genErrs=%d\n", idx, rn, b.Hash[:8], len(b.Txns), len(items), len(meta.GenErrors))

		// the generator's own node goes on: the block gets notarized, (maybe) finalized, and its transactions leave the pool
		b = notarize(w, mc, mr, b)
		chainBlocks = append(chainBlocks, b)
		for _, t := range b.Txns {
			old = append(old, t.Clone())
		}
		advanceLFB(mc, s, chainBlocks)
		if s.Prune {
			pctx, pdone := txnCtx()
			var es []datastore.Entity
			for _, t := range b.Txns {
				es = append(es, t)
			}
			transaction.RemoveFromPool(pctx, es)
			pdone()
		}
		prev = b
		run.Checkpoint()
	}
	time.Sleep(100 * time.Millisecond)
	run.Checkpoint()
	return 0
}

func advanceLFB(mc *miner.Chain, s scenario, blocks []*block.Block) {
	if s.Finalize < 0 {
		return
	}
	i := len(blocks) - 1 - s.Finalize
	if i < 0 {
		return
	}
	blocks[i].SetBlockFinalised()
	mc.Chain.SetLatestFinalizedBlock(blocks[i])
	if err := mc.SaveChanges(context.Background(), blocks[i]); err != nil {
		fmt.Printf("C45 save changes of finalized block failed: %v\n", err)
	}
}

func writeJSON(path string, v interface{}) {
	b, err := json.Marshal(v)
	if err != nil {
		panic(err)
	}
	if err := os.WriteFile(path, b, 0o644); err != nil {
		panic(err)
	}
}

func errClass(err error) string {
	if err == nil {
		return "ok"
	}
	if ce, ok := err.(*common.Error); ok && ce.Code != "" {
		return ce.Code
	}
	msg := err.Error()
	// keep the stable words of the message
	var out []string
	for _, f := range strings.Fields(msg) {
		f = strings.Trim(f, ":,.()[]")
		if f == "" || strings.ContainsAny(f, "0123456789=") {
			continue
		}
		out = append(out, f)
		if len(out) >= 6 {
			break
		}
	}
	return strings.Join(out, "_")
}

// ---------------------------------------------------------------------------------------------------------
// node B: verifier + oracle

var builtIns = []string{"payFees", "generate_challenge", "blobber_block_rewards", "commit_settings_changes"}

// costOf is the oracle's own cost of a transaction, from the contracts' exported cost tables (not through the estimate function the
// generator and the verifier use): transfer cost for sends, 0 for data, table entry for contract calls; no entry = unbounded.
func costOf(c *chain.Chain, table map[string]map[string]int, t *transaction.Transaction) (*big.Int, bool) {
	switch t.TransactionType {
	case transaction.TxnTypeSend:
		return big.NewInt(int64(c.ChainConfig.TxnTransferCost())), true
	case transaction.TxnTypeSmartContract:
		tb, ok := table[t.ToClientID]
		if !ok {
			return nil, false
		}
		v, ok := tb[strings.ToLower(t.FunctionName)]
		if !ok {
			return nil, false
		}
		return big.NewInt(int64(v)), true
	default:
		return big.NewInt(0), true
	}
}

func c45VerChild(tier string, idx int, dir string) (code int) {
	run := mon.NewRun("C45", tier, "exploration", "")
	lim := newLimiter(run)
	defer func() {
		if p := recover(); p != nil {
			fmt.Printf("C45 VER HARNESS-PANIC: %v\n%s\n", p, stack())
			run.Count("ver_harness_panics", 1)
			run.Checkpoint()
			code = 0
		}
	}()
	s := c45Scenario(tier, idx)
	w := s.world()
	defer w.Close()
	for _, m := range w.Miners {
		minerIDs = append(minerIDs, m.ID)
	}
	mc, stop := becomeNode(w, s.Ver)
	defer stop()
	prev := w.GB
	var chainBlocks []*block.Block
	classes := map[string]string{} // pool class of every transaction node A ever put into its pool, by hash
	for rn := int64(1); rn <= int64(s.Blocks); rn++ {
		var meta blockMeta
		mb, err := os.ReadFile(filepath.Join(dir, fmt.Sprintf("meta-%d-%d.json", idx, rn)))
		if err != nil {
			break
		}
		if err := json.Unmarshal(mb, &meta); err != nil {
			panic(err)
		}
		if !meta.Generated {
			break
		}
		raw, err := os.ReadFile(filepath.Join(dir, meta.File))
		if err != nil {
			panic(err)
		}
		replay := map[string]interface{}{"seed": mon.Seed(), "scenario": idx, "round": rn, "codec": meta.Codec, "block_hex": hex.EncodeToString(raw), "pool": meta.Pool, "scenario_params": s}
		pristine, err := decodeBlock(raw, meta.Codec)
		if err != nil {
			lim.Violate("C45:honest-block-rejected:decode", fmt.Sprintf("the block node A serialised (%s) does not decode on node B: %v", meta.Codec, err), replay)
			break
		}
		run.Eval(1)
		run.Count("blocks_received", 1)
		for _, p := range meta.Pool {
			classes[p.Hash] = p.Class
		}

		// ---- structural oracle on the bytes as received ------------------------------------------------------------------
		seen := map[string]int{}
		for i, t := range pristine.Txns {
			if j, ok := seen[t.Hash]; ok {
				lim.Violate("C45:duplicate-txn", fmt.Sprintf("round %d: transaction %s is in the block at positions %d and %d", rn, t.Hash, j, i), replay)
			}
			seen[t.Hash] = i
		}
		run.Count("monitor:no-duplicate-txn", 1)
		// nonces: per sender consecutive from the nonce in B's own previous state
		nextNonce := map[string]int64{}
		nonceOK := true
		for i, t := range pristine.Txns {
			want, ok := nextNonce[t.ClientID]
			if !ok {
				n, _ := stateOf(prev.ClientState, t.ClientID)
				want = n + 1
			}
			if t.Nonce != want {
				nonceOK = false
				lim.Violate("C45:nonce-gap", fmt.Sprintf("round %d: transaction %d of the block (sender %s, class %q) has nonce %d, expected %d (state nonce + transactions of the sender earlier in the block)", rn, i, short(t.ClientID), classes[t.Hash], t.Nonce, want), replay)
				want = t.Nonce
			}
			nextNonce[t.ClientID] = want + 1
			run.Count("monitor:nonce-consecutive", 1)
		}
		_ = nonceOK
		// built-ins at most once
		bi := map[string]int{}
		for _, t := range pristine.Txns {
			if t.TransactionType == transaction.TxnTypeSmartContract {
				for _, name := range builtIns {
					if t.FunctionName == name {
						bi[name]++
					}
				}
			}
		}
		for name, n := range bi {
			run.Count("builtin_in_block:"+name, int64(n))
			if n > 1 {
				lim.Violate("C45:duplicate-builtin-generated", fmt.Sprintf("round %d: the generated block contains %d %s transactions", rn, n, name), replay)
			}
		}
		run.Count("monitor:builtin-at-most-once", 1)
		// cost limit
		lfb := mc.GetLatestFinalizedBlock()
		table := costTable(w.Chain, lfb)
		total := new(big.Int)
		unbounded := 0
		var unboundedAt []string
		for _, t := range pristine.Txns {
			c, ok := costOf(w.Chain, table, t)
			if !ok {
				unbounded++
				unboundedAt = append(unboundedAt, fmt.Sprintf("%s (pool class %q)", t.FunctionName, classes[t.Hash]))
				continue
			}
			total.Add(total, c)
		}
		limit := big.NewInt(int64(w.Chain.ChainConfig.MaxBlockCost()))
		run.Count("monitor:cost-limit", 1)
		if unbounded > 0 {
			// witness class of its own: the block carries a transaction whose cost the code's own estimate gives as math.MaxInt
			also := "the priced part alone stays under the limit"
			if total.Cmp(limit) > 0 {
				also = "the priced part alone is already above the limit"
				run.Count("blocks_priced_part_above_limit", 1)
			}
			lim.Violate("C45:over-cost:unpriced-function", fmt.Sprintf("round %d: the block carries %d contract call(s) without a cost-table entry (%v; the estimate for them is math.MaxInt); cost of the other %d transactions from the cost tables: %s, limit %s: %s", rn, unbounded, unboundedAt, len(pristine.Txns)-unbounded, total, limit, also), replay)
		} else if total.Cmp(limit) > 0 {
			lim.Violate("C45:over-cost", fmt.Sprintf("round %d: block cost from the contracts' cost tables is %s, limit %s; %d transactions", rn, total, limit, len(pristine.Txns)), replay)
		}
		if total.Cmp(big.NewInt(limit.Int64()*8/10)) > 0 {
			run.Count("blocks_above_80pct_of_cost_limit", 1)
		}

		// ---- independent re-execution on node B (real UpdateState, transaction by transaction) -----------------------------
		rex, err := decodeBlock(raw, meta.Codec)
		if err != nil {
			panic(err)
		}
		reRoot, reOut, reChanges, reErr := reexecute(w, prev, rex)
		run.Count("monitor:re-execution", 1)
		if reErr != "" {
			lim.Violate("C45:honest-block-rejected:re-execution:"+errClassStr(reErr), fmt.Sprintf("round %d: re-executing the block on node B's copy of the previous state fails: %s", rn, reErr), replay)
		} else {
			if reRoot != hex.EncodeToString(pristine.ClientStateHash) || reRoot != meta.Root {
				lim.Violate("C45:root-mismatch", fmt.Sprintf("round %d: node B recomputes root %s, block says %s, node A computed %s", rn, reRoot, hex.EncodeToString(pristine.ClientStateHash), meta.Root), replay)
			}
			if reChanges != pristine.StateChangesCount {
				lim.Violate("C45:change-count-mismatch", fmt.Sprintf("round %d: node B counts %d state changes, block says %d (node A %d)", rn, reChanges, pristine.StateChangesCount, meta.Changes), replay)
			}
			for i, t := range pristine.Txns {
				if reOut[i].Output != t.TransactionOutput || reOut[i].Status != t.Status || encOutHash(reOut[i].Output) != t.OutputHash {
					lim.Violate("C45:output-mismatch", fmt.Sprintf("round %d txn %d (%s, class %q): node A output/status %q/%d (hash %s), node B %q/%d", rn, i, fnName(t), classes[t.Hash], trunc(t.TransactionOutput, 200), t.Status, t.OutputHash, trunc(reOut[i].Output, 200), reOut[i].Status), replay)
					break
				}
				run.Count("monitor:output-equal", 1)
			}
		}

		// ---- the real verifier --------------------------------------------------------------------------------------------
		vb, err := decodeBlock(raw, meta.Codec)
		if err != nil {
			panic(err)
		}
		mr := mc.CreateRound(round.NewRound(rn))
		mr.SetRandomSeed(meta.Seed, len(w.Miners))
		mr = mc.AddRound(mr).(*miner.Round)
		mc.SetCurrentRound(rn)
		vctx, cancel := context.WithTimeout(common.GetRootContext(), 90*time.Second)
		_, verr := mc.VerifyRoundBlock(vctx, mr, vb)
		cancel()
		run.Count("monitor:verify-round-block", 1)
		shape := blockShape(pristine, classes)
		run.Distinct(shape)
		if rn <= 2 && idx < 3 {
			run.Sample(map[string]interface{}{"scenario": idx, "round": rn, "txns": len(pristine.Txns), "shape": shape, "verify_error": fmt.Sprint(verr), "cost": total.String()})
		}
		if verr != nil {
			run.Count("blocks_rejected", 1)
			lim.Violate("C45:honest-block-rejected:"+errClass(verr), fmt.Sprintf("round %d (scenario %d, %d txns): node B's VerifyRoundBlock rejects the block node A generated: %v", rn, idx, len(pristine.Txns), verr), replay)
			break
		}
		run.Count("blocks_verified", 1)
		run.Count("txns_verified", int64(len(vb.Txns)))
		fmt.Printf("C45 VER scenario %d round %d: verified, txns=%d table-cost=%s unbounded=%d\n", idx, rn, len(vb.Txns), total, unbounded)
		if vb.ClientState == nil || hex.EncodeToString(vb.ClientState.GetRoot()) != meta.Root {
			got := "<nil>"
			if vb.ClientState != nil {
				got = hex.EncodeToString(vb.ClientState.GetRoot())
			}
			lim.Violate("C45:root-mismatch", fmt.Sprintf("round %d: the verifier accepted the block with state root %s, node A computed %s", rn, got, meta.Root), replay)
		}
		for i, t := range vb.Txns {
			if i < len(meta.Txns) && (t.TransactionOutput != meta.Txns[i].Output || t.Hash != meta.Txns[i].Hash) {
				lim.Violate("C45:output-mismatch", fmt.Sprintf("round %d txn %d (%s): accepted by the verifier with output %q, node A produced %q", rn, i, fnName(t), trunc(t.TransactionOutput, 200), trunc(meta.Txns[i].Output, 200)), replay)
				break
			}
		}
		if vb.ClientState != nil && vb.ClientState.GetChangeCount() != meta.Changes {
			lim.Violate("C45:change-count-mismatch", fmt.Sprintf("round %d: the verifier's state has %d changes, node A's %d", rn, vb.ClientState.GetChangeCount(), meta.Changes), replay)
		}
		for _, t := range pristine.Txns {
			run.Count("included:"+classOr(classes[t.Hash], fnName(t)), 1)
		}
		// node B adopts the block as its previous state
		vb = notarize(w, mc, mr, vb)
		chainBlocks = append(chainBlocks, vb)
		advanceLFB(mc, s, chainBlocks)
		prev = vb
		if rn > 1 {
			run.Count("blocks_verified_on_non_genesis_state", 1)
		}
		run.Checkpoint()
	}
	time.Sleep(100 * time.Millisecond)
	run.Checkpoint()
	return 0
}

func classOr(c, d string) string {
	if c != "" {
		return c
	}
	return "built-in:" + d
}

func fnName(t *transaction.Transaction) string {
	switch t.TransactionType {
	case transaction.TxnTypeSend:
		return "send"
	case transaction.TxnTypeData:
		return "data"
	}
	return t.FunctionName
}

func short(s string) string {
	if len(s) > 8 {
		return s[:8]
	}
	return s
}

func trunc(s string, n int) string {
	if len(s) > n {
		return s[:n] + "…"
	}
	return s
}

func encOutHash(out string) string {
	if out == "" {
		return encryption.EmptyHash
	}
	return encryption.Hash(out)
}

func errClassStr(s string) string { return errClass(fmt.Errorf("%s", s)) }

// blockShape is the distinctness key of a block: the multiset of (pool class or function, status) it contains, the number of
// senders with more than one transaction, and which built-ins it carries.
func blockShape(b *block.Block, classes map[string]string) string {
	m := map[string]int{}
	per := map[string]int{}
	for _, t := range b.Txns {
		m[fmt.Sprintf("%s/%d", classOr(classes[t.Hash], fnName(t)), t.Status)]++
		per[t.ClientID]++
	}
	multi := 0
	for _, n := range per {
		if n > 1 {
			multi++
		}
	}
	var ks []string
	for k, n := range m {
		b := "1"
		if n > 1 {
			b = "n"
		}
		ks = append(ks, k+"x"+b)
	}
	sort.Strings(ks)
	return fmt.Sprintf("multi=%d|%s", multi, strings.Join(ks, ","))
}

func costTable(c *chain.Chain, lfb *block.Block) map[string]map[string]int {
	qbc := statecache.NewQueryBlockCache(c.GetStateCache(), lfb.Hash)
	tbc := statecache.NewTransactionCache(qbc)
	st := chain.CreateTxnMPT(lfb.ClientState, tbc)
	sctx := c.NewStateContext(lfb, st, &transaction.Transaction{}, nil)
	return smartcontract.GetTransactionCostTable(sctx)
}

type reOutT struct {
	Output string
	Status int
}

// reexecute runs the block's transactions one by one through the real Chain.UpdateState on a fresh trie over node B's previous
// state; nothing is committed to the global state cache, so the real verifier that runs afterwards starts from the same state.
func reexecute(w *world.World, prev *block.Block, b *block.Block) (root string, outs []reOutT, changes int, errS string) {
	b.SetPreviousBlock(prev)
	st := block.CreateStateWithPreviousBlock(prev, w.Chain.GetStateDB(), b.Round)
	bc := statecache.NewBlockCache(w.Chain.GetStateCache(), statecache.Block{Round: b.Round, Hash: b.Hash, PrevHash: b.PrevHash})
	for i, t := range b.Txns {
		t.Status = 0
		t.TransactionOutput = ""
		if _, err := w.Chain.UpdateState(context.Background(), b, st, t, bc); err != nil {
			return "", nil, 0, fmt.Sprintf("txn %d (%s nonce %d): %v", i, fnName(t), t.Nonce, err)
		}
		outs = append(outs, reOutT{Output: t.TransactionOutput, Status: t.Status})
	}
	return hex.EncodeToString(st.GetRoot()), outs, st.GetChangeCount(), ""
}

// ---------------------------------------------------------------------------------------------------------
// parent

func c45Parent(tier string) int {
	run := mon.NewRun("C45", tier, "exploration",
		"scenario = chain of blocks; node A (child process: real chain on rocksdb + miner chain + redis pool) fills its pool from a hostile generator through the real admission handler chain.PutTransaction (stale content also behind it) and calls the real GenerateRoundBlock; the serialised block (msgpack/JSON alternating) goes to node B (second child process, own world from the same seed, another miner identity) which re-executes it through UpdateState and runs the real VerifyRoundBlock, then adopts it; distinct = block shapes (multiset of pool classes x status, multi-txn senders, built-ins)")
	dir := exchangeDir("exchange-C45") // not "c<N>": RunChildren uses and removes scratch/c<index> per child
	n := scale(tier, 16, 96)
	var gen, ver []mon.ChildSpec
	for i := 0; i < n; i++ {
		gen = append(gen, mon.ChildSpec{Name: fmt.Sprintf("gen-%d", i), Args: childArgs("C45", tier, "gen", i, dir), Timeout: time.Duration(scale(tier, 100, 600)) * time.Second})
		ver = append(ver, mon.ChildSpec{Name: fmt.Sprintf("ver-%d", i), Args: childArgs("C45", tier, "ver", i, dir), Timeout: time.Duration(scale(tier, 100, 600)) * time.Second})
	}
	dup := []mon.ChildSpec{{Name: "dup-builtin", Args: childArgs("C45", tier, "dup", 0, ""), Timeout: 120 * time.Second}}
	res := mon.RunChildren(run, append(gen, dup...), 8)
	res = append(res, mon.RunChildren(run, ver, 8)...)
	for _, cr := range res {
		if cr.Crashed && !cr.TimedOut {
			p := mon.KeepLog(cr, fmt.Sprintf("C45-%s-crash.log", cr.Spec.Name))
			run.Inconclusive(fmt.Sprintf("child %s crashed (log %s)", cr.Spec.Name, p))
		}
	}
	if run.Counter("gen_harness_panics")+run.Counter("ver_harness_panics")+run.Counter("dup_harness_panics") > 0 {
		run.Inconclusive("a child could not build its node (harness panic, see counters)")
	}
	run.RequireMin("blocks_verified", int64(scale(tier, 40, 900)))
	run.RequireMin("blocks_verified_on_non_genesis_state", int64(scale(tier, 30, 800)))
	run.RequireMin("monitor:nonce-consecutive", int64(scale(tier, 800, 8000)))
	run.RequireMin("monitor:dup-builtin-validate", 4)
	run.Assume("both nodes run in one machine and take wall-clock time from it (block creation date = time.Now of node A); transaction creation dates are relative to it, so hashes differ between runs while the case classes are functions of VERIF_SEED")
	run.Assume("the pool is filled through chain.PutTransaction (the handler behind /v1/transaction/put); only content that admission would have let in at an earlier time/state (past nonce, too old, balance spent, fee table changed, duplicate nonce, beyond the nonce window, replays) is also written behind it. Forged signatures/hashes never enter the pool this way (VERIF_MINT_FORGED=1 explores that)")
	run.Assume("block cost is recomputed from the contracts' exported cost tables over node B's latest finalized block; a function without a table entry counts as unbounded (the code's own estimate returns math.MaxInt for it)")
	run.Assume("no networking: the generator's SendBlock goes to closed ports; notarization tickets are produced by the harness with the miners' keys")
	return run.Finish()
}
