// Package obs is the harness side of the state-context observation hook (build tag verif).
// From the single hook it derives: the key registry (contract key <-> MPT path <-> Go type), the per-transaction
// op log, the cache shadow-read monitor (C07), the stored-value stream (C08) and the transfer streams (C04/C21).
package obs

import (
	"bytes"
	"fmt"
	"reflect"
	"sync"

	cstate "0chain.net/chaincore/chain/state"
	"0chain.net/chaincore/state"
	"0chain.net/core/datastore"
	"0chain.net/core/encryption"
	"github.com/0chain/common/core/util"
)

// KeyInfo describes one contract key ever seen.
type KeyInfo struct {
	Key    string
	Path   string
	Type   reflect.Type
	Stored bool
}

// Op is one observed state-context operation.
type Op struct {
	Kind    string // get-hit, get-trie, insert, delete
	Key     string
	Type    string
	TxnHash string
	Bytes   []byte
}

// CacheMismatch is a C07 shadow-read disagreement.
type CacheMismatch struct {
	Key     string
	Type    string
	TxnHash string
	Kind    string // "value-differs", "hit-but-absent", "alias-mutation"
	Cache   []byte
	Trie    []byte
	TrieErr string
}

// Observer implements cstate.VerifObserverI.
type Observer struct {
	mu              sync.Mutex
	Keys            map[string]*KeyInfo // by path
	ByKey           map[string]*KeyInfo
	LogOps          bool
	Ops             []Op
	Shadow          bool // C07 shadow reads
	TypeConfused    int64
	foreignSince    map[string]bool // key overwritten by a value of another Go type and not re-read from the trie since
	Mismatches      []CacheMismatch
	HitsByType      map[string]int64
	MissByType      map[string]int64
	InsByType       map[string]int64
	ValueSink       func(key string, v util.MPTSerializable, enc []byte) // C08 stream
	Transfers       []*state.Transfer
	SignedTransfers []*state.SignedTransfer
	lastRead        map[string][]byte // key -> bytes at last get in this txn (alias detection)
	lastSC          map[string]string
	curTxn          string
}

// Install creates and installs the process-wide observer.
func Install() *Observer {
	o := &Observer{Keys: map[string]*KeyInfo{}, ByKey: map[string]*KeyInfo{}, HitsByType: map[string]int64{}, MissByType: map[string]int64{}, InsByType: map[string]int64{}, lastRead: map[string][]byte{}}
	cstate.VerifObserver = o
	return o
}

func typeName(v interface{}) string {
	t := reflect.TypeOf(v)
	if t == nil {
		return "nil"
	}
	return t.String()
}

// register records a key; the Go type is taken from values actually STORED (insert). A read with a requested type only
// types a key that was never seen stored (a contract may legitimately ask for a foreign key with its own type).
func (o *Observer) register(key string, v util.MPTSerializable, stored bool) {
	if ki, ok := o.ByKey[key]; ok {
		if v != nil && (stored || ki.Type == nil) {
			ki.Type = reflect.TypeOf(v)
			ki.Stored = ki.Stored || stored
		}
		return
	}
	ki := &KeyInfo{Key: key, Path: encryption.Hash(key), Stored: stored}
	if v != nil {
		ki.Type = reflect.TypeOf(v)
	}
	o.ByKey[key] = ki
	o.Keys[ki.Path] = ki
}

func txnHash(sc *cstate.StateContext) string {
	if t := sc.GetTransaction(); t != nil {
		return t.Hash
	}
	return ""
}

func (o *Observer) beginIfNew(h string) {
	if h != o.curTxn {
		o.curTxn = h
		o.lastRead = map[string][]byte{}
	}
}

func enc(v util.MPTSerializable) []byte {
	defer func() { _ = recover() }()
	b, err := v.MarshalMsg(nil)
	if err != nil {
		return nil
	}
	return b
}

// ObsGet implements the hook.
func (o *Observer) ObsGet(sc *cstate.StateContext, key datastore.Key, v util.MPTSerializable, cacheHit bool, trieRead func(out util.MPTSerializable) error) {
	tn := typeName(v)
	var got []byte
	if o.Shadow || o.LogOps {
		got = enc(v)
	}
	o.mu.Lock()
	defer o.mu.Unlock()
	th := txnHash(sc)
	o.beginIfNew(th)
	o.register(key, v, false)
	if cacheHit {
		o.HitsByType[tn]++
	} else {
		o.MissByType[tn]++
	}
	// a key whose last STORED value has another Go type (two contracts sharing a key) is a type-confused read: the
	// decoded result depends on how the caller pre-allocated v, so it cannot be compared with a fresh decode
	confused := false
	if ki := o.ByKey[key]; ki != nil && ki.Stored && ki.Type != nil && ki.Type != reflect.TypeOf(v) {
		confused = true
		o.TypeConfused++
	}
	if o.foreignSince == nil {
		o.foreignSince = map[string]bool{}
	}
	if !cacheHit {
		o.foreignSince[key+"|"+tn] = false // this type has been re-read from the trie since the foreign insert
	} else if o.Shadow && o.foreignSince[key] && confused {
		if again, seen := o.foreignSince[key+"|"+tn]; seen && !again {
			// re-cached from the trie after the foreign insert: consistent with the trie
		} else if o.sameAsTrie(v, got, trieRead) {
			// the foreign insert happened on another branch (a sibling block): this branch's trie still holds exactly
			// the value the cache serves
		} else {
			// the cache still serves a value although the key was since overwritten with a value of another type
			o.Mismatches = append(o.Mismatches, CacheMismatch{Key: key, Type: tn, TxnHash: th, Kind: "stale-after-foreign-insert", Cache: got})
		}
	}
	if o.Shadow && cacheHit && !confused {
		// read the same key from the trie into a fresh value of the same dynamic type
		rt := reflect.TypeOf(v)
		if rt.Kind() == reflect.Ptr {
			fresh := reflect.New(rt.Elem()).Interface().(util.MPTSerializable)
			err := trieRead(fresh)
			if err != nil {
				o.Mismatches = append(o.Mismatches, CacheMismatch{Key: key, Type: tn, TxnHash: th, Kind: "hit-but-absent", Cache: got, TrieErr: err.Error()})
			} else {
				tb := enc(fresh)
				if !bytes.Equal(tb, got) {
					o.Mismatches = append(o.Mismatches, CacheMismatch{Key: key, Type: tn, TxnHash: th, Kind: "value-differs", Cache: got, Trie: tb})
				}
			}
		}
	}
	if o.Shadow && !confused {
		lk := key + "|" + tn // the same key may legitimately be decoded into different Go types
		if prev, ok := o.lastRead[lk]; ok && !bytes.Equal(prev, got) {
			o.Mismatches = append(o.Mismatches, CacheMismatch{Key: key, Type: tn, TxnHash: th, Kind: "alias-mutation", Cache: got, Trie: prev, TrieErr: fmt.Sprintf("cur_hit=%v sc=%p prev_sc=%s", cacheHit, sc, o.lastSC[lk])})
		}
		if o.lastSC == nil {
			o.lastSC = map[string]string{}
		}
		o.lastSC[lk] = fmt.Sprintf("%p/hit=%v", sc, cacheHit)
		o.lastRead[lk] = got
	}
	if o.LogOps {
		k := "get-trie"
		if cacheHit {
			k = "get-hit"
		}
		o.Ops = append(o.Ops, Op{Kind: k, Key: key, Type: tn, TxnHash: th, Bytes: got})
	}
}

// sameAsTrie decodes the trie's value of the key into a fresh instance of v's type and compares encodings.
func (o *Observer) sameAsTrie(v util.MPTSerializable, got []byte, trieRead func(out util.MPTSerializable) error) (same bool) {
	defer func() {
		if recover() != nil {
			same = false
		}
	}()
	rt := reflect.TypeOf(v)
	if rt == nil || rt.Kind() != reflect.Ptr {
		return false
	}
	fresh := reflect.New(rt.Elem()).Interface().(util.MPTSerializable)
	if err := trieRead(fresh); err != nil {
		return false
	}
	return bytes.Equal(enc(fresh), got)
}

// ObsInsert implements the hook.
func (o *Observer) ObsInsert(sc *cstate.StateContext, key datastore.Key, v util.MPTSerializable) {
	tn := typeName(v)
	var b []byte
	if o.LogOps || o.ValueSink != nil || o.Shadow {
		b = enc(v)
	}
	o.mu.Lock()
	th := txnHash(sc)
	o.beginIfNew(th)
	if ki := o.ByKey[key]; ki != nil && ki.Stored && ki.Type != nil && ki.Type != reflect.TypeOf(v) {
		if o.foreignSince == nil {
			o.foreignSince = map[string]bool{}
		}
		o.foreignSince[key] = true
		for k := range o.foreignSince {
			if len(k) > len(key) && k[:len(key)] == key && k[len(key)] == '|' {
				delete(o.foreignSince, k)
			}
		}
	}
	o.register(key, v, true)
	o.InsByType[tn]++
	o.forget(key)
	if o.LogOps {
		o.Ops = append(o.Ops, Op{Kind: "insert", Key: key, Type: tn, TxnHash: th, Bytes: b})
	}
	sink := o.ValueSink
	o.mu.Unlock()
	if sink != nil {
		sink(key, v, b)
	}
}

// ObsDelete implements the hook.
func (o *Observer) ObsDelete(sc *cstate.StateContext, key datastore.Key) {
	o.mu.Lock()
	defer o.mu.Unlock()
	th := txnHash(sc)
	o.beginIfNew(th)
	o.register(key, nil, false)
	o.forget(key)
	if o.LogOps {
		o.Ops = append(o.Ops, Op{Kind: "delete", Key: key, TxnHash: th})
	}
}

// ObsTransfer implements the hook (called under the state context's own mutex: must not call back into sc).
func (o *Observer) ObsTransfer(sc *cstate.StateContext, t *state.Transfer) {
	o.mu.Lock()
	o.Transfers = append(o.Transfers, t)
	o.mu.Unlock()
}

// ObsSignedTransfer implements the hook.
func (o *Observer) ObsSignedTransfer(sc *cstate.StateContext, st *state.SignedTransfer) {
	o.mu.Lock()
	o.SignedTransfers = append(o.SignedTransfers, st)
	o.mu.Unlock()
}

// ResetTxn clears the per-transaction streams and returns them.
func (o *Observer) ResetTxn() (ops []Op, tr []*state.Transfer, st []*state.SignedTransfer) {
	o.mu.Lock()
	defer o.mu.Unlock()
	ops, tr, st = o.Ops, o.Transfers, o.SignedTransfers
	o.Ops, o.Transfers, o.SignedTransfers = nil, nil, nil
	// an explicit transaction boundary: two different transactions can carry the same hash (the fee is not hashed)
	o.lastRead = map[string][]byte{}
	o.curTxn = ""
	return
}

// TakeMismatches returns and clears the C07 findings.
func (o *Observer) TakeMismatches() []CacheMismatch {
	o.mu.Lock()
	defer o.mu.Unlock()
	m := o.Mismatches
	o.Mismatches = nil
	return m
}

// Lookup returns the key info for an MPT path.
func (o *Observer) Lookup(path string) *KeyInfo {
	o.mu.Lock()
	defer o.mu.Unlock()
	return o.Keys[path]
}

// Stats returns copies of the per-type counters.
func (o *Observer) Stats() (hits, miss, ins map[string]int64) {
	o.mu.Lock()
	defer o.mu.Unlock()
	cp := func(m map[string]int64) map[string]int64 {
		r := map[string]int64{}
		for k, v := range m {
			r[k] = v
		}
		return r
	}
	return cp(o.HitsByType), cp(o.MissByType), cp(o.InsByType)
}

func (m CacheMismatch) String() string {
	return fmt.Sprintf("%s key=%q type=%s txn=%s cache=%x trie=%x err=%s", m.Kind, m.Key, m.Type, m.TxnHash, m.Cache, m.Trie, m.TrieErr)
}

// ByKeyLookup returns the key info for a contract key string.
func (o *Observer) ByKeyLookup(key string) *KeyInfo {
	o.mu.Lock()
	defer o.mu.Unlock()
	return o.ByKey[key]
}

// TypeHistogram counts registered keys per Go type.
func (o *Observer) TypeHistogram() map[string]int {
	o.mu.Lock()
	defer o.mu.Unlock()
	r := map[string]int{}
	for _, k := range o.ByKey {
		if k.Type != nil {
			r[k.Type.String()]++
		} else {
			r["?"]++
		}
	}
	return r
}

func (o *Observer) forget(key string) {
	for k := range o.lastRead {
		if len(k) > len(key) && k[:len(key)] == key && k[len(key)] == '|' {
			delete(o.lastRead, k)
		}
	}
}
