package main

import (
	"os"

	"verifh/eng/evdb"
)

func main() {
	args := os.Args[1:]
	if len(args) > 0 && args[0] == "evdb" {
		args = args[1:]
	}
	os.Exit(evdb.Main(args))
}
