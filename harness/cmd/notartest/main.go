// scratch driver for the notar engine (deleted after testing)
package main

import (
	"os"

	"verifh/eng/notar"
)

func main() {
	args := os.Args[1:]
	if len(args) > 0 && args[0] == "notar" {
		args = args[1:]
	}
	os.Exit(notar.Main(args))
}
