// verifh is the single harness binary: verifh <engine> [flags].
package main

import (
	"fmt"
	"os"

	"verifh/eng/codec"
	"verifh/eng/conc"
	"verifh/eng/crypto"
	"verifh/eng/evdb"
	"verifh/eng/mint"
	"verifh/eng/notar"
	"verifh/eng/schist"
	"verifh/eng/store"
	"verifh/eng/unitchain"
	"verifh/eng/unitsc"
)

var engines = map[string]func([]string) int{
	"schist":    schist.Main,
	"determ":    schist.DetermMain,
	"sync":      schist.SyncMain,
	"prune":     schist.PruneMain,
	"store":     store.Main,
	"conc":      conc.Main,
	"crypto":    crypto.Main,
	"codec":     codec.Main,
	"evdb":      evdb.Main,
	"mint":      mint.Main,
	"notar":     notar.Main,
	"unitsc":    unitsc.Main,
	"unitchain": unitchain.Main,
}

func main() {
	if len(os.Args) < 2 {
		fmt.Println("usage: verifh <engine> -prop Cxx -tier quick|thorough")
		os.Exit(2)
	}
	e, ok := engines[os.Args[1]]
	if !ok {
		fmt.Printf("unknown engine %q\n", os.Args[1])
		os.Exit(2)
	}
	os.Exit(e(os.Args[2:]))
}
