// scratch driver for engine unitchain (deleted when the engine is registered)
package main

import (
	"os"

	"verifh/eng/unitchain"
)

func main() {
	args := os.Args[1:]
	if len(args) > 0 && args[0] == "unitchain" {
		args = args[1:]
	}
	os.Exit(unitchain.Main(args))
}
