package main

import (
	"os"

	"verifh/eng/codec"
)

func main() {
	args := os.Args[1:]
	if len(args) > 0 && args[0] == "codec" {
		args = args[1:]
	}
	os.Exit(codec.Main(args))
}
