package main

import (
	"context"
	"encoding/hex"
	"fmt"
	"strings"

	"0chain.net/chaincore/block"
	"0chain.net/chaincore/node"
	"0chain.net/chaincore/transaction"
	"0chain.net/core/datastore"
	"0chain.net/core/encryption"
	"github.com/herumi/bls-go-binary/bls"
	"verifh/world"
)

func try(name string, f func()) {
	defer func() {
		if e := recover(); e != nil {
			fmt.Printf("%s: PANIC %v\n", name, e)
		}
	}()
	f()
}

func main() {
	w := world.New(world.Options{Seed: 1})
	defer w.Close()
	fmt.Println("node registered:", node.GetNode(w.Miners[1].ID) != nil)
	bc := w.NewBlock(w.GB, 1, 1)
	t1 := w.MakeTxn(world.TxnSpec{From: w.Clients[0], To: w.Clients[1].ID, Value: 5, Fee: 100, Nonce: 1, Type: transaction.TxnTypeSend})
	_, err := bc.Exec(t1)
	fmt.Println("exec", err, "out", t1.TransactionOutput, "oh", t1.OutputHash, "st", t1.Status)
	b := bc.Seal()
	b.HashBlock()
	b.Signature = w.Miners[1].Sign(b.Hash)
	buf := datastore.ToJSON(b)
	nb := block.Provider().(*block.Block)
	err = datastore.FromJSON(buf.Bytes(), nb)
	fmt.Println("decode", err, "validate", nb.Validate(context.Background()), "hash eq", nb.ComputeHash() == b.Hash)
	fmt.Println(string(buf.Bytes())[:600])

	// zero signature under zero key
	var zs bls.Sign
	var zk bls.PublicKey
	fmt.Println("zero sig hex", zs.GetHexString(), "zero verifies under zero key:", zs.Verify(&zk, "hello"))
	var sk bls.SecretKey
	sk.SetByCSPRNG()
	fmt.Println("zero sig under real key:", zs.Verify(sk.GetPublicKey(), "hello"))
	s := sk.Sign("hello")
	fmt.Println("real sig under zero key:", s.Verify(&zk, "hello"))

	// ed25519 malformed key
	try("ed-short-key", func() {
		e := encryption.NewED25519Scheme()
		_ = e.SetPublicKey("abcd")
		ok, err := e.Verify(strings.Repeat("00", 64), encryption.Hash("x"))
		fmt.Println("ed short key:", ok, err)
	})
	try("ed-sign-nokey", func() {
		e := encryption.NewED25519Scheme()
		s, err := e.Sign(encryption.Hash("x"))
		fmt.Println("ed sign nokey:", s, err)
	})
	try("bls-miracl-sig", func() {
		e := encryption.NewBLS0ChainScheme()
		_ = e.SetPublicKey(w.Clients[0].PubKey)
		ok, err := e.Verify("(zz,zz)", encryption.Hash("x"))
		fmt.Println("miracl sig:", ok, err)
	})
	try("bls-miracl-pk", func() {
		e := encryption.NewBLS0ChainScheme()
		err := e.SetPublicKey(strings.Repeat("0", 258))
		fmt.Println("miracl pk:", err)
	})
	try("bls-sign-nokey", func() {
		e := encryption.NewBLS0ChainScheme()
		s, err := e.Sign(encryption.Hash("x"))
		fmt.Println("bls sign nokey:", s, err)
	})
	_ = hex.EncodeToString
}
