// scratch test driver for engine mint (deleted when done)
package main

import (
	"os"

	"verifh/eng/mint"
)

func main() { os.Exit(mint.Main(os.Args[1:])) }
